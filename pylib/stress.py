"""Free-running rounds (C02 / C03 / C19): real threads on one node, no scheduler, no hooks; judged by Trace_Stress."""
import json
import os
import re

import common

INIT = {"inc": ("5", 0), "set": ("v0", 0), "cas": ("v0", 0), "newer": ("v0", 0), "churn": ("v0", 0)}


def cases_for(kinds, tier, seed):
    import random
    rnd = random.Random(seed)
    cases = []
    rounds = 40 if tier == "quick" else 600
    for kind in kinds:
        for variant in range(3):
            T = [2, 3, 4][variant]
            K = [6, 4, 3][variant]
            setup = ["set k %s" % INIT[kind][0]]
            strategy = "newer" if kind == "newer" else "none"
            threads = []
            for t in range(T):
                if kind == "inc":
                    lines = ["increment k 1" if variant != 1 else "increment k %d" % (1 + (t + i) % 3) for i in range(K)]
                elif kind == "set":
                    lines = ["set k w%d_%d" % (t, i) for i in range(K)]
                elif kind == "cas":
                    lines = ["set-safe k 0 c%d" % t]          # the same, current base version from every thread
                elif kind == "newer":
                    lines = ["set-safe k %d n%d_%d" % (rnd.choice([0, 0, 1, 5]), t, i) for i in range(2)]
                else:  # churn: even threads write, odd ones subscribe and unsubscribe
                    if t % 2 == 0:
                        lines = ["set k w%d_%d" % (t, i) for i in range(K)]
                    else:
                        lines = [x for i in range(K) for x in ("watch k", "watch j", "unwatch k", "unwatch-all")]
                threads.append(lines)
            cases.append({"id": "st_%s_%d" % (kind, variant), "kind": kind, "strategy": strategy, "setup": setup,
                          "threads": threads, "watch": ["k"], "rounds": rounds})
    return cases


LINE = re.compile(r"^(increment|set-safe|set|remove|watch|unwatch-all|unwatch)(?: (\S+))?(?: (.*))?$")


def op_of(item):
    line, r = item["line"], item["r"]
    m = LINE.match(line)
    o = {"op": "other", "n": 0, "v": "", "base": -1, "cls": r.get("cls", "?")}
    if not m or (m.group(2) not in (None, "k")):
        return o
    w, rest = m.group(1), (m.group(3) or "")
    if w == "increment":
        o.update(op="inc", n=int(rest or "1"))
    elif w == "set":
        o.update(op="set", v=rest)
    elif w == "set-safe":
        b, _, v = rest.partition(" ")
        o.update(op="cas", base=int(b), v=v)
    elif w == "remove":
        o.update(op="remove")
    return o


def normalize(raws, out_path):
    n = 0
    with open(out_path, "w") as g:
        for rf in raws:
            for line in open(rf):
                ev = json.loads(line)
                if ev["ev"] != "round":
                    continue
                kind = ev["kind"]
                rid = "%s#%d" % (ev["run"], ev["r"])
                ops = [op_of(it) for th in ev["threads"] for it in th]
                fin = ev["final"].get("k")
                changed, versioned = [], []
                for l in ev["obs"]:
                    l = l.rstrip("\n")
                    if l.startswith("changed k "):
                        changed.append(l[len("changed k "):])
                    elif l.startswith("changed-version k "):
                        ver, _, v = l[len("changed-version k "):].partition(" ")
                        versioned.append([int(ver), v])
                init = INIT[kind]
                g.write(json.dumps({"ev": "reset", "run": rid, "i": -1}) + "\n")
                g.write(json.dumps({"ev": "round", "run": rid, "i": 0, "kind": kind, "init": [init[0], init[1]],
                                    "init_int": int(init[0]) if init[0].lstrip("-").isdigit() else 0,
                                    "ops": ops, "final": [fin[0], fin[1], fin[2] != "Deleted"] if fin else ["-", -1, False],
                                    "changed": changed, "versioned": versioned if kind != "inc" else []}) + "\n")
                n += 1
    return n


def run_part(res, wd, devs, kinds, tier, seed):
    swd = os.path.join(wd, "stress")
    os.makedirs(swd, exist_ok=True)
    cases = cases_for(kinds, tier, seed)
    raws = common.run_cases_parallel("stress", cases, swd, procs=min(len(cases), 4))
    norm_path = os.path.join(swd, "norm.ndjson")
    rounds = normalize(raws, norm_path)
    out = common.validate_into(res, norm_path, "Trace_Stress.tla", "Trace_Stress.cfg", [], devs, "/dev/null", swd,
                               {c["id"]: c for c in cases})
    return {"free_running_rounds": rounds, "free_running_kinds": kinds,
            "free_running_rule": "2-4 real threads, each 1-6 commands on one key of one node, no scheduler and no hook involved, an "
                                 "observer watching the key; Trace_Stress judges every round by order-independent consequences of "
                                 "the property (sum of increments, one version per successful write, every value notified once, "
                                 "highest-versioned notification = the key, exactly one winner among equal base versions)",
            "free_running_events_validated": out["events"]}
