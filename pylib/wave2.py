"""Second wave: where the node's entries differ from the model's after a step, the histories generated from the
model (one per transition of the MODEL) do not cover what the node does from there; the drivers explore further from
those steps.  The difference itself is never a violation: it only directs the exploration."""
import json


def drifts(raws, by_id, db="d", prefix="m"):
    """Steps after which the node's entries (persistence state, version) are not what the model holds
    (`expect_mem` of the step: key -> [state, version]).  Returns {signature: (case id, step index, key)} with the
    shortest case per signature."""
    found = {}
    tag1, tag2 = '"run":"%s' % prefix, '"run": "%s' % prefix
    for rf in raws:
        for line in open(rf):
            if tag1 not in line and tag2 not in line:
                continue
            ev = json.loads(line)
            c = by_id.get(ev.get("run"))
            if c is None or "i" not in ev or ev.get("ev") == "reset":
                continue
            i = ev["i"]
            if i >= len(c["steps"]) or "expect_mem" not in c["steps"][i] or "dump" not in ev:
                continue
            real = ev["dump"].get(db, {}).get("keys", {})
            for k, (st, ver) in sorted(c["steps"][i]["expect_mem"].items()):
                r = real.get(k)
                got = ("Absent", 0) if r is None else (r[2], r[1])
                want = (st, ver) if st != "Absent" else ("Absent", 0)
                if got != want:
                    sig = (c["steps"][i].get("op", {}).get("op"), want, got)
                    old = found.get(sig)
                    if old is None or len(by_id[old[0]]["steps"]) > len(c["steps"]):
                        found[sig] = (c["id"], i, k)
                    break
    return found


def report(found):
    return [{"after": str(k[0]), "model": list(k[1]), "node": list(k[2]), "case": v[0]}
            for k, v in sorted(found.items(), key=lambda x: str(x))][:20]
