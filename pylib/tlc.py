"""Thin wrappers around TLC: model runs (with CASE extraction) and trace validation."""
import json
import os
import re
import shutil
import subprocess
import tempfile
import time
from concurrent.futures import ThreadPoolExecutor

VERIF = os.path.dirname(os.path.dirname(os.path.abspath(__file__)))
SPEC = os.path.join(VERIF, "spec")
WORK = os.path.join(VERIF, "work")

STATS_RE = re.compile(r"(\d+) states generated, (\d+) distinct states found")


class ToolError(Exception):
    pass


def run_tlc(module, cfg, env=None, workers=1, timeout=600, extra=(), metadir=None,
            java_opts="-Xss1g", heap="4g", stdout_path=None, cwd=None):
    """Runs TLC in /verif/spec. Returns (returncode, output text)."""
    metadir = metadir or tempfile.mkdtemp(prefix="tlc-", dir=_ensure(WORK + "/tlc"))
    e = dict(os.environ)
    e["JAVA_TOOL_OPTIONS"] = java_opts
    if env:
        e.update(env)
    e["JAVA_TOOL_OPTIONS"] = java_opts + " -Xmx" + heap
    cmd = ["timeout", str(timeout), "tlc", "-workers", str(workers), "-metadir", metadir,
           "-cleanup", "-noGenerateSpecTE", "-config", cfg] + list(extra) + [module]
    t0 = time.time()
    if stdout_path:
        with open(stdout_path, "w") as f:
            p = subprocess.run(cmd, cwd=cwd or SPEC, env=e, stdout=f, stderr=subprocess.STDOUT)
        out = open(stdout_path, errors="replace").read()
    else:
        p = subprocess.run(cmd, cwd=cwd or SPEC, env=e, stdout=subprocess.PIPE,
                           stderr=subprocess.STDOUT)
        out = p.stdout.decode(errors="replace")
    shutil.rmtree(metadir, ignore_errors=True)
    if p.returncode == 124:
        raise ToolError("TLC timed out after %ss on %s" % (timeout, module))
    return p.returncode, out, time.time() - t0


def _ensure(d):
    os.makedirs(d, exist_ok=True)
    return d


def stats(out):
    m = None
    for m in STATS_RE.finditer(out):
        pass
    if not m:
        return 0, 0
    return int(m.group(1)), int(m.group(2))


def extract_cases(out, tag="CASE"):
    """Lines printed by PrintT(<<"CASE", ToJson(x)>>): returns parsed JSON values."""
    cases = []
    pref = '<<"%s", "' % tag
    for line in out.splitlines():
        if line.startswith(pref) and line.endswith('">>'):
            body = line[len(pref):-3]
            # TLC prints the string with TLA+ escapes: \" and \\
            body = body.replace('\\"', '"').replace("\\\\", "\\")
            try:
                cases.append(json.loads(body))
            except ValueError:
                raise ToolError("cannot parse CASE line: %s" % line[:200])
    return cases


def coverage_counts(out):
    """-coverage 1 per-action counts: {action: (distinct, total)}."""
    res = {}
    for m in re.finditer(r"<(\w+) line \d+, col \d+ to line \d+, col \d+ of module (\w+)>: (\d+):(\d+)", out):
        res[m.group(1)] = (int(m.group(3)), int(m.group(4)))
    return res


# ---------------------------------------------------------------------------
# trace validation

def split_runs(norm_path):
    """List of runs; each run = list of raw json lines starting with a reset event."""
    runs = []
    with open(norm_path) as f:
        for line in f:
            if line.startswith('{"ev": "reset"') or '"ev": "reset"' in line[:40]:
                runs.append([])
            if not runs:
                runs.append([])
            runs[-1].append(line)
    return runs


def _validate_shard(args):
    module, cfg, shard_path, cfg_json, tables_json, timeout, extra_env = args
    env = {"TRACE": shard_path, "CFG": cfg_json, "TABLES": tables_json}
    env.update(extra_env or {})
    rc, out, secs = run_tlc(module, cfg, env=env, workers=1, timeout=timeout,
                            java_opts="-Xss1g -Dtlc2.tool.queue.IStateQueue=StateDeque",
                            heap="3g")
    used = []
    for m in re.finditer(r'<<"USED", "([^"]*)", \{([^}]*)\}>>', out):
        devs = [d.strip().strip('"') for d in m.group(2).split(",") if d.strip()]
        used.append((m.group(1), devs))
    follow = [(m.group(1), int(m.group(2)), int(m.group(3)), m.group(4) == "TRUE")
              for m in re.finditer(r'<<"FOLLOW", "([^"]*)", (\d+), (\d+), (TRUE|FALSE)>>', out)]
    acc = re.search(r'<<"ACCEPTED", (\d+)>>', out)
    rej = re.search(r'<<"REJECTED", (\d+), "([^"]*)", (-?\d+)>>', out)
    if acc:
        return {"ok": True, "used": used, "events": int(acc.group(1)), "out": "", "secs": secs,
                "states": stats(out), "follow": follow}
    if rej:
        return {"ok": False, "used": used, "at": int(rej.group(1)), "run": rej.group(2),
                "i": int(rej.group(3)), "out": out[-3000:], "secs": secs, "states": stats(out), "follow": follow}
    raise ToolError("trace validation produced no verdict (rc=%s):\n%s" % (rc, out[-4000:]))


def validate(norm_path, module, cfg, cfg_obj, tables_path, workdir, shards=16, timeout=900,
             max_failures=3, extra_env=None):
    """Validates every run of a normalized trace file.  Returns a dict:
    {runs, events, rejected: [{run, i, event, shard_file}], used: {dev: [runs]}}"""
    _ensure(workdir)
    runs = split_runs(norm_path)
    cfg_json = os.path.join(workdir, "cfg.json")
    with open(cfg_json, "w") as f:
        json.dump(cfg_obj, f)
    shards = max(1, min(shards, len(runs)))
    buckets = [[] for _ in range(shards)]
    # contiguous blocks keep shard sizes even
    for idx, r in enumerate(runs):
        buckets[idx % shards].append(r)
    rejected = []
    used = {}
    follow = {}
    total_events = 0
    total_states = 0
    pending = [(i, b) for i, b in enumerate(buckets) if b]
    rounds = 0
    while pending and rounds <= max_failures:
        rounds += 1
        jobs = []
        for i, b in pending:
            p = os.path.join(workdir, "shard-%d.ndjson" % i)
            with open(p, "w") as f:
                for r in b:
                    f.writelines(r)
            jobs.append((module, cfg, p, cfg_json, tables_path, timeout, extra_env))
        with ThreadPoolExecutor(max_workers=16) as ex:
            results = list(ex.map(_validate_shard, jobs))
        nxt = []
        for (i, b), res in zip(pending, results):
            total_states += res["states"][1]
            for f in res.get("follow", []):
                follow[f[0]] = f[1:]
            for run, devs in res["used"]:
                for d in devs:
                    used.setdefault(d, []).append(run)
            if res["ok"]:
                total_events += res["events"]
                continue
            # find the rejected run inside the shard, keep the rest for another round
            at = res["at"]
            pos = 0
            bad = None
            for j, r in enumerate(b):
                if pos + len(r) >= at:
                    bad = j
                    break
                pos += len(r)
            if bad is None:
                raise ToolError("rejected index outside shard")
            total_events += pos
            ev_line = b[bad][at - pos - 1] if 0 < at - pos <= len(b[bad]) else ""
            rejected.append({"run": res["run"], "i": res["i"], "event": ev_line.strip(),
                             "lines": b[bad], "tlc": res["out"]})
            rest = b[bad + 1:]
            if rest:
                nxt.append((i, rest))
        pending = nxt
    return {"runs": len(runs), "events": total_events, "rejected": rejected, "used": used,
            "states": total_states, "unchecked_shards": len(pending), "follow": follow}
