"""String tables for the TLA+ specs (TLC treats strings as atoms).

Everything here is an independent statement of the documented semantics of NunDB's
string-level rules (secure prefix, key patterns, integer values, permission lists); it
does not call into the code under test."""
import re

INT_RE = re.compile(r'^[+-]?[0-9]+$')
I32_MIN, I32_MAX = -2**31, 2**31 - 1


def int_of(v):
    """i32 value of a decimal string, or None."""
    if not INT_RE.match(v):
        return None
    n = int(v)
    if n < I32_MIN or n > I32_MAX:
        return None
    return n


def is_secure(k):
    return k.startswith("$$")


def matches(pattern, key):
    """keys <pattern>: 'x*' prefix, '*x' suffix, otherwise contains."""
    if pattern.endswith('*'):
        return key.startswith(pattern.replace('*', ''))
    if pattern.startswith('*'):
        return key.endswith(pattern.replace('*', ''))
    return pattern in key


def perm_value(perms):
    """perms: list of (kinds, [patterns]) -> the stored permission string."""
    return "|".join("%s %s" % (kinds, ",".join(pats)) for kinds, pats in perms)


def grants(perms, kind, key):
    return any(kind in kinds and any(matches(p, key) for p in pats) for kinds, pats in perms)


def build(keys, values, patterns, perm_lists, admin_user="admin", admin_pwd="adminpwd",
          extra_ints=range(-50, 200)):
    """keys: every key name that can appear in a store; values: every value string a
    command can write; perm_lists: list of structured permission lists."""
    keys = sorted(set(keys))
    vals = set(values) | {str(i) for i in extra_ints} | {"<Empty>", "{}"}
    intof = {v: int_of(v) for v in vals if int_of(v) is not None}
    canon = {v: (int_of(v) is not None and str(int_of(v)) == v) for v in vals}
    tab = {
        "admin_user": admin_user,
        "admin_pwd": admin_pwd,
        "keys": keys,
        "secure": [k for k in keys if is_secure(k)],
        "intof": intof,
        "canon": canon,
        "match": {p: [k for k in keys if matches(p, k)] for p in patterns},
        "grant": {perm_value(pl): {kind: [k for k in keys if grants(pl, kind, k)]
                                   for kind in "rwix"} for pl in perm_lists},
    }
    return tab


def to_tla_json(tab):
    """JSON shape the specs expect (sets as arrays are turned into sets in TLA+)."""
    return tab
