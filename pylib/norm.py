"""Raw harness trace (ndjson) -> events the trace specifications read.

Only re-shapes what was logged: parses pushed lines into records, separates replies
from notifications by their line prefix, replaces the snapshot queue by its growth.
Nothing is inferred about the state of the node."""
import json

NOTE_PREFIXES = ("changed ", "changed-version ", "removed ")


def parse_note(line):
    line = line.rstrip("\n")
    if line.startswith("changed-version "):
        rest = line[len("changed-version "):]
        k, ver, v = (rest.split(" ", 2) + ["", ""])[:3]
        try:
            ver = int(ver)
        except ValueError:
            ver = -99
        return {"t": "cv", "k": k, "ver": ver, "v": v}
    if line.startswith("changed "):
        rest = line[len("changed "):]
        k, v = (rest.split(" ", 1) + [""])[:2]
        return {"t": "changed", "k": k, "ver": -99, "v": v}
    if line.startswith("removed "):
        return {"t": "removed", "k": line[len("removed "):], "ver": -99, "v": ""}
    return None


def split_lines(lines):
    notes, replies = [], []
    for ln in lines:
        n = parse_note(ln) if ln.startswith(NOTE_PREFIXES) else None
        if n is not None:
            notes.append(n)
        else:
            replies.append(ln.rstrip("\n"))
    return notes, replies


def norm_dump(dump):
    out = {}
    for d, rec in dump.items():
        if d.startswith("#"):
            out["#bad"] = {"strategy": "poisoned", "id": -1, "conns": -1, "keys": {}}
            continue
        out[d] = {"strategy": rec["strategy"], "id": rec["id"], "conns": rec["conns"],
                  "keys": rec["keys"]}
    return out


OP_DEFAULTS = {"op": "garbage", "k": "", "v": "", "ver": -1, "n": 0, "d": "", "tok": "",
               "u": "-", "p": "", "names": [], "strategy": "none", "reclaim": False}


def norm_event(raw, prev_snapq_len):
    ev = raw["ev"]
    out = {"ev": ev, "run": raw.get("run", "?"), "i": raw.get("i", -1)}
    if ev == "reset":
        if "dump" in raw:
            out["dbs"] = norm_dump(raw["dump"])
        if "meta" in raw:
            out["meta"] = raw["meta"]
        return out, 0
    if ev in ("start_failed", "abandon"):
        return out, prev_snapq_len
    r = raw.get("r", {"cls": "ok"})
    out["cls"] = r.get("cls", "ok")
    out["c"] = raw.get("c", "-")
    op = dict(OP_DEFAULTS)
    op.update(raw.get("op", {}))
    out.update(op)
    out["line"] = raw.get("line", "")
    out["msg"] = r.get("msg", "")
    # replies
    out["rv"] = r.get("val", "") if out["cls"] == "value" else ""
    out["rver"] = r.get("ver", -99) if out["cls"] == "value" else -99
    out["setval"] = r.get("set_val", "-")
    inbox = raw.get("inbox", {})
    notes = {}
    own_replies = []
    for c, lines in inbox.items():
        n, rep = split_lines(lines)
        notes[c] = n
        if c == out["c"]:
            own_replies = rep
    out["notes"] = notes
    out["replies"] = own_replies
    # conflict notices (lines `resolve ...`) pushed to any session
    out["notices"] = {c: [ln.rstrip("\n") for ln in lines if ln.startswith("resolve ")]
                      for c, lines in inbox.items() if any(ln.startswith("resolve ") for ln in lines)}
    out["authline"] = "-"
    out["rkeys"] = []
    out["rsorted"] = True
    for rep in own_replies:
        if rep == "valid auth":
            out["authline"] = "valid"
        elif rep == "invalid auth":
            out["authline"] = "invalid"
        elif rep.startswith("keys "):
            ks = [k for k in rep[len("keys "):].split(",") if k != ""]
            out["rkeys"] = ks
            out["rsorted"] = all(ks[i] < ks[i + 1] for i in range(len(ks) - 1))
    side = raw.get("side", {})
    qlen = len(side.get("snapq", []))
    out["side"] = {"repl": len(side.get("repl", [])), "sup": len(side.get("sup", [])),
                   "snapq": qlen - prev_snapq_len if ev != "tick" else 0,
                   "pending": side.get("pending", 0), "role": side.get("role", "-")}
    out["repl_lines"] = side.get("repl", [])
    out["dbs"] = norm_dump(raw.get("dump", {}))
    # a PutObject *operation* failed: every SDK attempt of it was refused (a refused attempt that the
    # SDK retried successfully is invisible to the node)
    puts = [r for r in raw.get("extra", {}).get("requests", []) if r.get("m") == "PUT"]
    ops = {}
    for k, r in enumerate(puts):
        ops.setdefault(r.get("op", -k - 1), []).append(bool(r.get("failed")))
    out["putfail"] = any(all(v) for v in ops.values())
    out["putretried"] = any(any(v) and not all(v) for v in ops.values())
    return out, qlen


def normalize(raw_path, out_path):
    """Returns (number of events, number of runs)."""
    n = runs = 0
    q = 0
    with open(raw_path) as f, open(out_path, "w") as g:
        for line in f:
            if not line.strip():
                continue
            raw = json.loads(line)
            ev, q = norm_event(raw, q)
            if ev["ev"] == "reset":
                runs += 1
            g.write(json.dumps(ev) + "\n")
            n += 1
    return n, runs
