"""NunCluster scenarios: TLA+ module generation, TLC exploration, schedules for the simulator."""
import os
import shutil
from concurrent.futures import ThreadPoolExecutor

import cluster
import common
import render
import tlc

# TLC -simulate is seeded (VERIF_SEED): runs are reproducible
SIM_SEED = int(__import__("os").environ.get("VERIF_SEED", "1"))


def q(s):
    return '"%s"' % s


def tla_op(o):
    return '[node |-> %s, op |-> %s, k |-> %s, v |-> %s, ver |-> %d, n |-> %d]' % (
        q(o["node"]), q(o["op"]), q(o["k"]), q(o.get("v", "")), o.get("ver", -1), o.get("n", 0))


class Scenario:
    def __init__(self, sid, nodes, init, ops):
        """init: {key: (val, ver)}; ops: [{node, op, k, v, ver, n}]"""
        self.sid, self.nodes, self.init, self.ops = sid, nodes, init, ops

    def module(self, liveness=True, generate=True):
        name = "MC_Cluster_%s" % self.sid
        ops = ", ".join(tla_op(o) for o in self.ops)
        init = " @@ ".join("%s :> <<%s, %d>>" % (q(k), q(v[0]), v[1]) for k, v in sorted(self.init.items())) or "<<>>"
        mod = "---- MODULE %s ----\nEXTENDS NunCluster\nOpsDef == <<%s>>\nInitDef == %s\n====\n" % (name, ops, init)
        cfg = ("SPECIFICATION Spec\nCONSTANTS\n  Nodes = {%s}\n  P = %s\n  Ops <- OpsDef\n  InitStore <- InitDef\n  Strategy = \"none\"\n"
               "INVARIANTS ConvergedAtQuiescence NothingPendingAtQuiescence Budget %s\n%s"
               "CHECK_DEADLOCK FALSE\n") % (", ".join(q(n) for n in self.nodes), q(self.nodes[0]),
                                            "EmitSchedule" if generate else "\nVIEW View",
                                            "PROPERTY EventuallyQuiet\n" if liveness else "")
        return name, mod, cfg

    def sim_case(self, cid, schedule, seed=1):
        """the same scenario for the simulator: set-up, initial keys, then the explored commands"""
        nodes = self.nodes
        ops = cluster.setup_ops(nodes)
        for k, (val, ver) in sorted(self.init.items()):
            for i in range(ver + 1):
                ops.append(cluster.client_op(nodes[0], nodes, {"op": "set", "k": k, "v": val if i == ver else "old%d" % i}))
        start = len(ops)
        for o in self.ops:
            if o["op"] == "snapshot":
                ops.append(cluster.client_op(o["node"], nodes, {"op": "snapshot", "reclaim": False, "names": ["d"]}, c="a"))
                continue
            if o["op"] == "tick":
                ops.append({"node": o["node"], "tick": o["node"], "line": "<declutter %s>" % o["node"], "op": {"op": "tick"}})
                continue
            op = {"op": o["op"], "k": o["k"]}
            if o["op"] == "set":
                if o.get("ver", -1) == -1:
                    op["v"] = o["v"]
                else:
                    op = {"op": "set-safe", "k": o["k"], "v": o["v"], "ver": o["ver"]}
            if o["op"] == "increment":
                op["n"] = o["n"]
            ops.append(cluster.client_op(o["node"], nodes, op))
        return {"id": cid, "nodes": nodes, "pids": [100 + 10 * i for i in range(len(nodes))], "formation": "direct",
                "policy": "fifo", "seed": seed, "interleave": False, "ops": ops, "budget": 4000,
                "schedule": schedule, "schedule_from": start, "meta": {"scenario": self.sid}}


def explore(scenarios, wd, cap=None, rnd=None, simulate=None, timeout=900, generate=True):
    sdir = os.path.join(wd, "mc")
    os.makedirs(sdir, exist_ok=True)
    shutil.copy(os.path.join(tlc.SPEC, "NunCluster.tla"), sdir)
    jobs = []
    for sc in scenarios:
        name, mod, cfg = sc.module(liveness=simulate is None, generate=generate)
        open(os.path.join(sdir, name + ".tla"), "w").write(mod)
        open(os.path.join(sdir, name + ".cfg"), "w").write(cfg)
        jobs.append((sc, name))

    def one(job):
        sc, name = job
        extra = ["-simulate", "num=%d" % simulate, "-depth", "300", "-seed", str(SIM_SEED), "-aril", "0"] if simulate else []
        rc, out, secs = tlc.run_tlc(name + ".tla", name + ".cfg", workers=1, timeout=timeout, extra=extra,
                                    heap="3g", cwd=sdir)
        if "Error:" in out or ("No error has been found" not in out and not simulate):
            raise common.ToolError("NunCluster scenario %s:\n%s" % (sc.sid, out[-3000:]))
        scheds = sorted({tuple(s) for s in tlc.extract_cases(out)})
        if cap and len(scheds) > cap:
            scheds = rnd.sample(scheds, cap)
        return sc.sid, [list(s) for s in scheds], tlc.stats(out)
    with ThreadPoolExecutor(max_workers=8) as ex:
        res = list(ex.map(one, jobs))
    return {sid: s for sid, s, _ in res}, sum(st[0] for _, _, st in res), sum(st[1] for _, _, st in res)
