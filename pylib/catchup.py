"""Catch-up calls recorded by the cluster simulator -> Trace_CatchUp (NunCatchUp) -> per-run conformance."""
import json
import os
import re

import common
import tlc


def split_line(line):
    p = line.rstrip("\n").split(" ", 3)
    p += [""] * (4 - len(p))
    return {"cmd": p[0], "db": p[1], "key": p[2], "rest": p[3]}


def conv_store(dump):
    out = {}
    for d, rec in dump.items():
        if d.startswith("#"):
            continue
        out[d] = {"keys": {k: [v[0], v[1], v[2]] for k, v in rec["keys"].items() if not k.startswith("#")}}
    return out


def normalize(raw_files, out_path):
    """Returns (number of calls, {run: n_calls})."""
    n = 0
    per_run = {}
    with open(out_path, "w") as g:
        for rf in raw_files:
            for line in open(rf):
                if '"ev":"catchup"' not in line[:20]:
                    continue
                raw = json.loads(line)
                inp = raw["inputs"]
                n += 1
                per_run[raw["run"]] = per_run.get(raw["run"], 0) + 1
                g.write(json.dumps({"ev": "catchup", "run": raw["run"], "i": n, "since": raw["since"], "panic": raw["panic"],
                                    "node": raw["node"], "target": raw["target"], "member": raw.get("member", "sender"),
                                    "oplog": inp["oplog"], "idk": inp["idk"], "idd": inp["idd"],
                                    "store": conv_store(inp["store"]),
                                    "lines": [split_line(x) for x in raw["lines"]]}) + "\n")
    return n, per_run


def validate(norm_path, wd):
    """Returns ({run: [indices of non-conforming calls]}, checked)."""
    if os.path.getsize(norm_path) == 0:
        return {}, 0
    rc, out, secs = tlc.run_tlc("Trace_CatchUp.tla", "Trace_CatchUp.cfg", env={"TRACE": norm_path}, workers=1, timeout=1800,
                                java_opts="-Xss1g -Dtlc2.tool.queue.IStateQueue=StateDeque", heap="4g")
    m = re.search(r'<<"CHECKED", (\d+)>>', out)
    if not m:
        raise common.ToolError("Trace_CatchUp produced no verdict:\n" + out[-3000:])
    bad = {}
    for mm in re.finditer(r'<<"NONCONF", "([^"]*)", (\d+), (\d+)>>', out):
        bad.setdefault(mm.group(1), []).append(int(mm.group(2)))
    return bad, int(m.group(1))
