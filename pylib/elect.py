"""NunElect: scenario modules for TLC, schedules for the cluster simulator, and validation of simulator
traces against the model (Trace_Elect)."""
import json
import os
import shutil
from concurrent.futures import ThreadPoolExecutor

import common
import tlc

# TLC -simulate is seeded (VERIF_SEED): runs are reproducible
SIM_SEED = int(__import__("os").environ.get("VERIF_SEED", "1"))

TIMEOUT_MS = 10


def q(s):
    return '"%s"' % s


def model_ops(case):
    """the commands of a simulator case as NunElect sees them"""
    out = []
    for o in case["ops"]:
        if "kill" in o:
            out.append({"op": "kill", "node": o["kill"], "pid": 0})
        elif o.get("op", {}).get("op") == "force-election":
            out.append({"op": "force", "node": o["node"], "pid": 0})
        elif o.get("op", {}).get("op") == "auth":
            out.append({"op": "auth", "node": o["node"], "pid": 0})
        elif "restart" in o and not o.get("wipe"):
            out.append({"op": "restart", "node": o["restart"], "pid": int(o["pid"])})
        else:
            return None          # a command the model does not know
    return out


def config_of(case):
    ops = model_ops(case)
    if ops is None:
        return None
    inter = case.get("interleave", True)
    seqprefix = case.get("sequential_prefix", 0) if inter else len(ops)
    return {"nodes": case["nodes"], "pids": {n: p for n, p in zip(case["nodes"], case["pids"])}, "ops": ops,
            "seqprefix": seqprefix, "timeout": TIMEOUT_MS, "formation": case.get("formation", "direct")}


# ---------------------------------------------------------------------------
# simulator trace -> Trace_Elect events

def conv_state(st):
    links = {}
    for lk in st["links"]:
        key = "%s>%s" % (lk["from"], lk["to"])
        links[key] = {"open": lk["open"], "q": lk["q"], "rsp": [r for r in lk["rsp"] if r != "ok"],
                      "tag": lk["tag"], "busy": lk["busy"], "sess": lk["sess"]}
    nodes = {}
    for n, v in st["nodes"].items():
        nodes[n] = {"alive": v["alive"], "role": v["role"], "supdead": v["supdead"], "mem": v["mem"],
                    "pend": v["pend"], "replq": v["replq"], "supq": v["supq"]}
    return {"nodes": nodes, "links": links, "parked": st["parked"]}


def parse_label(label):
    kind, _, arg = label.partition(":")
    if kind in ("sup", "repl", "init"):
        return {"kind": kind, "a": arg, "b": "", "i": -1}
    if kind in ("deliver", "reply"):
        x, _, y = arg.partition(">")
        return {"kind": kind, "a": x, "b": y, "i": -1}
    if kind == "tick":
        return {"kind": "tick", "a": arg, "b": "", "i": -1}
    if kind == "client":
        return {"kind": "client", "a": "", "b": "", "i": int(arg)}
    return {"kind": kind, "a": arg, "b": "", "i": -1}


def normalize(raw_files, out_dir, cases_by_id):
    """One normalized file per configuration (the constants of the model).
    Returns [(config, path, n_events, run_ids)]."""
    groups = {}
    for rf in raw_files:
        cur = None
        pending_join = None
        for line in open(rf):
            raw = json.loads(line)
            ev = raw["ev"]
            if ev == "reset":
                case = cases_by_id[raw["run"]]
                cfg = config_of(case)
                key = json.dumps(cfg, sort_keys=True)
                cur = groups.setdefault(key, {"cfg": cfg, "events": [], "runs": []}) if cfg else None
                pending_join = None
                if cur is not None:
                    cur["runs"].append(raw["run"])
                    cur["events"].append({"ev": "reset", "run": raw["run"]})
                continue
            if cur is None:
                continue
            if ev == "tool_error":
                raise common.ToolError("cluster simulator: run %s: %s" % (raw["run"], raw.get("msg", "")))
            if ev == "st":
                if raw["step"].startswith("join:"):
                    pending_join = raw
                    continue
                if pending_join is not None:
                    cur["events"].append({"ev": "joined", "run": raw["run"], "st": conv_state(pending_join["st"])})
                    pending_join = None
                o = {"ev": "st", "run": raw["run"], "st": conv_state(raw["st"])}
                o.update(parse_label(raw["step"]))
                cur["events"].append(o)
            elif ev == "formed":
                if pending_join is not None:
                    cur["events"].append({"ev": "joined", "run": raw["run"], "st": conv_state(pending_join["st"])})
                    pending_join = None
                cur["events"].append({"ev": "formed", "run": raw["run"], "quiet": raw["quiet"]})
                cur["events"].append({"ev": "formed_outcome", "run": raw["run"]})
            elif ev in ("quiesce", "end"):
                cur["events"].append({"ev": ev, "run": raw["run"], "quiet": raw["quiet"]})
    out = []
    os.makedirs(out_dir, exist_ok=True)
    for i, (key, g) in enumerate(sorted(groups.items())):
        p = os.path.join(out_dir, "elect-%d.ndjson" % i)
        with open(p, "w") as f:
            for e in g["events"]:
                f.write(json.dumps(e) + "\n")
        out.append((g["cfg"], p, len(g["events"]), g["runs"]))
    return out


def validate(groups, devs, wd, workers=8):
    """Validates every group against Trace_Elect.  Returns {accepted: set(run), rejected: {run: info}, used, events}."""
    accepted, rejected, used = set(), {}, {}
    events = states = 0

    def one(item):
        i, (cfg, path, n, runs) = item
        cfg_obj = dict(cfg)
        cfg_obj["devs"] = devs
        sub = os.path.join(wd, "tv-%d" % i)
        try:
            return runs, tlc.validate(path, "Trace_Elect.tla", "Trace_Elect.cfg", cfg_obj, "/dev/null", sub, shards=2,
                                      max_failures=len(runs) + 1, timeout=600)
        except tlc.ToolError:
            # following the model did not come to an end on some run of the group (a changed implementation can make
            # the search for the model's step blow up): every run is tried on its own, and one that still does not finish
            # is a run that does not follow the model -- it is then judged by the reference monitor with no recorded
            # finding enabled, like every run that leaves the model
            out = {"events": 0, "states": 0, "rejected": [], "used": {}}
            for j, lines in enumerate(tlc.split_runs(path)):
                one_path = os.path.join(sub, "single-%d.ndjson" % j)
                os.makedirs(sub, exist_ok=True)
                open(one_path, "w").writelines(lines)
                try:
                    o = tlc.validate(one_path, "Trace_Elect.tla", "Trace_Elect.cfg", cfg_obj, "/dev/null",
                                     os.path.join(sub, "single-%d" % j), shards=1, max_failures=2, timeout=300)
                    out["events"] += o["events"]
                    out["states"] += o["states"]
                    out["rejected"] += o["rejected"]
                    for d, rs in o["used"].items():
                        out["used"].setdefault(d, []).extend(rs)
                except tlc.ToolError as e:
                    rid = json.loads(lines[0]).get("run", "?") if lines else "?"
                    out["rejected"].append({"run": rid, "i": -1, "event": "", "lines": lines,
                                            "tlc": "following NunElect did not finish: " + str(e)[:300]})
            return runs, out
    with ThreadPoolExecutor(max_workers=workers) as ex:
        results = list(ex.map(one, enumerate(groups)))
    for runs, out in results:
        events += out["events"]
        states += out["states"]
        bad = {r["run"]: r for r in out["rejected"]}
        for r in runs:
            if r in bad:
                rejected[r] = bad[r]
            else:
                accepted.add(r)
        for d, rs in out["used"].items():
            used.setdefault(d, []).extend(rs)
    for i in range(len(groups)):
        shutil.rmtree(os.path.join(wd, "tv-%d" % i), ignore_errors=True)
    return {"accepted": accepted, "rejected": rejected, "used": used, "events": events, "states": states}


# ---------------------------------------------------------------------------
# TLC on NunElect: scenario modules, exploration, schedules

class Scenario:
    def __init__(self, sid, nodes, pids, ops, formation="direct", seqprefix=None, form_sched=None):
        """ops: [{"op": "auth"|"force"|"kill", "node": n}]; form_sched: the formation steps to follow (or None)"""
        self.sid, self.nodes, self.pids, self.ops, self.formation = sid, nodes, pids, ops, formation
        self.form_sched = form_sched or []
        self.seqprefix = len(ops) if seqprefix is None else seqprefix

    def module(self, simulate=False, liveness=True):
        name = "MC_Elect_%s" % self.sid
        ops = ", ".join('[op |-> %s, node |-> %s, pid |-> %d]' % (q(o["op"]), q(o["node"]), o.get("pid", 0)) for o in self.ops)
        pid = " @@ ".join("(%s :> %d)" % (q(n), p) for n, p in zip(self.nodes, self.pids))
        mod = ("---- MODULE %s ----\nEXTENDS NunElect, Json\nNodeSeqDef == <<%s>>\nPidDef == %s\nOpsDef == <<%s>>\n"
               "FormSchedDef == <<%s>>\n"
               "EmitDone == AllDone => PrintT(<<\"CASE\", ToJson([mode |-> Mode, sched |-> sched])>>)\n====\n"
               % (name, ", ".join(q(n) for n in self.nodes), pid, ops, ", ".join(q(x) for x in self.form_sched)))
        # exhaustive runs: the bound on live operation ids must not be reached (it would hide behaviour);
        # random walks: a walk that piles up more than 400 live ids is abandoned
        cfg = ("SPECIFICATION Spec\nCONSTANTS\n  Nodes = {%s}\n  NodeSeq <- NodeSeqDef\n  Pid <- PidDef\n  Timeout = %d\n"
               "  Ops <- OpsDef\n  SeqPrefix = %d\n  MaxClock = %d\n  Formation = %s\n  FormSched <- FormSchedDef\n"
               "INVARIANTS NeverTwoPrimaries NobodyStartingUp GoodOrKnown NoRelink SupervisorAlive %s EmitDone\n"
               "CONSTRAINT Bounded\nACTION_CONSTRAINT FormFollows\nVIEW StateView\nCHECK_DEADLOCK FALSE\n%s"
               % (", ".join(q(n) for n in self.nodes), TIMEOUT_MS, self.seqprefix, 400 if simulate else 60,
                  q(self.formation), "" if simulate else "BoundNotReached",
                  "PROPERTY Terminates\n" if liveness and not simulate else ""))
        return name, mod, cfg

    def sim_case(self, cid, sched, seed=1):
        def line(o):
            if o["op"] == "kill":
                return {"node": o["node"], "kill": o["node"], "line": "<kill %s>" % o["node"], "op": {"op": "kill"}}
            if o["op"] == "restart":
                return {"node": o["node"], "restart": o["node"], "pid": o["pid"], "wipe": False,
                        "line": "<restart %s>" % o["node"], "op": {"op": "restart"}}
            if o["op"] == "force":
                return {"node": o["node"], "c": "adm", "line": "debug force-election", "op": {"op": "force-election"}}
            return {"node": o["node"], "c": "adm", "line": "auth admin adminpwd", "op": {"op": "auth"}}
        k = sched.index("formed") if "formed" in sched else len(sched)
        c = {"id": cid, "nodes": self.nodes, "pids": self.pids, "formation": self.formation, "formation_policy": "fifo",
             "policy": "fifo", "seed": seed, "interleave": self.seqprefix < len(self.ops), "ops": [line(o) for o in self.ops],
             "budget": 6000, "trace_state": True, "form_schedule": sched[:k], "schedule": sched[k + 1:],
             "meta": {"scenario": self.sid, "pids": self.pids}}
        if self.seqprefix < len(self.ops):
            c["sequential_prefix"] = self.seqprefix
        return c


def explore(scenarios, wd, simulate=None, timeout=1500, workers=4, tlc_workers=4, depth=600):
    """Runs TLC on every scenario.  Returns {sid: {"cases": [{mode, sched}], "generated", "distinct", "out"}}."""
    sdir = os.path.join(wd, "mc")
    os.makedirs(sdir, exist_ok=True)
    shutil.copy(os.path.join(tlc.SPEC, "NunElect.tla"), sdir)
    jobs = []
    for sc in scenarios:
        name, mod, cfg = sc.module(simulate=simulate is not None)
        open(os.path.join(sdir, name + ".tla"), "w").write(mod)
        open(os.path.join(sdir, name + ".cfg"), "w").write(cfg)
        jobs.append((sc, name))

    def one(job):
        sc, name = job
        extra = ["-simulate", "num=%d" % simulate, "-depth", str(depth), "-seed", str(SIM_SEED), "-aril", "0"] if simulate else []
        rc, out, secs = tlc.run_tlc(name + ".tla", name + ".cfg", workers=1 if simulate else tlc_workers, timeout=timeout,
                                    extra=extra, heap="6g", cwd=sdir)
        if "Error:" in out or ("No error has been found" not in out and not simulate):
            raise common.ToolError("NunElect scenario %s:\n%s" % (sc.sid, out[-3000:]))
        cases = tlc.extract_cases(out)
        seen, uniq = set(), []
        for c in cases:
            t = tuple(c["sched"])
            if t not in seen:
                seen.add(t)
                uniq.append(c)
        gen, distinct = tlc.stats(out)
        return sc.sid, {"cases": uniq, "generated": gen, "distinct": distinct, "secs": secs}
    with ThreadPoolExecutor(max_workers=workers) as ex:
        return dict(ex.map(one, jobs))


def formation_schedule(nodes, pids, formation, wd, policy="fifo", seed=1):
    """The order of steps in which the simulator forms this cluster (FIFO policy), as model step labels."""
    case = {"id": "form", "nodes": nodes, "pids": pids, "formation": formation, "formation_policy": policy, "policy": policy,
            "seed": seed, "interleave": False, "ops": [], "budget": 6000, "trace_state": True}
    sub = os.path.join(wd, "form-%s-%s-%s-%d" % ("".join(nodes), "_".join(map(str, pids)), formation, seed))
    os.makedirs(sub, exist_ok=True)
    raws = common.run_cases_parallel("cluster", [case], sub, procs=1, timeout=600, env={"NUN_ELECTION_TIMEOUT": str(TIMEOUT_MS)})
    sched = []
    for rf in raws:
        for line in open(rf):
            raw = json.loads(line)
            if raw["ev"] == "st" and not raw["step"].startswith("join:"):
                sched.append(raw["step"])
            if raw["ev"] == "formed":
                if not raw["quiet"]:
                    raise common.ToolError("formation of %s %s did not go quiet" % (nodes, pids))
                shutil.rmtree(sub, ignore_errors=True)
                return sched + ["formed"]
    raise common.ToolError("no formed event")
