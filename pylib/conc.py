"""Concurrent scenarios: TLA+ module generation for NunKVConc, harness cases, trace
normalisation for Trace_KVLin."""
import json
import os
import random
import shutil
from concurrent.futures import ThreadPoolExecutor

import common
import norm
import render
import tlc

# TLC -simulate is seeded (VERIF_SEED): runs are reproducible
SIM_SEED = int(__import__("os").environ.get("VERIF_SEED", "1"))

KEYS = ["k", "j"]


def tla_str(s):
    return '"%s"' % s.replace("\\", "\\\\").replace('"', '\\"')


def tla_op(o):
    return '[op |-> %s, k |-> %s, v |-> %s, ver |-> %d, n |-> %d]' % (
        tla_str(o["op"]), tla_str(o.get("k", "")), tla_str(o.get("v", "")), o.get("ver", -1), o.get("n", 0))


def tla_entry(e):
    if e is None:
        return '[st |-> "Absent", val |-> "", ver |-> 0, oid |-> 0]'
    return '[st |-> %s, val |-> %s, ver |-> %d, oid |-> %d]' % (
        tla_str(e["st"]), tla_str(e["val"]), e["ver"], e.get("oid", 1))


class Scenario:
    """init: {key: None | {st,val,ver}}; watchers: {key: [tasks]}; progs: {task: [ops]}"""

    def __init__(self, sid, init, watchers, progs, strategy="none"):
        self.sid, self.init, self.watchers, self.progs, self.strategy = sid, init, watchers, progs, strategy

    def keys(self):
        ks = set(self.init) | set(self.watchers)
        for ops in self.progs.values():
            for o in ops:
                if o.get("k"):
                    ks.add(o["k"])
        return sorted(ks)

    def module(self, atomic):
        ks = self.keys()
        tasks = sorted(self.progs)
        name = "MC_Conc_%s" % self.sid
        progs = " @@ ".join("%s :> <<%s>>" % (tla_str(t), ", ".join(tla_op(o) for o in self.progs[t]))
                            for t in tasks)
        initm = " @@ ".join("%s :> %s" % (tla_str(k), tla_entry(self.init.get(k))) for k in ks)
        initw = " @@ ".join("%s :> <<%s>>" % (tla_str(k), ", ".join(tla_str(t) for t in self.watchers.get(k, [])))
                            for k in ks)
        mod = "---- MODULE %s ----\nEXTENDS NunKVConc\nProgsDef == %s\nInitMemDef == %s\nInitWatDef == %s\n====\n" % (
            name, progs, initm, initw)
        cfg = ("SPECIFICATION Spec\nCONSTANTS\n  Tasks = {%s}\n  Keys = {%s}\n  Progs <- ProgsDef\n"
               "  InitMem <- InitMemDef\n  InitWat <- InitWatDef\n  Strategy = %s\n"
               "  AtomicSet = %s\n  AtomicRemove = %s\n  AtomicUnwatch = %s\n"
               "INVARIANT EmitSchedule\nCHECK_DEADLOCK FALSE\n") % (
            ", ".join(tla_str(t) for t in tasks), ", ".join(tla_str(k) for k in ks), tla_str(self.strategy),
            *[("TRUE" if atomic.get(x) else "FALSE") for x in ("set", "remove", "unwatch")])
        return name, mod, cfg

    def prefix(self):
        """Harness set-up: sessions for all tasks, initial entries, initial watchers."""
        tasks = sorted(set(self.progs) | {t for ts in self.watchers.values() for t in ts})
        st = [{"c": "a", "line": "auth admin adminpwd"},
              {"c": "a", "line": "create-db d tok %s" % self.strategy},
              {"c": "a", "line": "use-db d tok"}]
        for t in tasks:
            st.append({"c": t, "line": "use-db d tok"})
        need_snap = False
        for k, e in sorted(self.init.items()):
            if e is None:
                continue
            # reach (value, version): plain sets raise the version from 0
            for i in range(e["ver"] + 1):
                st.append({"c": "a", "line": "set %s %s" % (k, e["val"] if i == e["ver"] else "old%d" % i)})
            if e["st"] in ("Ok",):
                need_snap = True
        if need_snap:
            st.append({"c": "a", "line": "snapshot false"})
            st.append({"tick": 1})
        for k, ts in sorted(self.watchers.items()):
            for t in ts:
                st.append({"c": t, "line": "watch %s" % k})
        return st

    def case(self, cid, schedule, policy="rr", seed=1):
        tasks = {}
        for t, ops in self.progs.items():
            tasks[t] = []
            for o in ops:
                if o["op"] == "close":
                    tasks[t].append({"close": 1, "op": o})
                else:
                    tasks[t].append({"line": render.line_of(o), "op": o})
        return {"id": cid, "prefix": self.prefix(), "tasks": tasks, "schedule": schedule,
                "policy": policy, "seed": seed,
                "meta": {"strategy": self.strategy, "scenario": self.sid,
                         "initwat": [[t, k] for k, ts in sorted(self.watchers.items()) for t in ts]}}


def schedules_for(scenarios, wd, atomic, simulate=None, per_scenario_cap=None, rnd=None, timeout=600):
    """Runs TLC on every scenario module; returns {sid: [schedules]}, total (generated, distinct)."""
    sdir = os.path.join(wd, "mc")
    os.makedirs(sdir, exist_ok=True)
    shutil.copy(os.path.join(tlc.SPEC, "NunKVConc.tla"), sdir)
    jobs = []
    for sc in scenarios:
        name, mod, cfg = sc.module(atomic)
        open(os.path.join(sdir, name + ".tla"), "w").write(mod)
        open(os.path.join(sdir, name + ".cfg"), "w").write(cfg)
        jobs.append((sc, name))

    def one(job):
        sc, name = job
        extra = []
        if simulate:
            extra = ["-simulate", "num=%d" % simulate, "-depth", "400", "-seed", str(SIM_SEED), "-aril", "0"]
        rc, out, secs = tlc.run_tlc(name + ".tla", name + ".cfg", workers=1, timeout=timeout, extra=extra,
                                    heap="2g", cwd=sdir)
        if "Error:" in out and "EmitSchedule" not in out:
            raise common.ToolError("NunKVConc scenario %s failed:\n%s" % (sc.sid, out[-2500:]))
        scheds = tlc.extract_cases(out)
        return sc.sid, scheds, tlc.stats(out)
    with ThreadPoolExecutor(max_workers=12) as ex:
        results = list(ex.map(one, jobs))
    out = {}
    gen = dist = 0
    for sid, scheds, st in results:
        # distinct schedules only
        uniq = sorted({tuple(s) for s in scheds})
        if per_scenario_cap and len(uniq) > per_scenario_cap:
            uniq = rnd.sample(uniq, per_scenario_cap)
        out[sid] = [list(s) for s in uniq]
        gen += st[0]
        dist += st[1]
    return out, gen, dist


def normalize(raw_files, out_path, db="d"):
    """conc raw trace -> Trace_KVLin events."""
    n = runs = 0

    def proj(dump):
        keys = dump.get(db, {}).get("keys", {})
        return {k: [v[0], v[1], v[2] != "Deleted"] for k, v in keys.items() if not k.startswith("$")}
    with open(out_path, "w") as g:
        for rf in raw_files:
            for line in open(rf):
                raw = json.loads(line)
                ev = raw["ev"]
                if ev == "switch":
                    continue
                o = {"ev": ev, "run": raw["run"]}
                if ev == "reset":
                    runs += 1
                    o["store"] = proj(raw["dump"])
                    o["strategy"] = raw.get("meta", {}).get("strategy", "none")
                    o["initwat"] = raw.get("meta", {}).get("initwat", [])
                elif ev == "call":
                    op = dict(norm.OP_DEFAULTS)
                    op.update(raw.get("op", {}))
                    o.update({"t": raw["t"], "op": op["op"], "k": op["k"], "v": op["v"], "ver": op["ver"],
                              "n": op["n"], "line": raw.get("line", "")})
                elif ev == "seg":
                    o.update({"t": raw["t"], "site": raw["site"], "store": proj(raw["dump"])})
                elif ev == "ret":
                    r = raw["r"]
                    o.update({"t": raw["t"], "cls": r["cls"], "rv": r.get("val", ""),
                              "rver": r.get("ver", -99), "setval": r.get("set_val", "-"),
                              "msg": r.get("msg", "")})
                elif ev == "end":
                    inbox = {}
                    for c, lines in raw["inbox"].items():
                        notes, _ = norm.split_lines(lines)
                        inbox[c] = notes
                    o.update({"inbox": inbox, "store": proj(raw["dump"]), "drift": raw.get("drift", 0)})
                g.write(json.dumps(o) + "\n")
                n += 1
    return n, runs
