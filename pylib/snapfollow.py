"""Completed snapshot runs recorded by the sequential runner -> Trace_Snap (NunDiskBytes) -> conformance counts."""
import json
import os
import re
from concurrent.futures import ThreadPoolExecutor

import common
import tlc


def normalize(raw_files, out_dir, shards=12):
    os.makedirs(out_dir, exist_ok=True)
    outs = [open(os.path.join(out_dir, "snap-%d.ndjson" % i), "w") for i in range(shards)]
    n = 0
    for rf in raw_files:
        for line in open(rf):
            if '"pre"' not in line or '"post"' not in line:
                continue
            raw = json.loads(line)
            if raw.get("ev") != "tick" or raw.get("r", {}).get("cls") != "ok":
                continue
            for sn in raw["pre"]["snaps"]:
                if sn.get("missing") or sn.get("repeated") or sn["db"] not in raw["post"]:
                    continue
                n += 1
                rec = {"ev": "snap", "run": raw["run"], "i": n, "db": sn["db"],
                       "pre": {k: sn[k] for k in ("files", "ents", "reclaim", "id", "strategy")},
                       "post": raw["post"][sn["db"]]}
                outs[n % shards].write(json.dumps(rec) + "\n")
    for f in outs:
        f.close()
    return n, [f.name for f in outs if os.path.getsize(f.name) > 0]


def validate(paths):
    def one(p):
        rc, out, secs = tlc.run_tlc("Trace_Snap.tla", "Trace_Snap.cfg", env={"TRACE": p}, workers=1, timeout=1800,
                                    java_opts="-Xss1g -Dtlc2.tool.queue.IStateQueue=StateDeque", heap="3g")
        m = re.search(r'<<"CHECKED", (\d+)>>', out)
        if not m:
            raise common.ToolError("Trace_Snap produced no verdict:\n" + out[-3000:])
        bad = [(mm.group(1), int(mm.group(2))) for mm in re.finditer(r'<<"NONCONF", "([^"]*)", (\d+)>>', out)]
        return int(m.group(1)), bad
    checked, bad = 0, []
    with ThreadPoolExecutor(max_workers=12) as ex:
        for c, b in ex.map(one, paths):
            checked += c
            bad += b
    return checked, bad
