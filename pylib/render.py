"""Structured command -> command line (what a client would type)."""


def line_of(op):
    o = op["op"]
    if "line" in op:
        return op["line"]
    if o == "auth":
        return "auth %s %s" % (op["u"], op["tok"])
    if o == "use-db":
        if op.get("u", "-") != "-":
            return "use-db %s %s %s" % (op["d"], op["u"], op["tok"])
        return "use-db %s %s" % (op["d"], op["tok"])
    if o == "create-db":
        s = op.get("strategy", "none")
        if op.get("explicit_strategy", s != "none"):
            return "create-db %s %s %s" % (op["d"], op["tok"], s)
        return "create-db %s %s" % (op["d"], op["tok"])
    if o == "create-user":
        return "create-user %s %s" % (op["u"], op["v"])
    if o == "set-permissions":
        return "set-permissions %s %s" % (op["u"], op["v"])
    if o == "set":
        return "set %s %s" % (op["k"], op["v"])
    if o == "set-safe":
        return "set-safe %s %d %s" % (op["k"], op["ver"], op["v"])
    if o in ("get", "get-safe", "remove", "watch", "unwatch"):
        return "%s %s" % (o, op["k"])
    if o == "increment":
        return "increment %s %d" % (op["k"], op["n"])
    if o == "keys":
        return "keys %s" % op["p"]
    if o == "unwatch-all":
        return "unwatch-all"
    if o == "snapshot":
        names = "|".join(op.get("names", []))
        r = "true" if op.get("reclaim") else "false"
        return ("snapshot %s %s" % (r, names)).rstrip()
    if o in ("cluster-state", "metrics-state", "list-commands", "arbiter"):
        return o
    if o == "debug":
        return "debug %s" % op.get("v", "list-dbs")
    if o == "replicate":
        return "replicate %s %s %d %s" % (op.get("d", "d"), op["k"], op.get("ver", -1), op["v"])
    if o == "resolve":
        return "resolve %d %s %s %d %s" % (op.get("opid", 77), op["d"], op["k"], op["ver"], op["v"])
    if "line" in op:
        return op["line"]
    raise ValueError("cannot render %r" % (op,))


def step(c, op):
    return {"c": c, "op": op, "line": line_of(op)}


ADMIN = ("admin", "adminpwd")


def prefix_single_db(db="d", tok="tok", strategy="none", clients=("c1",), admin="a",
                     admin_selects=True):
    """auth + create-db + use-db for the administrator session and the plain sessions."""
    st = [step(admin, {"op": "auth", "u": ADMIN[0], "tok": ADMIN[1]}),
          step(admin, {"op": "create-db", "d": db, "tok": tok, "strategy": strategy})]
    if admin_selects:
        st.append(step(admin, {"op": "use-db", "d": db, "tok": tok}))
    for c in clients:
        st.append(step(c, {"op": "use-db", "d": db, "tok": tok}))
    return st


def steps_of_hist(hist):
    """TLC history (list of records with c/op/...) -> harness steps."""
    out = []
    for h in hist:
        if h["op"] == "tick":
            out.append({"tick": 1, "op": {"op": "tick"}})
        elif h["op"] == "close":
            out.append({"close": h["c"], "how": h.get("how", "clean"), "op": {"op": "close"}})
        elif h["op"] == "restart":
            out.append({"restart": 1, "op": {"op": "restart"}})
        else:
            op = {k: v for k, v in h.items() if k != "c"}
            out.append(step(h["c"], op))
    return out
