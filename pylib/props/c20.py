"""C20 -- HTTP replies line up, entry by entry, with the commands that caused them."""
import json
import os
import random

import common
import tlc

PROP = "C20"

LINES = {
    "auth_ok": "auth admin adminpwd", "auth_bad": "auth admin nope",
    "use_ok": "use-db {db} tok", "use_bad": "use-db {db} bad", "use_user": "use-db {db} u1 ut",
    "get": "get a1", "get_other": "get zz", "get_safe": "get-safe a1",
    "set": "set a1 neu", "setsafe_ok": "set-safe a1 9 s9", "setsafe_stale": "set-safe a1 0 s0",
    "remove": "remove a1", "inc_ok": "increment n1 2", "inc_nan": "increment s1 1",
    "keys": "keys a", "create_new": "create-db {db}x t2", "create_dup": "create-db {db} t2",
    "get_secure": "get $$s", "watch": "watch a1",
}

PREFIX = ["auth admin adminpwd", "create-db {db} tok", "use-db {db} tok", "create-user u1 ut",
          "set-permissions u1 r a*", "set a1 v0", "set a1 v1", "set n1 5", "set s1 word",
          "set $$s sec", "set zz other"]


def body_of(cmds, variant):
    lines = [LINES[c] for c in cmds]
    if variant == 0:
        return ";".join(lines)
    if variant == 1:
        return ";".join(lines) + ";"
    if variant == 2:
        return " ; ".join(lines) + " ;  ; "
    return ";;".join(lines)


def make_case(cid, bodies):
    return {"id": cid, "steps": [{"c": "a", "line": l} for l in PREFIX],
            "bodies": [{"body": body_of(cmds, v), "cmds": [{"line": LINES[c], "op": c} for c in cmds]}
                       for cmds, v in bodies]}


def normalize(raw_files, out_path):
    n = runs = 0
    with open(out_path, "w") as g:
        for rf in raw_files:
            for line in open(rf):
                raw = json.loads(line)
                if raw["ev"] == "reset":
                    runs += 1
                    g.write(json.dumps({"ev": "reset", "run": raw["run"], "i": -1}) + "\n")
                    n += 1
                    continue
                resp = raw["resp"]
                entries = resp.split(";") if resp != "" else []
                twin = []
                for t in raw["twin"]:
                    cls = t["r"]["cls"]
                    twin.append({"cls": "ok" if cls in ("ok", "value") else cls,
                                 "msg": t["r"].get("msg", ""), "lines": t["lines"], "op": t["op"]})
                dh, dt = raw.get("dumpH", {}), raw.get("dumpT", {})
                ev = {"ev": raw["ev"], "run": raw["run"], "i": raw["i"], "alive": raw["alive"],
                      "body": raw["body"], "entries": entries, "twin": twin, "frames": raw.get("frames", []),
                      "keysH": dh.get("keys", {}), "keysT": dt.get("keys", {}),
                      "connsH": dh.get("conns", -1), "connsT": dt.get("conns", -2),
                      "watchersH": sum(dh.get("watchers", {}).values())}
                g.write(json.dumps(ev) + "\n")
                n += 1
    return n, runs


def run(tier, seed):
    res = common.Result(PROP, tier, seed, "model_checking")
    wd = common.workdir(PROP)
    devs, known = common.load_findings(PROP)
    cfg = "MC_Http.cfg" if tier == "quick" else "MC_Http_thorough.cfg"
    rc, out, secs = tlc.run_tlc("MC_Http.tla", cfg, workers=1, timeout=900,
                                extra=["-coverage", "1"], stdout_path=os.path.join(wd, "mc_http.out"))
    if "No error has been found" not in out:
        raise common.ToolError("MC_Http did not complete cleanly:\n" + out[-3000:])
    gen, distinct = tlc.stats(out)
    hists = tlc.extract_cases(out)
    rnd = random.Random(seed)
    cases = []
    for i, h in enumerate(hists):
        cases.append(make_case("m%d" % i, [(h, i % 4)]))
    names = sorted(LINES)
    for i in range(300 if tier == "quick" else 6000):
        bodies = []
        for _ in range(rnd.randint(1, 3)):   # several requests against the same database
            cmds = [rnd.choice(names) for _ in range(rnd.randint(1, 6))]
            if "use_user" in cmds:
                cmds = [c for c in cmds if c != "use_ok"] or ["get"]
            bodies.append((cmds, rnd.randint(0, 3)))
        cases.append(make_case("r%d" % i, bodies))
    # the same command lists as one WebSocket text frame each (no blank statements: the WebSocket server
    # does not skip them): the replies come back as a stream of frames
    n_http = len(cases)
    ws_src = cases if tier != "quick" else rnd.sample(cases[:len(hists)], min(len(hists), 400)) + cases[len(hists):len(hists) + 60]
    for c in ws_src:
        w = {"id": "ws_" + c["id"], "steps": c["steps"], "transport": "ws",
             "bodies": [{"body": ";".join(x["line"] for x in b["cmds"]), "cmds": b["cmds"]} for b in c["bodies"]]}
        cases.append(w)
    by_id = {c["id"]: c for c in cases}
    raws = common.run_cases_parallel("http", cases, wd, procs=8)
    norm_path = os.path.join(wd, "norm.ndjson")
    events, runs = normalize(raws, norm_path)
    outv = common.validate_into(res, norm_path, "Trace_Http.tla", "Trace_Http.cfg", [], devs,
                                "/dev/null", wd, by_id)
    res.coverage.update({
        "states": distinct, "transitions": gen, "model": "MC_Http.tla/" + cfg,
        "traces_validated_against_impl": outv["runs"], "events_validated": outv["events"],
        "model_generated_cases": len(hists), "random_cases": len(cases) - len(hists),
        "samples": [cases[len(hists) // 2]["bodies"][0]["body"], cases[n_http - 1]["bodies"][0]["body"]],
        "websocket_frames": len(cases) - n_http,
        "exhaustive": True,
        "rule": "MC_Http: every (session state, queue residue, last command) x next command for bodies "
                "of up to MaxLen commands of the property's classes, with four separator layouts "
                "(plain, trailing ';', blank statements, doubled ';'); each body is POSTed to the real "
                "HTTP server; the reply must equal NunHttp!RefReply of the per-command outcomes, the node "
                "must end in the same state as when the commands run one by one, and the session must "
                "be released",
    })
    res.assumptions = ["per-command outcomes come from a twin node running the same commands through "
                       "process_request (same binary, same virtual clock)",
                       "WebSocket frames are not exercised (stream of lines, not an entry list)",
                       "values and keys do not contain ';'"]
    return res, known
