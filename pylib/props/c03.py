"""C03 -- watchers get every committed change, only committed changes, and end up current."""
import itertools
import json
import os
import random

import common
import conc
import render
import tables
import tlc

PROP = "C03"
ATOMIC = {"set": True, "remove": False, "unwatch": True}   # lock regions of the current code

NUM = {"st": "New", "val": "5", "ver": 1}
STR = {"st": "New", "val": "v0", "ver": 1}


def writes(tag, k="k"):
    return [
        [{"op": "set", "k": k, "v": tag + "1"}],
        [{"op": "set-safe", "k": k, "v": tag + "2", "ver": 1}],
        [{"op": "set-safe", "k": k, "v": tag + "3", "ver": 0}],     # refused
        [{"op": "increment", "k": k, "n": 2 if tag == "A" else 3}],
        [{"op": "remove", "k": k}],
        [{"op": "set", "k": k, "v": tag + "4"}, {"op": "set", "k": k, "v": tag + "5"}],
    ]


def unsubs(k="k"):
    return [[{"op": "unwatch", "k": k}], [{"op": "unwatch-all"}], [{"op": "close"}]]


def scenarios(tier):
    scs = []
    n = 0

    def add(init, wat, progs):
        nonlocal n
        scs.append(conc.Scenario("w%d" % n, init, wat, progs))
        n += 1
    # 1. writer against a subscriber that is watching and unsubscribes (may / must-not)
    for w in writes("A"):
        for u in unsubs():
            add({"k": NUM}, {"k": ["s1"], "j": ["s1"]}, {"w1": w, "s1": u})
    # 2. writer against a subscriber that subscribes
    for w in writes("A"):
        add({"k": NUM}, {}, {"w1": w, "s1": [{"op": "watch", "k": "k"}]})
    # 3. one client subscribes and then writes while another one unsubscribes / disconnects:
    #    the first one's subscription must survive
    for u in unsubs():
        add({"k": NUM}, {"k": ["s2"], "j": ["s2"]},
            {"s1": [{"op": "watch", "k": "k"}, {"op": "set", "k": "k", "v": "A9"}], "s2": u})
        add({"k": NUM}, {"k": ["s2"], "j": ["s2"]},
            {"s1": [{"op": "watch", "k": "j"}, {"op": "set", "k": "j", "v": "A9"}], "s2": u})
    # 4. two writers, a passive subscriber watching from the start (final view is current)
    A, B = writes("A"), writes("B")
    for i, j in itertools.combinations_with_replacement(range(len(A) - 1), 2):
        add({"k": NUM}, {"k": ["obs"]}, {"w1": A[i], "w2": B[j]})
    # 5. replicated writes notify like local ones
    add({"k": STR}, {"k": ["obs"]}, {"w1": [{"op": "replicate", "k": "k", "v": "R1", "ver": -1}],
                                    "w2": [{"op": "set", "k": "k", "v": "B1"}]})
    return scs


def big_scenarios(rnd, n):
    scs = []
    for s in range(n):
        progs = {}
        wat = {}
        for w in range(rnd.choice([1, 2])):
            tag = "AB"[w]
            ops = []
            for q in range(rnd.randint(1, 2)):
                o = dict(rnd.choice(writes(tag + str(q)))[0])
                o["k"] = rnd.choice(["k", "k", "j"])
                ops.append(o)
            progs["w%d" % (w + 1)] = ops
        for sidx in range(rnd.choice([1, 2])):
            name = "s%d" % (sidx + 1)
            ops = []
            watching = set()
            if rnd.random() < 0.5:
                for k in rnd.sample(["k", "j"], rnd.randint(1, 2)):
                    wat.setdefault(k, []).append(name)
                    watching.add(k)
            for q in range(rnd.randint(1, 2)):
                cand = [{"op": "unwatch-all"}, {"op": "close"}]
                for k in ("k", "j"):
                    cand.append({"op": "unwatch", "k": k} if k in watching else {"op": "watch", "k": k})
                o = rnd.choice(cand)
                if o["op"] == "watch":
                    watching.add(o["k"])
                ops.append(o)
                if o["op"] == "close":
                    break
            progs[name] = ops
        scs.append(conc.Scenario("wbig%d" % s, {"k": NUM, "j": {"st": "New", "val": "7", "ver": 0}}, wat, progs))
    return scs


def seq_part(res, wd, devs):
    """Subscriptions across databases and disconnects (MC_Watch): sequential histories on the real node,
    judged by NunKV group WATCH."""
    rc, out, secs = tlc.run_tlc("MC_Watch.tla", "MC_Watch.cfg", workers=1, timeout=600, extra=["-coverage", "1"],
                                stdout_path=os.path.join(wd, "mc_watch.out"))
    if "No error has been found" not in out:
        raise common.ToolError("MC_Watch did not complete cleanly:\n" + out[-3000:])
    gen, distinct = tlc.stats(out)
    a = "a"
    pre = [render.step(a, {"op": "auth", "u": "admin", "tok": "adminpwd"}),
           render.step(a, {"op": "create-db", "d": "d", "tok": "tok", "strategy": "none"}),
           render.step(a, {"op": "create-db", "d": "e", "tok": "tok2", "strategy": "none"}),
           render.step("wd", {"op": "use-db", "d": "d", "tok": "tok", "u": "-"}),
           render.step("we", {"op": "use-db", "d": "e", "tok": "tok2", "u": "-"}),
           render.step("wd", {"op": "set", "k": "k", "v": "v0"}),
           render.step("we", {"op": "set", "k": "k", "v": "v0"}),
           render.step("s1", {"op": "use-db", "d": "d", "tok": "tok", "u": "-"}),
           render.step("s2", {"op": "use-db", "d": "d", "tok": "tok", "u": "-"})]
    cases = [{"id": "sw%d" % i, "steps": pre + render.steps_of_hist(h)} for i, h in enumerate(tlc.extract_cases(out))]
    swd = os.path.join(wd, "seq")
    os.makedirs(swd, exist_ok=True)
    tab = os.path.join(swd, "tables.json")
    json.dump(tables.build(["k", "$connections", "$$token", "d", "e", "$admin"], ["tok", "tok2", "v0", "v1", "v2", "v3"], ["*"], []),
              open(tab, "w"))
    raws = common.run_cases_parallel("seq", cases, swd)
    norm_path = os.path.join(swd, "norm.ndjson")
    common.normalize_all(raws, norm_path)
    o = common.validate_into(res, norm_path, "Trace_KV.tla", "Trace_KV.cfg", ["WATCH"], devs, tab, swd,
                             {c["id"]: c for c in cases})
    return {"model": "MC_Watch.tla", "states": distinct, "transitions": gen, "histories": len(cases),
            "events_validated": o["events"]}


def run(tier, seed):
    res = common.Result(PROP, tier, seed, "model_checking")
    wd = common.workdir(PROP)
    devs, known = common.load_findings(PROP)
    rnd = random.Random(seed)
    tab = os.path.join(wd, "tables.json")
    json.dump(tables.build(["k", "j"], [], [], []), open(tab, "w"))
    scs = scenarios(tier)
    scheds, gen, dist = conc.schedules_for(scs, wd, ATOMIC, per_scenario_cap=(50 if tier == "quick" else 500), rnd=rnd)
    big = big_scenarios(rnd, 16 if tier == "quick" else 200)
    bsched, g2, d2 = conc.schedules_for(big, wd, ATOMIC, simulate=(25 if tier == "quick" else 100))
    cases = []
    by_sc = {s.sid: s for s in scs + big}
    for sid, ss in list(scheds.items()) + list(bsched.items()):
        for i, s in enumerate(ss):
            cases.append(by_sc[sid].case("%s#%d" % (sid, i), s))
    by_id = {c["id"]: c for c in cases}
    raws = common.run_cases_parallel("conc", cases, wd, procs=12)
    norm_path = os.path.join(wd, "norm.ndjson")
    conc.normalize(raws, norm_path)
    out = common.validate_into(res, norm_path, "Trace_KVLin.tla", "Trace_KVLin.cfg", ["WATCH"], devs, tab,
                               os.path.join(wd, "watch"), by_id)
    seq_cov = seq_part(res, wd, devs)
    res.coverage.update({
        "subscriptions_across_databases": seq_cov,
        "states": dist + d2 + seq_cov["states"], "transitions": gen + g2 + seq_cov["transitions"],
        "model": "NunKVConc.tla (one module per scenario; complete interleavings / -simulate)",
        "scenarios": len(scs) + len(big),
        "traces_validated_against_impl": out["runs"], "events_validated": out["events"],
        "samples": [{"tasks": {t: [o.get("line", "<close>") for o in ops] for t, ops in c["tasks"].items()},
                     "schedule": c["schedule"]} for c in cases[:: max(1, len(cases) // 3)][:3]],
        "exhaustive": False,
        "rule": "writers {set, set-safe accepted / refused, increment, remove, two sets} x subscribers "
                "{watching then unwatch / unwatch-all / disconnect; subscribing; subscribing then writing "
                "while another client unsubscribes or disconnects (same and different key)}; two writers "
                "with a passive subscriber; replicated write; TLC enumerates the interleavings of "
                "NunKVConc, the scheduler forces them on the real code, and Trace_KVLin group WATCH judges "
                "the notification obligations from call / linearisation / return indices; plus MC_Watch: every "
                "(selection, watcher lists, closed sessions) x {watch, unwatch, unwatch-all, select the other "
                "database, disconnect, write / remove in either database} sequentially, judged by NunKV group WATCH",
    })
    res.assumptions = ["a client never watches a key it already watches; fewer than 50 undrained lines",
                       "mutations are attributed to notifications by their (distinguishable) values"]
    # free-running rounds: real threads, no scheduler, no hook involved (lock regions without a yield point)
    import stress
    res.coverage.update(stress.run_part(res, wd, devs, ['churn', 'set'], tier, seed))
    return res, known
