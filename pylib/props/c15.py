"""C15 -- pending-operation accounting is exact and acknowledgements are idempotent."""
import json
import os
import random

import common
import tlc

PROP = "C15"


def inductive(wd):
    import subprocess
    adir = os.path.join(tlc.SPEC, "apalache")
    outs = []
    for init, length in (("Init", 0), ("IndInit", 1)):
        p = subprocess.run(["timeout", "1500", "apalache-mc", "check", "--cinit=ConstInit", "--init=" + init, "--inv=IndInv",
                            "--length=%d" % length, "--out-dir=" + os.path.join(wd, "apalache"), "NunPendingInd.tla"],
                           cwd=adir, stdout=subprocess.PIPE, stderr=subprocess.STDOUT)
        out = p.stdout.decode(errors="replace")
        if "The outcome is: NoError" not in out:
            raise common.ToolError("Apalache: IndInv of NunPendingInd not established (%s, length %d):\n%s"
                                   % (init, length, out[-2000:]))
        outs.append("%s/length %d: NoError" % (init, length))
    return outs


def run(tier, seed):
    res = common.Result(PROP, tier, seed, "model_checking")
    wd = common.workdir(PROP)
    devs, known = common.load_findings(PROP)
    cfg = "NunPending_quick.cfg" if tier == "quick" else "NunPending.cfg"
    rc, out, secs = tlc.run_tlc("NunPending.tla", cfg, workers=1, timeout=1200, extra=["-coverage", "1"],
                                stdout_path=os.path.join(wd, "mc.out"), heap="8g")
    if "No error has been found" not in out:
        raise common.ToolError("NunPending did not complete cleanly:\n" + out[-3000:])
    gen, distinct = tlc.stats(out)
    # histories of any length: the inductive invariant of the same accounting (counters unbounded), by Apalache
    ind = inductive(wd)
    cases = [{"id": "m%d" % i, "steps": h} for i, h in enumerate(tlc.extract_cases(out))]
    n_model = len(cases)
    rnd = random.Random(seed)
    for i in range(300 if tier == "quick" else 5000):
        steps = []
        for _ in range(rnd.randint(4, 40)):
            ev = rnd.choice(["register", "register", "ack", "ack", "ack", "ack", "leave"])
            steps.append({"ev": ev, "op": 0 if ev == "leave" else rnd.choice([11, 12, 13]),
                          "node": rnd.choice(["n1", "n2", "n3", "stranger"])})
        cases.append({"id": "r%d" % i, "steps": steps})
    raws = common.run_cases_parallel("pending", cases, wd)
    norm_path = os.path.join(wd, "norm.ndjson")
    with open(norm_path, "w") as g:
        for rf in raws:
            with open(rf) as f:
                for line in f:
                    ev = json.loads(line)
                    ev.setdefault("i", -1)
                    g.write(json.dumps(ev) + "\n")
    outv = common.validate_into(res, norm_path, "Trace_Pending.tla", "Trace_Pending.cfg", [], devs,
                                "/dev/null", wd, {c["id"]: c for c in cases})
    res.coverage.update({
        "states": distinct, "transitions": gen, "model": "NunPending.tla/" + cfg,
        "inductive_invariant": {"module": "spec/apalache/NunPendingInd.tla", "tool": "apalache-mc 0.58", "obligations": ind,
                                "constants": "2 operations x 3 nodes, counters and history length unbounded"},
        "traces_validated_against_impl": outv["runs"], "events_validated": outv["events"],
        "model_generated_cases": n_model, "random_cases": len(cases) - n_model,
        "samples": [cases[n_model // 2]["steps"], cases[-1]["steps"][:10]],
        "exhaustive": True,
        "rule": "NunPending: every (reference state, counter state) x {register(op,node), ack(op,node), leave(node)} for "
                "2 operations x 3 nodes up to the history bound, incl. duplicates, acks before "
                "registration and from nodes never targeted; random sequences with a foreign node; each "
                "sequence is applied to the real register_pending_opp / acknowledge_pending_opp and the "
                "reported pending set, counters and ack results are validated against the reference",
    })
    res.assumptions = ["stable membership; the end-to-end accounting is also observed in the cluster runs (C04/C14)"]
    return res, known
