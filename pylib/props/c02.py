"""C02 -- set-safe is an atomic compare-and-set; versions only grow; no lost update."""
import itertools
import json
import os
import random

import common
import conc
import tables
import tlc
from props import c01

PROP = "C02"
ATOMIC = {"set": True, "remove": False, "unwatch": True}   # the lock regions of the current code


def op_variants(tag):
    return [
        {"op": "set", "k": "k", "v": tag + "1"},
        {"op": "set-safe", "k": "k", "v": tag + "2", "ver": 1},    # current version
        {"op": "set-safe", "k": "k", "v": tag + "3", "ver": 0},    # stale
        {"op": "set-safe", "k": "k", "v": tag + "4", "ver": 5},    # ahead
        {"op": "increment", "k": "k", "n": 2 if tag == "A" else 3},
        {"op": "get-safe", "k": "k"},
        {"op": "remove", "k": "k"},
    ]


INITS = {
    "abs": {"k": None},
    "num0": {"k": {"st": "New", "val": "5", "ver": 0}},      # a key written once: a re-created key is back at this version at once
    "num": {"k": {"st": "New", "val": "5", "ver": 1}},
    "str": {"k": {"st": "New", "val": "v0", "ver": 1}},
    "ok": {"k": {"st": "Ok", "val": "5", "ver": 1}},
}


def scenarios(tier):
    scs = []
    inits = ["num", "abs"] if tier == "quick" else ["num", "abs", "str", "ok"]
    A, B = op_variants("A"), op_variants("B")
    for iname in inits:
        for i, j in itertools.combinations_with_replacement(range(len(A)), 2):
            scs.append(conc.Scenario("%s_%d_%d" % (iname, i, j), INITS[iname], {},
                                     {"t1": [A[i]], "t2": [B[j]]}))
    # the key ceases to exist and comes back while another command is under way (a key that never reached the disk is
    # dropped by remove, and the next write starts its versions again): every command against remove-then-write
    back = [[B[6], B[0]], [B[6], {"op": "set", "k": "k", "v": "100"}], [B[6], B[4]], [B[6], B[1]]]
    for iname in (["num", "num0"] if tier == "quick" else ["num", "num0", "ok"]):
        for i in range(len(A)):
            for j, prog in enumerate(back):
                scs.append(conc.Scenario("%s_re_%d_%d" % (iname, i, j), INITS[iname], {}, {"t1": [A[i]], "t2": prog}))
    return scs


def big_scenarios(rnd, n):
    """2-3 clients x 1-3 commands on 1-2 keys: explored by TLC simulation."""
    scs = []
    for s in range(n):
        nt = rnd.choice([2, 2, 3])
        progs = {}
        for t in range(nt):
            tag = "ABC"[t]
            ops = []
            for q in range(rnd.randint(1, 3 if nt == 2 else 2)):
                o = dict(rnd.choice(op_variants(tag + str(q))))
                o["k"] = rnd.choice(["k", "k", "j"])
                if o["op"] == "set-safe":
                    o["ver"] = rnd.choice([0, 1, 2, 3])
                ops.append(o)
            progs["t%d" % (t + 1)] = ops
        init = {"k": rnd.choice(list(INITS.values()))["k"], "j": rnd.choice([None, {"st": "New", "val": "7", "ver": 0}])}
        scs.append(conc.Scenario("big%d" % s, init, {}, progs))
    return scs


def make_tables(wd):
    tab = tables.build(["k", "j"], [], [], [])
    p = os.path.join(wd, "tables.json")
    json.dump(tab, open(p, "w"))
    return p


def run(tier, seed):
    res = common.Result(PROP, tier, seed, "model_checking")
    wd = common.workdir(PROP)
    devs, known = common.load_findings(PROP)
    rnd = random.Random(seed)
    tab = make_tables(wd)
    # --- concurrent part -------------------------------------------------
    scs = scenarios(tier)
    scheds, gen, dist = conc.schedules_for(scs, wd, ATOMIC, per_scenario_cap=(60 if tier == "quick" else 400), rnd=rnd)
    big = big_scenarios(rnd, 12 if tier == "quick" else 150)
    bsched, g2, d2 = conc.schedules_for(big, wd, ATOMIC, simulate=(25 if tier == "quick" else 120))
    cases = []
    by_sc = {s.sid: s for s in scs + big}
    for sid, ss in list(scheds.items()) + list(bsched.items()):
        for i, s in enumerate(ss):
            cases.append(by_sc[sid].case("%s#%d" % (sid, i), s))
    by_id = {c["id"]: c for c in cases}
    raws = common.run_cases_parallel("conc", cases, wd, procs=12)
    norm_path = os.path.join(wd, "norm.ndjson")
    conc.normalize(raws, norm_path)
    out = common.validate_into(res, norm_path, "Trace_KVLin.tla", "Trace_KVLin.cfg", ["LIN"], devs, tab,
                               os.path.join(wd, "lin"), by_id)
    # --- sequential part: version rule for every version argument ---------
    seq_cases = c01.model_cases("quick", wd, common.Result(PROP, tier, seed, "model_checking"))
    if tier == "quick":
        seq_cases = seq_cases[::6]
    seq_cases += c01.random_cases(150 if tier == "quick" else 5000, seed)
    tab2 = c01.make_tables(os.path.join(wd))
    wseq = os.path.join(wd, "seq")
    os.makedirs(wseq)
    raws2 = common.run_cases_parallel("seq", seq_cases, wseq)
    n2 = os.path.join(wd, "norm_seq.ndjson")
    common.normalize_all(raws2, n2)
    out2 = common.validate_into(res, n2, "Trace_KV.tla", "Trace_KV.cfg", ["VER"], devs, tab2,
                                os.path.join(wd, "ver"), {c["id"]: c for c in seq_cases})
    res.coverage.update({
        "states": dist + d2, "transitions": gen + g2,
        "model": "NunKVConc.tla (one module per scenario; complete interleavings / -simulate)",
        "scenarios": len(scs) + len(big),
        "traces_validated_against_impl": out["runs"] + out2["runs"],
        "concurrent_runs": out["runs"], "concurrent_events": out["events"],
        "sequential_runs": out2["runs"],
        "samples": [{"scenario": cases[0]["meta"], "tasks": {t: [o.get("line") for o in ops] for t, ops in cases[0]["tasks"].items()},
                     "schedule": cases[0]["schedule"]}],
        "exhaustive": False,
        "rule": "every unordered pair of {set, set-safe at/below/above the current version, increment, "
                "get-safe, remove} from two clients on one key (initially absent / present / persisted): "
                "TLC enumerates all interleavings of the lock-granular model NunKVConc, a seeded sample "
                "of them (all in the thorough tier up to the cap) is forced on the real code by the "
                "cooperative scheduler; 2-3 clients x 1-3 commands on 2 keys by TLC simulation; every "
                "run is validated by TLC against the linearizability trace spec Trace_KVLin (group LIN); "
                "sequential histories against NunKV group VER",
    })
    res.assumptions = ["interleaving granularity = yield hooks before every Database.map / Watchers.map "
                       "lock acquisition; code between two hooks runs atomically",
                       "a removed key that still reports a version may refuse or accept an older version"]
    # free-running rounds: real threads, no scheduler, no hook involved (lock regions without a yield point)
    import stress
    res.coverage.update(stress.run_part(res, wd, devs, ['inc', 'set', 'cas'], tier, seed))
    return res, known
