"""C17 -- $connections equals the number of open sessions on the database."""
import json
import os
import random

import common
import render
import tables
import tlc

PROP = "C17"
CHECKS = ["CONN"]
KEYS = ["$connections", "$$token", "$$user_u1", "$admin", "d", "e", "k"]


def make_tables(wd):
    tab = tables.build(KEYS, ["tok", "tok2", "ut", "x"], ["*"], [])
    p = os.path.join(wd, "tables.json")
    json.dump(tab, open(p, "w"))
    return p


def prefix(watcher=True):
    a = "a"
    st = [render.step(a, {"op": "auth", "u": "admin", "tok": "adminpwd"}),
          render.step(a, {"op": "create-db", "d": "d", "tok": "tok", "strategy": "none"}),
          render.step(a, {"op": "create-db", "d": "e", "tok": "tok2", "strategy": "none"}),
          render.step(a, {"op": "use-db", "d": "d", "tok": "tok", "u": "-"}),
          render.step(a, {"op": "create-user", "u": "u1", "v": "ut"})]
    if watcher:
        st += [render.step("w", {"op": "use-db", "d": "d", "tok": "tok", "u": "-"}),
               render.step("w", {"op": "watch", "k": "$connections"})]
    return st


def model_cases(wd, res):
    rc, out, secs = tlc.run_tlc("MC_Conn.tla", "MC_Conn.cfg", workers=1, timeout=600,
                                extra=["-coverage", "1"],
                                stdout_path=os.path.join(wd, "mc_conn.out"))
    if "No error has been found" not in out:
        raise common.ToolError("MC_Conn did not complete cleanly:\n" + out[-3000:])
    gen, distinct = tlc.stats(out)
    res.coverage.update({"states": distinct, "transitions": gen, "model": "MC_Conn.tla"})
    cases = []
    for i, h in enumerate(tlc.extract_cases(out)):
        cases.append({"id": "m%d" % i, "steps": prefix(i % 2 == 0) + render.steps_of_hist(h)})
    return cases


def random_cases(n, seed):
    rnd = random.Random(seed)
    cases = []
    for i in range(n):
        steps = prefix(True)
        for _ in range(rnd.randint(6, 30)):
            s = rnd.choice(["s1", "s2", "s3", "s4"])
            x = rnd.random()
            if s == "s4" and x < 0.55:
                # s4 is the user-token session (a session does not mix the two identities)
                steps.append(render.step(s, {"op": "use-db", "d": "d", "u": "u1", "tok": "ut"}))
            elif x < 0.45:
                d = rnd.choice(["d", "e"])
                steps.append(render.step(s, {"op": "use-db", "d": d, "u": "-",
                                             "tok": {"d": "tok", "e": "tok2"}[d] if rnd.random() < 0.85 else "bad"}))
            elif x < 0.85:
                steps.append({"close": s, "how": rnd.choice(["clean", "clean", "badline", "rst", "drop"]), "op": {"op": "close"}})
            else:
                steps.append(render.step(s, {"op": "get", "k": "$connections"}))
        # the burst goes away: everything but the prefix sessions closes
        for s in ["s1", "s2", "s3", "s4"]:
            steps.append({"close": s, "how": rnd.choice(["clean", "badline", "rst", "drop"]), "op": {"op": "close"}})
        cases.append({"id": "r%d" % i, "steps": steps})
    return cases


def run(tier, seed):
    res = common.Result(PROP, tier, seed, "model_checking")
    wd = common.workdir(PROP)
    devs, known = common.load_findings(PROP)
    tab = make_tables(wd)
    cases = model_cases(wd, res)
    n_model = len(cases)
    cases += random_cases(200 if tier == "quick" else 5000, seed)
    # the same histories over the real TCP and WebSocket servers (sessions = sockets, disconnect = the
    # server's own end-of-stream / on_close code); all of them in the thorough tier, a sample otherwise
    rnd = random.Random(seed)
    net = []
    for t in ("tcp", "ws"):
        sel = cases if tier != "quick" else rnd.sample(cases[:n_model], min(n_model, 60)) + cases[n_model:n_model + 25]
        if tier != "quick":
            sel = cases[:n_model] + cases[n_model:n_model + 400]
        net += [dict(c, id="%s_%s" % (t, c["id"]), transport=t) for c in sel]
    cases += net
    by_id = {c["id"]: c for c in cases}
    raws = common.run_cases_parallel("seq", cases, wd)
    norm_path = os.path.join(wd, "norm.ndjson")
    common.normalize_all(raws, norm_path)
    out = common.validate_into(res, norm_path, "Trace_KV.tla", "Trace_KV.cfg", CHECKS, devs, tab,
                               wd, by_id)
    res.coverage.update({
        "traces_validated_against_impl": out["runs"], "events_validated": out["events"],
        "model_generated_cases": n_model, "random_cases": len(cases) - n_model - len(net),
        "cases_over_tcp_and_websocket": len(net),
        "samples": [[s.get("line", "close " + str(s.get("close"))) for s in cases[n_model // 2]["steps"]]],
        "exhaustive": True,
        "rule": "MC_Conn: every (selection of 3 sessions over 2 databases, counter state) x "
                "{use-db good/bad/user, disconnect, read $connections}; after every step the "
                "database's connection counter and the $connections key must equal the number of "
                "open sessions selecting it, and the $connections watcher is told of every change",
    })
    res.assumptions = ["three ways of driving the sessions: process_request directly with the transports' common "
                       "end-of-connection code (unwatch-all + Client::left), the real TCP server and the real "
                       "WebSocket server on loopback sockets (HTTP requests: C20)",
                       "over sockets the harness waits until the node's projection is stable for 40 ms after each step"]
    return res, known
