"""C01 -- reads return the latest successful write (single-node key-value semantics)."""
import json
import os
import random

import common
import render
import tables
import tlc

PROP = "C01"
CHECKS = ["READ"]

KEYS = ["a", "ab", "b", "$s", "$$s"]
VALS = ["x", "7", "", "two words", "-3", "12 monkeys", "y"]
PATS = ["*", "a*", "*b", "$$", "$$*", "b", "*$$s", "$*", "*$*", "$", "**"]
SYSTEM_KEYS = ["$$token", "$connections", "$admin", "d"]


def make_tables(wd):
    tab = tables.build(KEYS + SYSTEM_KEYS, VALS, PATS, [])
    p = os.path.join(wd, "tables.json")
    json.dump(tab, open(p, "w"))
    return p


def model_cases(tier, wd, res):
    cfg = "MC_Seq_quick.cfg" if tier == "quick" else "MC_Seq_thorough.cfg"
    rc, out, secs = tlc.run_tlc("MC_Seq.tla", cfg, workers=1, timeout=1500,
                                extra=["-coverage", "1"],
                                stdout_path=os.path.join(wd, "mc_seq.out"), heap="8g")
    if "No error has been found" not in out:
        raise common.ToolError("MC_Seq did not complete cleanly:\n" + out[-3000:])
    gen, distinct = tlc.stats(out)
    hists = tlc.extract_cases(out)
    res.coverage["states"] = distinct
    res.coverage["transitions"] = gen
    res.coverage["model"] = "MC_Seq.tla/" + cfg
    res.coverage["model_seconds"] = round(secs, 1)
    cases = []
    for i, h in enumerate(hists):
        posts = [x.pop("post", None) for x in h]
        pre = render.prefix_single_db()
        steps = pre + render.steps_of_hist(h)
        for j, po in enumerate(posts):
            if po is not None:
                steps[len(pre) + j]["expect_mem"] = po
        cases.append({"id": "m%d" % i, "steps": steps})
    return cases


def second_wave(found, by_id, limit=16):
    """From each step after which the node's entries are not MC_Seq's: every sequence of up to three operations on the
    key (write, increment, remove, snapshot), then the reads the property speaks about."""
    import itertools
    cases = []
    for n, (sig, (cid, i, k)) in enumerate(sorted(found.items(), key=lambda x: str(x))[:limit]):
        base = by_id[cid]["steps"][:i + 1]
        ops = [[render.step("c1", {"op": "set", "k": k, "v": "x"})], [render.step("c1", {"op": "increment", "k": k, "n": 1})],
               [render.step("c1", {"op": "remove", "k": k})],
               [render.step("a", {"op": "snapshot", "reclaim": False}), {"tick": 1, "op": {"op": "tick"}}]]
        for ln in (0, 1, 2, 3):
            for seq in itertools.product(ops, repeat=ln):
                steps = [dict(s) for s in base]
                for grp in seq:
                    steps += [dict(x) for x in grp]
                steps += [render.step("c1", {"op": "get", "k": k}), render.step("c1", {"op": "keys", "p": "*"}),
                          render.step("c1", {"op": "get-safe", "k": k}), render.step("c1", {"op": "increment", "k": k, "n": 1}),
                          render.step("c1", {"op": "get", "k": k}), render.step("a", {"op": "keys", "p": "*"})]
                for st in steps:
                    st.pop("expect_mem", None)
                cases.append({"id": "x%d_%d" % (n, len(cases)), "steps": steps})
    return cases


def random_cases(n, seed, lo=12, hi=40):
    rnd = random.Random(seed)
    cases = []
    for i in range(n):
        steps = render.prefix_single_db()
        cur = {}
        for _ in range(rnd.randint(lo, hi)):
            c = rnd.choice(["c1", "c1", "a"])
            k = rnd.choice(KEYS)
            x = rnd.random()
            if x < 0.22:
                op = {"op": "set", "k": k, "v": rnd.choice(VALS)}
            elif x < 0.34:
                op = {"op": "set-safe", "k": k, "v": rnd.choice(VALS),
                      "ver": rnd.choice([-1, 0, 1, 2, 3, 5])}
            elif x < 0.46:
                op = {"op": "remove", "k": k}
            elif x < 0.60:
                op = {"op": "increment", "k": k, "n": rnd.choice([1, -3, 2, 10])}
            elif x < 0.70:
                op = {"op": rnd.choice(["get", "get-safe"]), "k": k}
            elif x < 0.80:
                op = {"op": "keys", "p": rnd.choice(PATS)}
            elif x < 0.90:
                c = "a"
                op = {"op": "snapshot", "reclaim": rnd.random() < 0.4}
            else:
                steps.append({"tick": 1, "op": {"op": "tick"}})
                continue
            steps.append(render.step(c, op))
        cases.append({"id": "r%d" % i, "steps": steps})
    return cases


def run(tier, seed):
    res = common.Result(PROP, tier, seed, "model_checking")
    wd = common.workdir(PROP)
    devs, known = common.load_findings(PROP)
    tab = make_tables(wd)
    cases = model_cases(tier, wd, res)
    n_model = len(cases)
    cases += random_cases(300 if tier == "quick" else 20000, seed)
    by_id = {c["id"]: c for c in cases}
    raws = common.run_cases_parallel("seq", cases, wd)
    norm_path = os.path.join(wd, "norm.ndjson")
    events, runs = common.normalize_all(raws, norm_path)
    out = common.validate_into(res, norm_path, "Trace_KV.tla", "Trace_KV.cfg", CHECKS, devs, tab,
                               wd, by_id)
    import wave2
    found = wave2.drifts(raws, by_id)
    w2 = second_wave(found, by_id)
    out2 = {"runs": 0, "events": 0}
    if w2:
        wd2 = os.path.join(wd, "wave2")
        os.makedirs(wd2, exist_ok=True)
        raws2 = common.run_cases_parallel("seq", w2, wd2)
        norm2 = os.path.join(wd2, "norm.ndjson")
        common.normalize_all(raws2, norm2)
        out2 = common.validate_into(res, norm2, "Trace_KV.tla", "Trace_KV.cfg", CHECKS, devs, tab, wd2,
                                    {c["id"]: c for c in w2})
    res.coverage.update({
        "traces_validated_against_impl": out["runs"] + out2["runs"],
        "events_validated": out["events"] + out2["events"],
        "steps_where_memory_differs_from_MC_Seq": wave2.report(found), "second_wave_cases": len(w2),
        "model_generated_cases": n_model,
        "random_cases": len(cases) - n_model,
        "samples": [[s.get("line", s.get("op", {}).get("op")) for s in cases[len(cases) // 3]["steps"]],
                    [s.get("line", s.get("op", {}).get("op")) for s in cases[-1]["steps"]]],
        "exhaustive": False,
        "rule": "one shortest history per (abstract state, command) of MC_Seq (state = per-key "
                "persistence status x value, pending snapshot), executed on the real node and "
                "validated event by event against NunKV (group READ); plus seeded random histories",
    })
    res.assumptions = [
        "single node in role Primary, commands through process_request (no socket)",
        "dev profile (overflow checks on), virtual clock for operation ids",
        "string tables (secure prefix, patterns, integer values) computed by pylib/tables.py",
    ]
    return res, known
