"""C13 -- arbiter databases never apply or lose a conflicting write silently."""
import json
import os
import random

import common
import norm
import render
import tlc

PROP = "C13"
KEYS = ["a", "ab"]


def prefix():
    st = [{"c": "adm", "line": "auth admin adminpwd", "op": {"op": "setup"}},
          {"c": "adm", "line": "create-db d tok arbiter", "op": {"op": "setup"}},
          {"c": "w", "line": "use-db d tok", "op": {"op": "setup"}}]
    for k in KEYS:   # both keys at version 1
        st.append({"c": "w", "line": "set %s v0" % k, "op": {"op": "setup"}})
        st.append({"c": "w", "line": "set %s v1" % k, "op": {"op": "setup"}})
    return st


def concretize(hist):
    steps = prefix()
    n = 0
    seen_arb = set()
    for h in hist:
        n += 1
        if h["op"] in ("set", "set-safe"):
            if h["stale"]:
                op = {"op": "set-safe", "k": h["k"], "v": "s%d" % n, "ver": 0}
            else:
                op = {"op": "set", "k": h["k"], "v": "p%d" % n}
            steps.append(render.step("w", op))
        elif h["op"] == "get-safe":
            steps.append(render.step("w", {"op": "get-safe", "k": h["k"]}))
        elif h["op"] == "arbiter":
            if h["c"] not in seen_arb:
                seen_arb.add(h["c"])
                steps.append({"c": h["c"], "line": "use-db d tok", "op": {"op": "setup"}})
            steps.append({"c": h["c"], "line": "arbiter", "op": {"op": "arbiter"}})
        elif h["op"] == "close":
            steps.append({"close": h["c"], "op": {"op": "close"}})
        elif h["op"] == "resolve_nth":
            steps.append({"c": h["c"], "resolve_nth": h["nth"], "value": "r%d" % n, "keep": bool(h.get("keep"))})
    return steps


def normalize(raws, out_path):
    n = runs = 0
    with open(out_path, "w") as g:
        for rf in raws:
            q = 0
            for line in open(rf):
                raw = json.loads(line)
                ev, q = norm.norm_event(raw, q)
                if raw["ev"] == "reset":
                    runs += 1
                    g.write(json.dumps({"ev": "reset", "run": raw["run"], "i": -1}) + "\n")
                    n += 1
                    continue
                keys = ev.get("dbs", {}).get("d", {}).get("keys", {})
                kv = {k: [v[0], v[1]] for k, v in keys.items() if not k.startswith("$") and v[2] != "Deleted"}
                conf = []
                for k, v in keys.items():
                    if k.startswith("$conflicts_") and v[2] != "Deleted":
                        body = k[len("$conflicts_"):]
                        key, _, oid = body.rpartition("_")
                        conf.append({"k": key, "id": int(oid), "resolved": v[0].startswith("resolved"), "value": v[0]})
                op = raw.get("op", {})
                o = {"ev": ev["ev"], "run": ev["run"], "i": ev["i"], "c": ev.get("c", "-"),
                     "op": op.get("op", ev.get("op", "-")), "k": op.get("k", ""), "v": op.get("v", ""),
                     "ver": op.get("ver", -1), "opid": op.get("opid", 0), "cls": ev.get("cls", "ok"),
                     "kv": kv, "conf": conf, "notices": ev.get("notices", {}), "line": ev.get("line", ""),
                     "longer": [j for j in KEYS if j != op.get("k", "") and op.get("k", "") and j.startswith(op.get("k", ""))]}
                g.write(json.dumps(o) + "\n")
                n += 1
    return n, runs


def run(tier, seed):
    res = common.Result(PROP, tier, seed, "model_checking")
    wd = common.workdir(PROP)
    devs, known = common.load_findings(PROP)
    cfg = "MC_Arbiter.cfg" if tier == "quick" else "MC_Arbiter_thorough.cfg"
    rc, out, secs = tlc.run_tlc("MC_Arbiter.tla", cfg, workers=1, timeout=900, extra=["-coverage", "1"],
                                stdout_path=os.path.join(wd, "mc.out"))
    if "No error has been found" not in out:
        raise common.ToolError("MC_Arbiter did not complete cleanly:\n" + out[-3000:])
    gen, distinct = tlc.stats(out)
    hists = tlc.extract_cases(out)
    cases = [{"id": "m%d" % i, "steps": concretize(h)} for i, h in enumerate(hists)]
    n_model = len(cases)
    # longer random histories from the same action alphabet
    rnd = random.Random(seed)
    for i in range(200 if tier == "quick" else 5000):
        h = []
        gen_n, on = 0, False
        for _ in range(rnd.randint(4, 16)):
            x = rnd.random()
            if x < 0.45:
                h.append({"c": "w", "op": "set", "k": rnd.choice(KEYS), "stale": rnd.random() < 0.6})
            elif x < 0.55:
                h.append({"c": "w", "op": "get-safe", "k": rnd.choice(KEYS)})
            elif x < 0.7:
                if on:
                    h.append({"c": "arb%d" % gen_n, "op": "close"})
                    on = False
                else:
                    gen_n += 1
                    h.append({"c": "arb%d" % gen_n, "op": "arbiter"})
                    on = True
            elif on:
                h.append({"c": "arb%d" % gen_n, "op": "resolve_nth", "nth": rnd.randint(0, 2), "keep": rnd.random() < 0.3})
        cases.append({"id": "r%d" % i, "steps": concretize(h)})
    raws = common.run_cases_parallel("seq", cases, wd)
    norm_path = os.path.join(wd, "norm.ndjson")
    normalize(raws, norm_path)
    outv = common.validate_into(res, norm_path, "Trace_Arbiter.tla", "Trace_Arbiter.cfg", [], devs, "/dev/null",
                                wd, {c["id"]: c for c in cases})
    res.coverage.update({
        "states": distinct, "transitions": gen, "model": "MC_Arbiter.tla/" + cfg,
        "traces_validated_against_impl": outv["runs"], "events_validated": outv["events"],
        "model_generated_cases": n_model, "random_cases": len(cases) - n_model,
        "samples": [[s.get("line", json.dumps({k: v for k, v in s.items() if k != "op"})) for s in cases[n_model // 2]["steps"]]],
        "exhaustive": True,
        "rule": "MC_Arbiter: every (arbiter never / connected / disconnected, queue length per key, notices held) "
                "x {plain write, stale versioned write on each of two keys of which one name extends the other, "
                "register, disconnect, resolve the i-th outstanding notice (echoing its op id and version) with a value of "
                "the arbiter's own or with the value the key holds, "
                "read}; seeded longer histories; executed on the real node; Trace_Arbiter judges every step",
    })
    res.assumptions = ["single node (the cluster part of C13 is limited by the recorded resolve ping-pong, see C14)",
                       "values without spaces; the arbiter echoes op id, key and version of the notice"]
    return res, known
