"""C10 -- no client input can crash a handler or wedge the node."""
import json
import os
import random

import common
import tlc

PROP = "C10"

TOKENS = {
    "empty": "", "space": " ", "word": "abc", "key": "k1", "seckey": "$$s", "num": "7", "neg": "-3",
    "i32max": "2147483647", "i32min": "-2147483648", "u64max": "18446744073709551615",
    "u128big": "340282366920938463463374607431768211455", "long": "x" * 10000,
    "nonascii": "é漢", "semi": ";", "newline": "a\nb", "db": "d", "tok": "tok",
    # very long AND non-ASCII: every byte offset of a long line falls inside a character for one of these
    "long_e0": "é" * 700, "long_e1": "x" + "é" * 700,
    "long_h0": "漢" * 500, "long_h1": "x" + "漢" * 500, "long_h2": "xx" + "漢" * 500,
    "long_4": "😀" * 400,
    "dblist": "d|$admin", "dblist_bad_first": "ghost|d", "dblist_bad_last": "d|ghost", "dblist_empty_item": "d||$admin",
}
PARSER_WORDS = None


def concretize(abstract):
    word = abstract[0]
    toks = []
    for t in abstract[1:]:
        toks.append(t[3:] if t.startswith("kw:") else TOKENS[t])
    return " ".join([word] + toks)


def case_of(cid, lines, rnd):
    """lines: list of (abstract, concrete). Every line is sent by four sessions (unauthenticated,
    database token, administrator without / with a selected database), each time followed by a probe."""
    st = [{"c": "a", "line": "auth admin adminpwd", "op": {"op": "setup"}},
          {"c": "a", "line": "create-db d tok", "op": {"op": "setup"}},
          {"c": "a", "line": "use-db d tok", "op": {"op": "setup"}},
          {"c": "a", "line": "set k1 5", "op": {"op": "setup"}},
          {"c": "a", "line": "set big 2147483647", "op": {"op": "setup"}},
          {"c": "t", "line": "use-db d tok", "op": {"op": "setup"}},
          {"c": "p", "line": "use-db d tok", "op": {"op": "setup"}},
          {"c": "x", "line": "auth admin adminpwd", "op": {"op": "setup"}}]
    n = 0
    for abstract, line in lines:
        garbage = abstract[0] in ("bogus", "")
        for sess in ("n", "t", "x", "a"):
            st.append({"c": sess, "line": line,
                       "op": {"op": "garbage" if garbage else "fuzz", "abs": abstract, "sess": sess}})
            n += 1
            v = "p%d" % n
            st.append({"c": "p", "line": "set probe %s" % v, "op": {"op": "probe-set", "v": v}})
            st.append({"c": "p", "line": "get probe", "op": {"op": "probe-get"}})
    # the node's real replication loop runs next to the handlers and is fed what they queue
    return {"id": cid, "steps": st, "services": True}


RAW_TCP = {
    "bad_utf8_line": b"\xff\xfe\xfd\n", "bad_utf8_in_cmd": b"set k1 \xc3\n", "bad_utf8_then_cmd": b"\xff\nget k1\n",
    "nul_line": b"\0\0\0\n", "nul_in_cmd": b"set k\0 1\n", "crlf": b"\r\n", "cr_cmd": b"get k1\r\n",
    "spaces": b"     \n", "no_newline": b"get k1", "split_line": b"set k1 ", "two_lines": b"get k1\nget big\n",
    "long_no_newline": b"x" * 70000, "long_line": b"set k1 " + b"y" * 70000 + b"\n", "high_bytes": bytes(range(128, 256)) + b"\n",
    "truncated_4byte": b"get \xf0\x9f\x98\n", "overlong": b"get \xc0\xaf\n", "surrogate": b"get \xed\xa0\x80\n",
    "http_on_tcp": b"GET / HTTP/1.1\r\nHost: x\r\n\r\n",
}
# (opcode, fin, payload)
RAW_WS = {
    "binary_bad_utf8": (2, True, b"\xff\xfe\xfd"), "binary_cmd": (2, True, b"get k1"), "binary_empty": (2, True, b""),
    "text_bad_utf8": (1, True, b"get \xff"), "text_empty": (1, True, b""), "text_nul": (1, True, b"set k\0 1"),
    "ping": (9, True, b"hi"), "pong_unsolicited": (10, True, b"hi"), "ping_oversized": (9, True, b"p" * 200),
    "continuation_alone": (0, True, b"get k1"), "fragment_start_only": (1, False, b"set k1 "),
    "reserved_opcode": (3, True, b"x"), "reserved_control": (11, True, b""), "close_bad_code": (8, True, b"\x00\x01"),
    "close_bad_utf8": (8, True, b"\x03\xe8\xff\xff"), "text_long": (1, True, b"set k1 " + b"z" * 70000),
    "binary_long_bad": (2, True, b"\xfe" * 70000), "binary_truncated_utf8": (2, True, b"set k1 \xe6\xbc"),
}


def raw_cases(rnd, tier):
    out = []
    for transport, table in (("tcp", RAW_TCP), ("ws", RAW_WS)):
        for name in sorted(table):
            for authed in (False, True):
                for drop in (False, True):
                    st = [{"c": "a", "line": "auth admin adminpwd", "op": {"op": "setup"}},
                          {"c": "a", "line": "create-db d tok", "op": {"op": "setup"}},
                          {"c": "a", "line": "use-db d tok", "op": {"op": "setup"}},
                          {"c": "a", "line": "set k1 5", "op": {"op": "setup"}},
                          {"c": "a", "line": "set big 2147483647", "op": {"op": "setup"}},
                          {"c": "p", "line": "use-db d tok", "op": {"op": "setup"}}]
                    n = 0
                    for rep in range(3):       # three connections in a row: a dying service thread shows at the latest on the next one
                        c = "r%d" % rep
                        if authed:
                            st.append({"c": c, "line": "use-db d tok", "op": {"op": "setup"}})
                        if transport == "tcp":
                            step = {"c": c, "rawhex": table[name].hex(), "op": {"op": "raw", "abs": [name]}}
                        else:
                            op, fin, payload = table[name]
                            step = {"c": c, "rawhex": payload.hex(), "opcode": op, "fin": fin, "op": {"op": "raw", "abs": [name]}}
                        if drop:
                            step["drop"] = True
                        st.append(step)
                        n += 1
                        st.append({"c": "p", "line": "set probe q%d" % n, "op": {"op": "probe-set", "v": "q%d" % n}})
                        st.append({"c": "p", "line": "get probe", "op": {"op": "probe-get"}})
                        # a new connection is still accepted and served
                        st.append({"c": "f%d" % rep, "line": "use-db d tok", "op": {"op": "setup"}})
                    out.append({"id": "raw_%s_%s_%d%d" % (transport, name, authed, drop), "steps": st,
                                "services": True, "transport": transport})
    return out


def normalize(raw_files, out_path):
    n = runs = 0
    with open(out_path, "w") as g:
        for rf in raw_files:
            for line in open(rf):
                raw = json.loads(line)
                dump = raw.get("dump", {})
                poisoned = any(k.startswith("#") for k in dump) or any(
                    any(kk.startswith("#") for kk in rec.get("keys", {})) or rec.get("conns", 0) < 0
                    for d, rec in dump.items() if not d.startswith("#"))
                dbs = {d: {"keys": rec["keys"]} for d, rec in dump.items() if not d.startswith("#")}
                if raw["ev"] == "reset":
                    runs += 1
                    ev = {"ev": "reset", "run": raw["run"], "i": -1, "dbs": dbs}
                elif raw["ev"] == "start_failed":
                    ev = {"ev": "start_failed", "run": raw["run"], "i": -1}
                else:
                    op = raw.get("op", {})
                    r = raw.get("r", {})
                    ev = {"ev": raw["ev"], "run": raw["run"], "i": raw["i"], "c": raw.get("c", "-"),
                          "op": op.get("op", "fuzz"), "v": op.get("v", ""), "abs": op.get("abs", []),
                          "line": raw.get("line", "")[:200], "cls": r.get("cls", "ok"),
                          "msg": r.get("msg", "")[:200], "rv": r.get("val", ""), "poisoned": poisoned,
                          "svcdead": raw.get("services", {}).get("repl", "alive") != "alive",
                          "svcwhy": raw.get("services", {}).get("why", "")[:200],
                          "dbs": dbs}
                g.write(json.dumps(ev) + "\n")
                n += 1
    return n, runs


def run(tier, seed):
    res = common.Result(PROP, tier, seed, "exploration")
    wd = common.workdir(PROP)
    devs, known = common.load_findings(PROP)
    cfg = "MC_Fuzz.cfg" if tier == "quick" else "MC_Fuzz_thorough.cfg"
    rc, out, secs = tlc.run_tlc("MC_Fuzz.tla", cfg, workers=1, timeout=1500, heap="8g",
                                stdout_path=os.path.join(wd, "mc_fuzz.out"))
    if "No error has been found" not in out:
        raise common.ToolError("MC_Fuzz did not complete cleanly:\n" + out[-3000:])
    gen, distinct = tlc.stats(out)
    abstract = tlc.extract_cases(out)
    rnd = random.Random(seed)
    cases = []
    for i, ab in enumerate(abstract):
        cases.append(case_of("m%d" % i, [(ab, concretize(ab))], rnd))
    # boundary supplement (also in the quick tier): three- and four-argument lines of the
    # commands that parse numbers, with the numeric token classes in every numeric position
    numeric = ["num", "neg", "i32max", "i32min", "u64max", "u128big", "word"]
    for w in ["set-safe", "replicate", "replicate-increment", "increment", "resolve", "ack", "rp",
              "replicate-since", "election", "create-db", "snapshot"]:
        for a1 in (["key", "db", "kw:candidate"] if w == "election" else ["key", "db"]):
            for a2 in numeric:
                for a3 in ["word", "i32max", "key"]:
                    for a4 in ([None, "i32max"] if w in ("replicate", "resolve", "rp") else [None]):
                        ab = [w, a1, a2, a3] + ([a4] if a4 else [])
                        cases.append(case_of("b%d" % len(cases), [(ab, concretize(ab))], rnd))
    n_model = len(cases)
    # sequences of 1-4 lines with longer argument lists, and raw random byte strings
    words = sorted({a[0] for a in abstract})
    classes = sorted(TOKENS)
    for i in range(400 if tier == "quick" else 20000):
        lines = []
        for _ in range(rnd.randint(1, 4)):
            if rnd.random() < 0.2:
                raw = "".join(chr(rnd.choice([32, 32, 59, 36, 45, 48, 57, 97, 122, 10, 0x7f, 0xe9, 0x4e2d]))
                              for _ in range(rnd.randint(1, 30)))
                ab = ["raw"]
                lines.append((ab, raw))
            else:
                ab = [rnd.choice(words)] + [rnd.choice(classes) for _ in range(rnd.randint(0, 5))]
                lines.append((ab, concretize(ab)))
        cases.append(case_of("r%d" % i, lines, rnd))
    # a sample of the same cases through the real TCP server (one socket per session): a panic in a
    # handler ends the connection thread, which the client sees as a missing reply
    def tcp_ok(c):
        return all("\n" not in s.get("line", "") and "\r" not in s.get("line", "") for s in c["steps"])
    pool = [c for c in cases if tcp_ok(c)]
    net = [dict(c, id="tcp_" + c["id"], transport="tcp") for c in rnd.sample(pool, min(len(pool), 300 if tier == "quick" else 3000))]
    cases += net
    # the same through the real WebSocket server (one text frame per line; `;` splits a frame into commands)
    def ws_ok(c):
        return tcp_ok(c) and all(";" not in s.get("line", "") for s in c["steps"])
    pool = [c for c in cases if not c["id"].startswith("tcp_") and ws_ok(c)]
    wsn = [dict(c, id="ws_" + c["id"], transport="ws") for c in rnd.sample(pool, min(len(pool), 120 if tier == "quick" else 1500))]
    cases += wsn
    # bytes that are not command lines: invalid UTF-8, NULs, unterminated / split lines over TCP; binary, fragmented,
    # control and reserved frames over WebSocket; each from a fresh and from an authenticated connection, each
    # followed by the probe from another connection of the same transport
    rawc = raw_cases(rnd, tier)
    cases += rawc
    by_id = {c["id"]: {"id": c["id"], "lines": [s.get("line", s.get("rawhex", ""))[:300] for s in c["steps"]]} for c in cases}
    raws = common.run_cases_parallel("seq", cases, wd, procs=14)
    norm_path = os.path.join(wd, "norm.ndjson")
    normalize(raws, norm_path)
    outv = common.validate_into(res, norm_path, "Trace_Robust.tla", "Trace_Robust.cfg", [], devs,
                                "/dev/null", wd, by_id)
    distinct_lines = len({s["line"] for c in cases for s in c["steps"] if s["op"]["op"] in ("fuzz", "garbage")})
    res.coverage.update({
        "evaluations": sum(1 for c in cases for s in c["steps"] if s["op"]["op"] in ("fuzz", "garbage")),
        "distinct_nontrivial": distinct_lines,
        "rule": "MC_Fuzz enumerates (command word incl. unknown/empty) x argument lists of 0..MaxArgs "
                "tokens from 27 token classes (incl. very long non-ASCII tokens at every byte alignment) + the word's sub-command keywords; every line is sent "
                "from an unauthenticated, a database-token and an administrator session, each followed "
                "by a probe set/get from another client; plus seeded sequences of 1-4 lines with up to "
                "5 arguments and random byte strings. Distinct = distinct concrete lines.",
        "samples": [c["steps"][7].get("line", c["steps"][7].get("rawhex", ""))[:120] for c in cases[::max(1, len(cases) // 12)]],
        "states": distinct, "transitions": gen, "cases_over_tcp": len(net), "cases_over_websocket": len(wsn),
        "raw_byte_cases": len(rawc), "raw_byte_classes": {"tcp": sorted(RAW_TCP), "ws": sorted(RAW_WS)},
        "traces_validated_against_impl": outv["runs"], "events_validated": outv["events"],
        "exhaustive": False,
    })
    res.assumptions = ["lines go through process_request with catch_unwind (a panic = the handler "
                       "thread of a real transport dying); lock poisoning is read off every RwLock of "
                       "the node after each line", "dev profile: arithmetic overflow panics",
                       "bytes that are not command lines (invalid UTF-8, NULs, unterminated lines; binary / fragmented / control / "
                       "reserved WebSocket frames) are not required to be answered, only to leave the node serving",
                       "not covered: memory exhaustion, slow clients, HTTP framing"]
    return res, known
