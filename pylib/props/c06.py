"""C06 -- snapshot then restart restores exactly the snapshotted state."""
import json
import os
import random

import common
import render
import tlc

PROP = "C06"

# concrete strings for the abstract values of NunDisk (different byte lengths, UTF-8, empty)
VALMAP = [{"p": "x", "qq": "two words"}, {"p": "", "qq": "é漢字" * 3}, {"p": "7", "qq": "y" * 300},
          {"p": "12 monkeys", "qq": "q"}]


def concretize(hist, variant):
    vm = VALMAP[variant % len(VALMAP)]
    out = []
    for h in hist:
        h = dict(h)
        if h["op"] == "set":
            h["v"] = vm.get(h["v"], h["v"])
        if h["op"] == "snapshot":
            h["names"] = ["d"]
        out.append(h)
    return out


def prefix():
    return render.prefix_single_db(strategy="none")


def model_cases(tier, wd, res):
    cfg = "NunDisk_quick.cfg" if tier == "quick" else "NunDisk_thorough.cfg"
    rc, out, secs = tlc.run_tlc("NunDisk.tla", cfg, workers=1, timeout=1500, extra=["-coverage", "1"],
                                stdout_path=os.path.join(wd, "mc_disk.out"), heap="8g")
    if "No error has been found" not in out:
        raise common.ToolError("NunDisk did not complete cleanly:\n" + out[-3000:])
    gen, distinct = tlc.stats(out)
    res.coverage.update({"states": distinct, "transitions": gen, "model": "NunDisk.tla/" + cfg})
    cases = []
    for i, h in enumerate(tlc.extract_cases(out)):
        if not any(x["op"] == "tick" for x in h):
            continue   # nothing was ever persisted: nothing to restore
        # what the model holds in memory after every step (persistence state, version per key)
        posts = [x.pop("post", None) for x in h]
        pre = prefix()
        steps = pre + render.steps_of_hist(concretize(h, i))
        for j, po in enumerate(posts):
            if po is not None:
                steps[len(pre) + j]["expect_mem"] = po
        if h[-1]["op"] != "restart":
            steps.append({"restart": 1, "op": {"op": "restart"}})
        cases.append({"id": "m%d" % i, "steps": steps, "strategy": "none"})
    return cases


def second_wave(found, by_id, limit=16):
    """The model no longer describes the node after these steps: the generated histories do not cover what the
    node does from there.  From each such step: every sequence of up to three operations on the key, closed by a
    snapshot (incremental / reclaiming / incremental, remove, incremental) and a restart."""
    import itertools
    cases = []
    for n, (sig, (cid, i, k)) in enumerate(sorted(found.items(), key=lambda x: str(x))[:limit]):
        base = by_id[cid]["steps"][:i + 1]
        ops = [{"op": "set", "k": k, "v": "w"}, {"op": "increment", "k": k, "n": 1}, {"op": "remove", "k": k}]
        closures = [[False], [True], [False, "remove", False]]
        for ln in (1, 2, 3):
            for seq in itertools.product(ops, repeat=ln):
                for ci, clo in enumerate(closures):
                    steps = [dict(s) for s in base] + [render.step("c1", dict(o)) for o in seq]
                    for x in clo:
                        if x == "remove":
                            steps.append(render.step("c1", {"op": "remove", "k": k}))
                        else:
                            steps.append(render.step("a", {"op": "snapshot", "reclaim": x, "names": ["d"]}))
                            steps.append({"tick": 1, "op": {"op": "tick"}})
                    steps.append({"restart": 1, "op": {"op": "restart"}})
                    for s in steps:
                        s.pop("expect_mem", None)
                    cases.append(fix_sessions({"id": "x%d_%d_%d" % (n, len(cases), ci), "steps": steps, "strategy": "none",
                                               "follow_ticks": True}))
    return cases


def random_cases(n, seed, dbs=("d",)):
    rnd = random.Random(seed)
    keys = ["a", "bcd", "k3", "clé"]
    vals = ["x", "two words", "", "é漢字", "7", "y" * 300, "12 monkeys", "-3"]
    cases = []
    for i in range(n):
        strategy = rnd.choice(["none", "newer", "arbiter"])
        steps = render.prefix_single_db(strategy=strategy)
        for _ in range(rnd.randint(8, 40)):
            x = rnd.random()
            k = rnd.choice(keys)
            if x < 0.3:
                steps.append(render.step("c1", {"op": "set", "k": k, "v": rnd.choice(vals)}))
            elif x < 0.4:
                steps.append(render.step("c1", {"op": "set-safe", "k": k, "v": rnd.choice(vals),
                                                "ver": rnd.choice([0, 1, 2, 3, 6])}))
            elif x < 0.52:
                steps.append(render.step("c1", {"op": "remove", "k": k}))
            elif x < 0.62:
                steps.append(render.step("c1", {"op": "increment", "k": k, "n": rnd.choice([1, -3, 10])}))
            elif x < 0.85:
                steps.append(render.step("a", {"op": "snapshot", "reclaim": rnd.random() < 0.4, "names": ["d"]}))
                steps.append({"tick": 1, "op": {"op": "tick"}})
            else:
                steps.append({"restart": 1, "op": {"op": "restart"}})
                # sessions are gone after a restart
                steps.append(render.step("a", {"op": "auth", "u": "admin", "tok": "adminpwd"}))
                steps.append(render.step("a", {"op": "use-db", "d": "d", "tok": "tok"}))
                steps.append(render.step("c1", {"op": "use-db", "d": "d", "tok": "tok"}))
        steps.append({"restart": 1, "op": {"op": "restart"}})
        cases.append({"id": "r%d" % i, "steps": steps})
    return cases


def with_neighbour(case):
    """The same history next to a second database whose name has the first one's name as a prefix (`d2`), with another
    conflict strategy and keys of the same names; every snapshot of `d` takes `d2` along.  Each database must come
    back as itself."""
    steps = []
    done = False
    for st in case["steps"]:
        op = st.get("op", {})
        if op.get("op") == "snapshot" and op.get("names") == ["d"]:
            st = render.step(st.get("c", "a"), dict(op, names=["d", "d2"]))
        steps.append(st)
        if not done and op.get("op") == "create-db":
            steps += [render.step("a", {"op": "create-db", "d": "d2", "tok": "tok2", "strategy": "newer"}),
                      render.step("n2", {"op": "use-db", "d": "d2", "tok": "tok2"}),
                      render.step("n2", {"op": "set", "k": "a", "v": "nb1"}),
                      render.step("n2", {"op": "set", "k": "zz", "v": "nb2"}),
                      render.step("n2", {"op": "set", "k": "bcd", "v": "nb3"}),
                      render.step("n2", {"op": "set", "k": "q7", "v": "nb4"})]
            done = True
    out = dict(case)
    out["steps"] = steps
    out["id"] = "nb" + case["id"]
    return out


def fix_sessions(case):
    """after every restart inside a model-generated case the sessions must log in again"""
    out = []
    for st in case["steps"]:
        out.append(st)
        if st.get("restart"):
            out.append(render.step("a", {"op": "auth", "u": "admin", "tok": "adminpwd"}))
            out.append(render.step("a", {"op": "use-db", "d": "d", "tok": "tok"}))
            out.append(render.step("c1", {"op": "use-db", "d": "d", "tok": "tok"}))
    case["steps"] = out
    return case


def run(tier, seed):
    res = common.Result(PROP, tier, seed, "model_checking")
    wd = common.workdir(PROP)
    devs, known = common.load_findings(PROP)
    cases = [fix_sessions(c) for c in model_cases(tier, wd, res)]
    n_model = len(cases)
    cases += random_cases(300 if tier == "quick" else 10000, seed)
    nrnd = random.Random(seed + 5)
    cases += [with_neighbour(c) for c in nrnd.sample(cases[:n_model], min(n_model, 400 if tier == "quick" else 4000))]
    by_id = {c["id"]: c for c in cases}
    for c in cases:
        c["follow_ticks"] = True      # every completed snapshot is also compared with the byte-level model
    raws = common.run_cases_parallel("seq", cases, wd)
    norm_path = os.path.join(wd, "norm.ndjson")
    common.normalize_all(raws, norm_path)
    out = common.validate_into(res, norm_path, "Trace_Restore.tla", "Trace_Restore.cfg", [], devs,
                               "/dev/null", wd, by_id)
    # where the node's memory is not what NunDisk says after a step, the histories above (one per transition of
    # the MODEL) do not cover the node: a second wave explores from those steps, judged by the same reference
    import wave2 as w2mod
    found = w2mod.drifts(raws, by_id)
    wave2 = second_wave(found, by_id)
    out2 = {"runs": 0, "events": 0}
    if wave2:
        by_id2 = {c["id"]: c for c in wave2}
        wd2 = os.path.join(wd, "wave2")
        os.makedirs(wd2, exist_ok=True)
        raws2 = common.run_cases_parallel("seq", wave2, wd2)
        norm2 = os.path.join(wd2, "norm.ndjson")
        common.normalize_all(raws2, norm2)
        out2 = common.validate_into(res, norm2, "Trace_Restore.tla", "Trace_Restore.cfg", [], devs,
                                    "/dev/null", wd2, by_id2)
    import snapfollow
    n_snaps, shards = snapfollow.normalize(raws, os.path.join(wd, "snapfollow"))
    checked, bad = snapfollow.validate(shards)
    res.coverage.update({
        "byte_level_model": {"module": "NunDiskBytes.tla via Trace_Snap: files after every completed snapshot = the modelled "
                                       "calls executed on the files before; in-memory addresses and states = the model's; "
                                       "modelled loader on those files = the live entries (model conformance, reported "
                                       "here; the verdict of C06 is Trace_Restore's)",
                             "completed_snapshots_checked": checked, "not_conforming": len(bad),
                             "first_not_conforming": [list(b) for b in bad[:5]]},
        "traces_validated_against_impl": out["runs"] + out2["runs"], "events_validated": out["events"] + out2["events"],
        "steps_where_memory_differs_from_NunDisk": w2mod.report(found),
        "second_wave_cases": len(wave2),
        "model_generated_cases": n_model, "random_cases": len(cases) - n_model,
        "samples": [[s.get("line", s.get("op", {}).get("op")) for s in cases[n_model // 2]["steps"]]],
        "exhaustive": False,
        "rule": "NunDisk: one shortest history per (abstract memory/file state, operation) over {set, "
                "increment, remove, snapshot false/true + declutter tick, restart} on keys of different "
                "lengths, every history ending in a restart; values of varying byte length (empty, "
                "UTF-8, longer than the writer buffer); seeded random histories up to 40 operations on "
                "databases of all three conflict strategies; Trace_Restore: the dump after every restart "
                "equals the dump at the last completed snapshot (values, versions, live set, id, strategy)",
    })
    res.assumptions = ["the declutter timer is driven explicitly (snapshot_all_pendding_dbs)",
                       "restart = new Databases built like main.rs::start_db on the same directory"]
    return res, known
