"""C11 -- a crash during a snapshot never damages previously persisted data."""
import itertools
import json
import os
import random

import common
import norm
import render

PROP = "C11"

BIG = "B" * 300          # larger than the 250-byte writer buffer
BIG2 = "C" * 620
MODS = {
    "new_short": [{"op": "set", "k": "n1", "v": "nv"}],
    "new_big": [{"op": "set", "k": "n2", "v": BIG2}],
    "upd_short": [{"op": "set", "k": "k1", "v": "v1b"}],
    "upd_to_big": [{"op": "set", "k": "k3", "v": BIG2}],
    "upd_big_to_short": [{"op": "set", "k": "kbig", "v": "s"}],
    "remove": [{"op": "remove", "k": "k2"}],
    "incr": [{"op": "increment", "k": "cnt", "n": 4}],
    "many_new": [{"op": "set", "k": "m%d" % i, "v": "val%d" % i} for i in range(12)],
}


def base_steps(two_dbs):
    st = render.prefix_single_db()
    a = "a"
    for k, v in [("k1", "v1"), ("k2", "v2"), ("k3", "v3"), ("kbig", BIG), ("cnt", "5"), ("clé", "é漢")]:
        st.append(render.step("c1", {"op": "set", "k": k, "v": v}))
    if two_dbs:
        st.append(render.step(a, {"op": "create-db", "d": "e", "tok": "tok2", "strategy": "newer"}))
        st.append(render.step("c2", {"op": "use-db", "d": "e", "tok": "tok2"}))
        st.append(render.step("c2", {"op": "set", "k": "ek", "v": "ev"}))
    names = ["d", "e"] if two_dbs else ["d"]
    st.append(render.step(a, {"op": "snapshot", "reclaim": False, "names": names}))
    st.append({"tick": 1, "op": {"op": "tick"}})
    return st, names


def make_case(cid, mods, reclaim, two_dbs):
    st, names = base_steps(two_dbs)
    for m in mods:
        for op in MODS[m]:
            st.append(render.step("c1", op))
    if two_dbs:
        st.append(render.step("c2", {"op": "set", "k": "ek", "v": "ev2"}))
    st.append(render.step("a", {"op": "snapshot", "reclaim": reclaim, "names": names}))
    st.append({"tick": 1, "crash": True, "op": {"op": "crashtick"}})
    return {"id": cid, "steps": st, "meta": {"mods": mods, "reclaim": reclaim, "two_dbs": two_dbs}}


def cases_for(tier):
    names = sorted(MODS)
    cases = []
    combos = [[m] for m in names] + [list(c) for c in itertools.combinations(names, 2)] + [names]
    if tier != "quick":
        combos = [list(c) for r in range(1, 5) for c in itertools.combinations(names, r)] + [names]
    for i, mods in enumerate(combos):
        for reclaim in (False, True):
            cases.append(make_case("c%d_%s" % (i, "r" if reclaim else "i"), mods, reclaim, i % 3 == 0))
    # a second interrupted snapshot after a completed second one (positions already used in place)
    return cases


def normalize(raws, out_path):
    n = runs = images = 0
    sites = set()
    with open(out_path, "w") as g:
        for rf in raws:
            q = 0
            for line in open(rf):
                raw = json.loads(line)
                if raw["ev"] == "crashtick":
                    dbn = [sn["db"] for sn in raw["pre"]["snaps"]]
                    g.write(json.dumps({"ev": "crashbegin", "run": raw["run"], "i": raw["i"],
                                        "target": norm.norm_dump(raw["target"]), "pre": raw["pre"],
                                        "strs": raw["strs"]}) + "\n")
                    n += 1
                    for im in raw["images"]:
                        images += 1
                        sites.add(im["site"])
                        bl = im.get("bload") or {}
                        bload = {d: bl.get(d, {"st": "fail", "m": [], "id": 0, "strategy": 0}) for d in dbn}
                        bload["#"] = {"st": "-", "m": [], "id": 0, "strategy": 0}
                        g.write(json.dumps({"ev": "img", "run": raw["run"], "i": raw["i"], "n": im["n"],
                                            "site": im["site"], "load": im["load"],
                                            "dump": norm.norm_dump(im.get("dump", {})),
                                            "patch": im["patch"], "bload": bload}) + "\n")
                        n += 1
                    ev = {"ev": "crashtick", "run": raw["run"], "i": raw["i"], "cls": raw["r"]["cls"],
                          "op": "crashtick", "target": norm.norm_dump(raw["target"]),
                          "dbs": norm.norm_dump(raw["dump"]), "images": []}
                    q = 0
                else:
                    ev, q = norm.norm_event(raw, q)
                    for drop in ("notes", "replies", "repl_lines", "side", "line", "msg"):
                        ev.pop(drop, None)
                    if raw["ev"] == "reset":
                        runs += 1
                g.write(json.dumps(ev) + "\n")
                n += 1
    return n, runs, images, sorted(sites)


def model_part(tier, wd):
    """Design level: NunDiskCrash (the write plan call by call, a kill between any two calls, the loader on what is
    on disk) explored by TLC; every crash transition is printed with its verdict."""
    import collections
    import re
    import tlc
    out_cov = {}
    for name, cfg in (("pinned", "MC_DiskCrash.cfg" if tier == "quick" else "MC_DiskCrash_deep.cfg"),
                      ("ordered", "MC_DiskCrash_ordered.cfg")):
        path = os.path.join(wd, "mc_diskcrash_%s.out" % name)
        rc, out, secs = tlc.run_tlc("MC_DiskCrash.tla", cfg, workers=(8 if tier == "quick" else 14), timeout=1800,
                                    heap="8g", stdout_path=path)
        if "No error has been found" not in out:
            raise common.ToolError("NunDiskCrash (%s) did not complete cleanly:\n%s" % (name, out[-3000:]))
        gen, distinct = tlc.stats(out)
        cuts = collections.Counter()
        for m in re.finditer(r'<<"CUT", "([^"]*)", (TRUE|FALSE), "(\w+)", "(\w+)">>', out):
            cuts[("reclaim" if m.group(2) == "TRUE" else "incremental", m.group(3))] += 1
        out_cov[name] = {"cfg": cfg, "states": distinct, "transitions": gen, "seconds": round(secs, 1),
                         "crash_transitions": {"%s/%s" % k: v for k, v in sorted(cuts.items())}}
        os.remove(path)
    if any(k.endswith("/unsafe") for k in out_cov["ordered"]["crash_transitions"]):
        raise common.ToolError("the repaired write plan of NunDiskCrash has an unsafe cut")
    return out_cov


def run(tier, seed):
    res = common.Result(PROP, tier, seed, "fault_enumeration")
    wd = common.workdir(PROP)
    design = model_part(tier, wd)
    devs, known = common.load_findings(PROP)
    cases = cases_for(tier)
    raws = common.run_cases_parallel("seq", cases, wd, procs=14, timeout=3000)
    norm_path = os.path.join(wd, "norm.ndjson")
    n, runs, images, sites = normalize(raws, norm_path)
    out = common.validate_into(res, norm_path, "Trace_Crash.tla", "Trace_Crash.cfg", [], devs, "/dev/null",
                               wd, {c["id"]: {"id": c["id"], "meta": c["meta"]} for c in cases})
    fol = out.get("follow", {})
    n_img = sum(v[0] for v in fol.values())
    n_fol = sum(v[1] for v in fol.values())
    res.coverage.update({
        "states": design["pinned"]["states"] + design["ordered"]["states"],
        "transitions": design["pinned"]["transitions"] + design["ordered"]["transitions"],
        "design_level": {"module": "NunDiskCrash.tla: client operations, the snapshot one file-system call at a time, a kill "
                                   "between any two calls, the loader on the files; invariants RestoreExact (C06 at byte level), "
                                   "AddrsValid, CrashSafeOrKnown (pinned plan: unsafe cuts only inside the recorded windows), and "
                                   "CrashSafe for the repaired plan (Variant = ordered)", "runs": design},
        "byte_level_model": {"module": "NunDiskBytes.tla (write plan of storage_data_disk call by call, BufWriter rule, loader "
                                       "on torn files), followed by Trace_Crash at every crash point",
                             "interrupted_snapshots": len(fol), "images": n_img, "images_following_the_model": n_fol,
                             "snapshots_followed_to_the_end": sum(1 for v in fol.values() if v[2])},
        "evaluations": images, "distinct_nontrivial": images,
        "rule": "dataset family {new short/large key, 12 new keys, update short->short, short->large, "
                "large->short, remove, increment} (singly and combined) x {incremental, reclaiming} x "
                "{1, 2 databases}, each on top of a completed snapshot; the interrupted snapshot is cut "
                "after every file-system call on its path (crash_point hook: %d distinct sites); every "
                "cut image is loaded by the real start-up code (child process) and judged by Trace_Crash; "
                "the image's files must be the files the byte-level model (NunDiskBytes) predicts for that cut and "
                "the loaded contents what the modelled loader reads from them, and a failing image counts as the "
                "recorded finding only while the run follows that model. "
                "Every (case, cut) pair is a distinct image." % len(sites),
        "samples": [{"case": cases[0]["meta"], "sites": sites[:12]}],
        "crash_sites": sites, "cases": len(cases),
        "traces_validated_against_impl": out["runs"],
        "exhaustive": True,
    })
    res.assumptions = ["kill model = process kill: everything already handed to the kernel survives, bytes "
                       "still in a BufWriter do not; power loss / torn single writes are out of scope",
                       "an image is taken after each file-system call (not in the middle of one)"]
    return res, known
