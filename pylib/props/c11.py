"""C11 -- a crash during a snapshot never damages previously persisted data."""
import itertools
import json
import os
import random

import common
import norm
import render

PROP = "C11"

BIG = "B" * 300          # larger than the 250-byte writer buffer
BIG2 = "C" * 620
MODS = {
    "new_short": [{"op": "set", "k": "n1", "v": "nv"}],
    "new_big": [{"op": "set", "k": "n2", "v": BIG2}],
    "upd_short": [{"op": "set", "k": "k1", "v": "v1b"}],
    "upd_to_big": [{"op": "set", "k": "k3", "v": BIG2}],
    "upd_big_to_short": [{"op": "set", "k": "kbig", "v": "s"}],
    "remove": [{"op": "remove", "k": "k2"}],
    "incr": [{"op": "increment", "k": "cnt", "n": 4}],
    "many_new": [{"op": "set", "k": "m%d" % i, "v": "val%d" % i} for i in range(12)],
}


def base_steps(two_dbs):
    st = render.prefix_single_db()
    a = "a"
    for k, v in [("k1", "v1"), ("k2", "v2"), ("k3", "v3"), ("kbig", BIG), ("cnt", "5"), ("clé", "é漢")]:
        st.append(render.step("c1", {"op": "set", "k": k, "v": v}))
    if two_dbs:
        st.append(render.step(a, {"op": "create-db", "d": "e", "tok": "tok2", "strategy": "newer"}))
        st.append(render.step("c2", {"op": "use-db", "d": "e", "tok": "tok2"}))
        st.append(render.step("c2", {"op": "set", "k": "ek", "v": "ev"}))
    names = ["d", "e"] if two_dbs else ["d"]
    st.append(render.step(a, {"op": "snapshot", "reclaim": False, "names": names}))
    st.append({"tick": 1, "op": {"op": "tick"}})
    return st, names


def make_case(cid, mods, reclaim, two_dbs):
    st, names = base_steps(two_dbs)
    for m in mods:
        for op in MODS[m]:
            st.append(render.step("c1", op))
    if two_dbs:
        st.append(render.step("c2", {"op": "set", "k": "ek", "v": "ev2"}))
    st.append(render.step("a", {"op": "snapshot", "reclaim": reclaim, "names": names}))
    st.append({"tick": 1, "crash": True, "op": {"op": "crashtick"}})
    return {"id": cid, "steps": st, "meta": {"mods": mods, "reclaim": reclaim, "two_dbs": two_dbs}}


def cases_for(tier):
    names = sorted(MODS)
    cases = []
    combos = [[m] for m in names] + [list(c) for c in itertools.combinations(names, 2)] + [names]
    if tier != "quick":
        combos = [list(c) for r in range(1, 5) for c in itertools.combinations(names, r)] + [names]
    for i, mods in enumerate(combos):
        for reclaim in (False, True):
            cases.append(make_case("c%d_%s" % (i, "r" if reclaim else "i"), mods, reclaim, i % 3 == 0))
    # a second interrupted snapshot after a completed second one (positions already used in place)
    return cases


def normalize(raws, out_path):
    n = runs = images = 0
    sites = set()
    with open(out_path, "w") as g:
        for rf in raws:
            q = 0
            for line in open(rf):
                raw = json.loads(line)
                if raw["ev"] == "crashtick":
                    ev = {"ev": "crashtick", "run": raw["run"], "i": raw["i"], "cls": raw["r"]["cls"],
                          "op": "crashtick", "target": norm.norm_dump(raw["target"]),
                          "dbs": norm.norm_dump(raw["dump"]), "images": []}
                    for im in raw["images"]:
                        images += 1
                        sites.add(im["site"])
                        ev["images"].append({"n": im["n"], "site": im["site"], "load": im["load"],
                                             "dump": norm.norm_dump(im.get("dump", {}))})
                    q = 0
                else:
                    ev, q = norm.norm_event(raw, q)
                    for drop in ("notes", "replies", "repl_lines", "side", "line", "msg"):
                        ev.pop(drop, None)
                    if raw["ev"] == "reset":
                        runs += 1
                g.write(json.dumps(ev) + "\n")
                n += 1
    return n, runs, images, sorted(sites)


def run(tier, seed):
    res = common.Result(PROP, tier, seed, "fault_enumeration")
    wd = common.workdir(PROP)
    devs, known = common.load_findings(PROP)
    cases = cases_for(tier)
    raws = common.run_cases_parallel("seq", cases, wd, procs=14, timeout=3000)
    norm_path = os.path.join(wd, "norm.ndjson")
    n, runs, images, sites = normalize(raws, norm_path)
    out = common.validate_into(res, norm_path, "Trace_Crash.tla", "Trace_Crash.cfg", [], devs, "/dev/null",
                               wd, {c["id"]: {"id": c["id"], "meta": c["meta"]} for c in cases})
    res.coverage.update({
        "evaluations": images, "distinct_nontrivial": images,
        "rule": "dataset family {new short/large key, 12 new keys, update short->short, short->large, "
                "large->short, remove, increment} (singly and combined) x {incremental, reclaiming} x "
                "{1, 2 databases}, each on top of a completed snapshot; the interrupted snapshot is cut "
                "after every file-system call on its path (crash_point hook: %d distinct sites); every "
                "cut image is loaded by the real start-up code (child process) and judged by Trace_Crash. "
                "Every (case, cut) pair is a distinct image." % len(sites),
        "samples": [{"case": cases[0]["meta"], "sites": sites[:12]}],
        "crash_sites": sites, "cases": len(cases),
        "traces_validated_against_impl": out["runs"],
        "exhaustive": True,
    })
    res.assumptions = ["kill model = process kill: everything already handed to the kernel survives, bytes "
                       "still in a BufWriter do not; power loss / torn single writes are out of scope",
                       "an image is taken after each file-system call (not in the middle of one)"]
    return res, known
