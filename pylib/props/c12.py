"""C12 -- the operation-log query never misses an operation."""
import itertools
import json
import os
import random

import common
import tlc

PROP = "C12"
KIND = {"update": 0, "remove": 1, "create-db": 2, "snapshot": 3}


def norm(raw_files, out_path):
    n = runs = 0
    with open(out_path, "w") as g:
        for rf in raw_files:
            for line in open(rf):
                raw = json.loads(line)
                if raw["ev"] == "reset":
                    runs += 1
                    g.write(json.dumps({"ev": "reset", "run": raw["run"], "i": -1}) + "\n")
                else:
                    ev = {"ev": "oplog", "run": raw["run"], "i": 0,
                          "log": [{"t": r[0], "k": "%d_%d" % (r[2], r[1]), "op": r[3]} for r in raw["log"]],
                          "queries": raw["queries"], "files": raw["files"],
                          "last_op_time": raw["last_op_time"]}
                    g.write(json.dumps(ev) + "\n")
                n += 1
    return n, runs


def sinces_for(times):
    s = {0, 1}
    for t in times:
        s |= {t, t + 1, max(0, t - 1)}
    if times:
        s |= {max(times) + 5, max(0, min(times) - 1)}
    return sorted(x for x in s if x >= 0)


def time_pattern_cases(maxn, tmax):
    """every non-decreasing time pattern of 0..maxn records over 1..tmax (x10 so that t-1 / t+1
    fall between records), every record its own key"""
    cases = []
    for n in range(0, maxn + 1):
        for ts in itertools.combinations_with_replacement(range(1, tmax + 1), n):
            log = [[t * 10, i, 1, 0] for i, t in enumerate(ts)]
            cases.append({"log": log, "sinces": sinces_for([t * 10 for t in ts])})
    return cases


def label_cases(maxn):
    """repeated keys over 2 dbs x 2 keys with all four kinds (covering subset), strictly and
    non-strictly increasing times"""
    cases = []
    keys = [(1, 0), (1, 1), (2, 0)]
    for n in range(1, maxn + 1):
        for ks in itertools.product(range(len(keys)), repeat=n):
            for strict in (True, False):
                log = []
                t = 10
                for i, ki in enumerate(ks):
                    if strict or i % 2 == 0:
                        t += 10
                    d, k = keys[ki]
                    log.append([t, k, d, (i + ki) % 4])
                cases.append({"log": log, "sinces": sinces_for([r[0] for r in log])})
    return cases


def random_cases(n, seed, size):
    rnd = random.Random(seed)
    cases = []
    for i in range(n):
        ln = rnd.randint(1, size)
        t = 100
        log = []
        for _ in range(ln):
            t += rnd.choice([0, 1, 1, 2, 7])
            log.append([t, rnd.randint(0, 5), rnd.randint(1, 3), rnd.choice([0, 0, 0, 1, 2, 3])])
        ts = [r[0] for r in log]
        s = {0, ts[0], ts[-1], ts[-1] + 1, ts[0] - 1} | {rnd.choice(ts) + rnd.choice([-1, 0, 1]) for _ in range(6)}
        cases.append({"log": log, "sinces": sorted(x for x in s if x >= 0)})
    return cases


def run(tier, seed):
    res = common.Result(PROP, tier, seed, "model_checking")
    wd = common.workdir(PROP)
    devs, known = common.load_findings(PROP)
    # design level: transcription of the search against the reference, exhaustively
    tot_states = tot_gen = 0
    for cfg in (["NunOplog_times.cfg", "NunOplog_labels.cfg"]):
        rc, out, secs = tlc.run_tlc("NunOplog.tla", cfg, workers=8, timeout=900, heap="8g")
        if "No error has been found" not in out:
            raise common.ToolError("NunOplog (%s) did not complete cleanly:\n%s" % (cfg, out[-3000:]))
        g, d = tlc.stats(out)
        tot_states += d
        tot_gen += g
    # real files, one file
    single = time_pattern_cases(7 if tier == "quick" else 10, 4) + label_cases(4 if tier == "quick" else 5)
    single += random_cases(200 if tier == "quick" else 3000, seed, 60)
    for i, c in enumerate(single):
        c["id"] = "s%d" % i
    # real files with rotation (small NUN_MAX_OP_LOG_SIZE: 4 records per file)
    rot = time_pattern_cases(6 if tier == "quick" else 8, 3) + label_cases(4)
    rot += random_cases(200 if tier == "quick" else 3000, seed + 1, 40 if tier == "quick" else 400)
    # a restart re-opens the log (and rotates a full file): last-operation time afterwards
    for n in range(1, 10):
        rot.append({"log": [[10 * (i + 1), i, 1, 0] for i in range(n)], "sinces": [0, 10], "reopen": True})
    for i, c in enumerate(rot):
        c["id"] = "x%d" % i
    w1, w2 = os.path.join(wd, "single"), os.path.join(wd, "rot")
    os.makedirs(w1), os.makedirs(w2)
    raws = common.run_cases_parallel("oplog", single, w1)
    raws2 = common.run_cases_parallel("oplog", rot, w2, env={"NUN_MAX_OP_LOG_SIZE": "1000"})
    n1, n2 = os.path.join(wd, "norm1.ndjson"), os.path.join(wd, "norm2.ndjson")
    norm(raws, n1)
    norm(raws2, n2)
    o1 = common.validate_into(res, n1, "Trace_Oplog.tla", "Trace_Oplog.cfg", [], devs, "/dev/null",
                              os.path.join(wd, "v1"), {c["id"]: c for c in single})
    o2 = common.validate_into(res, n2, "Trace_Oplog.tla", "Trace_Oplog.cfg", [], devs, "/dev/null",
                              os.path.join(wd, "v2"), {c["id"]: c for c in rot})
    res.coverage.update({
        "states": tot_states, "transitions": tot_gen,
        "model": "NunOplog.tla: transcription of read_operations_since_from_file vs reference, all "
                 "time patterns of 0-9 records over 4 time stamps x every since; labels: all logs of "
                 "0-4 records over 3 keys x 2 kinds",
        "traces_validated_against_impl": o1["runs"] + o2["runs"],
        "queries_validated": sum(len(c["sinces"]) for c in single + rot),
        "single_file_logs": len(single), "rotated_logs": len(rot),
        "samples": [single[len(single) // 2], rot[-1]],
        "exhaustive": True,
        "rule": "real 25-byte-record files written by Oplog::try_write_op_log: every non-decreasing time "
                "pattern of 0-7 (thorough 0-10) records x since in {0, before first, each time, each "
                "time +-1, after last}; all key/kind assignments of up to 4 records (strict and tied "
                "times); seeded random logs; the same with NUN_MAX_OP_LOG_SIZE=1000 (4 records per "
                "file, rotation); TLC checks on each result: no (db,key) with a record >= since is "
                "missing, every returned label is the kind of the key's most recent record, "
                "last_op_time = newest time stamp, rotation loses no record",
    })
    res.assumptions = ["operation ids (time stamps) are supplied by the harness instead of the clock",
                       "returning additional older entries is allowed"]
    return res, known
