"""C09 -- every command acts only with the credential it requires."""
import json
import os
import random

import common
import render
import tables
import tlc

PROP = "C09"
CHECKS = ["AUTH"]

KEYS = ["a1", "xb", "mid", "zz", "$$s", "$$token", "$$user_u1", "$$permission_$u1"]
PERMS = {
    "r_a": [("r", ["a*"])],
    "rw_a_i_b": [("rw", ["a*"]), ("i", ["*b"])],
    "x_mid": [("x", ["i"])],
    "rwix_all": [("rwix", ["*"])],
    # kinds strings with a repeated letter: still exactly the kinds named (a letter that is no kind is outside the
    # documented format: the node stores such a list in another spelling, which the reference would have to guess)
    "rr_a_ww_mid": [("rr", ["a*"]), ("ww", ["mid"])],
    "rwr_a_ii_b": [("rwr", ["a*"]), ("ii", ["*b"])],
}
EXTRA_KEYS = ["$connections", "$admin", "d", "nd", "n1", "$$user_u2", "$$permission_$u2"]
VALS = ["v0", "7", "w1", "w2", "rv", "pwn", "tok", "ut", "t2", "t3"]
PATS = ["*", "a*", "$$*", "$$", "*$$s", "$*", "*$*", "$", "*s", "**"]


def make_tables(wd):
    conflict_keys = ["$conflicts_%s_77" % k for k in KEYS]
    tab = tables.build(KEYS + EXTRA_KEYS + conflict_keys + ["$$other", "$$cnt", "$$onlyA", "$$onlyB",
                       "$$user_other", "$$permission_$other"], VALS + [tables.perm_value(p) for p in PERMS.values()],
                       PATS, list(PERMS.values()))
    p = os.path.join(wd, "tables.json")
    json.dump(tab, open(p, "w"))
    return p


def prefix():
    st = render.prefix_single_db(clients=())
    a = "a"
    st.append(render.step(a, {"op": "create-user", "u": "u1", "v": "ut"}))
    st.append(render.step(a, {"op": "set", "k": "a1", "v": "v0"}))
    st.append(render.step(a, {"op": "set", "k": "xb", "v": "7"}))
    st.append(render.step(a, {"op": "set", "k": "mid", "v": "v0"}))
    st.append(render.step(a, {"op": "set", "k": "$$s", "v": "v0"}))
    return st


def concretize(h):
    h = dict(h)
    if "pname" in h:
        h["v"] = tables.perm_value(PERMS[h.pop("pname")])
    if h["op"] == "use-db" and "u" not in h:
        h["u"] = "-"
    return h


def model_cases(tier, wd, res):
    rc, out, secs = tlc.run_tlc("MC_Auth.tla", "MC_Auth.cfg", workers=1, timeout=600,
                                extra=["-coverage", "1"],
                                stdout_path=os.path.join(wd, "mc_auth.out"))
    if "No error has been found" not in out:
        raise common.ToolError("MC_Auth did not complete cleanly:\n" + out[-3000:])
    gen, distinct = tlc.stats(out)
    res.coverage.update({"states": distinct, "transitions": gen, "model": "MC_Auth.tla"})
    cases = []
    for i, h in enumerate(tlc.extract_cases(out)):
        steps = prefix() + render.steps_of_hist([concretize(x) for x in h])
        cases.append({"id": "m%d" % i, "steps": steps})
    return cases


def all_cmds():
    cmds = []
    for k in KEYS:
        for o in ("get", "get-safe", "remove", "watch", "unwatch"):
            cmds.append({"op": o, "k": k})
        cmds.append({"op": "set", "k": k, "v": "w1"})
        cmds.append({"op": "set-safe", "k": k, "v": "w2", "ver": 5})
        cmds.append({"op": "increment", "k": k, "n": 2})
        cmds.append({"op": "resolve", "k": k, "v": "rv", "ver": 3, "opid": 77, "d": "d"})
    cmds += [{"op": "keys", "p": "*"}, {"op": "unwatch-all"},
             {"op": "create-db", "d": "nd", "tok": "t2", "strategy": "none"},
             {"op": "snapshot", "reclaim": False, "names": []},
             {"op": "create-user", "u": "u2", "v": "t3"},
             {"op": "cluster-state"}, {"op": "metrics-state"}, {"op": "list-commands"},
             {"op": "replicate", "line": "replicate d a1 -1 pwn"},
             {"op": "replicate-remove", "line": "replicate-remove d a1"},
             {"op": "join", "line": "join other:1"}, {"op": "leave", "line": "leave other:1"},
             {"op": "set-primary", "line": "set-primary other:1"},
             {"op": "election-win", "line": "election win"},
             {"op": "election-other", "line": "election alive other:1"},
             {"op": "ack", "line": "ack 5 other:1"}]
    return cmds


CRED = [{"op": "auth", "u": "admin", "tok": "adminpw"}, {"op": "auth", "u": "admin", "tok": "adminpwdx"},
        {"op": "use-db", "d": "d", "tok": "to", "u": "-"}, {"op": "use-db", "d": "d", "tok": "tokx", "u": "-"},
        {"op": "use-db", "d": "d", "tok": "u", "u": "u1"}, {"op": "use-db", "d": "d", "tok": "utx", "u": "u1"},
        {"op": "auth", "u": "admin", "tok": "wrong"},
        {"op": "auth", "u": "nobody", "tok": "adminpwd"},
        {"op": "use-db", "d": "d", "tok": "tok", "u": "-"},
        {"op": "use-db", "d": "d", "tok": "bad", "u": "-"},
        {"op": "use-db", "d": "d", "tok": "ut", "u": "u1"},
        {"op": "use-db", "d": "d", "tok": "tok", "u": "u1"},
        {"op": "use-db", "d": "nodb", "tok": "tok", "u": "-"}]


def random_cases(n, seed):
    """Longer sessions of non-administrator clients (two of them) with permission changes."""
    rnd = random.Random(seed)
    cmds = all_cmds()
    cases = []
    for i in range(n):
        steps = prefix()
        is_user = set()
        for _ in range(rnd.randint(8, 25)):
            x = rnd.random()
            c = rnd.choice(["c", "c2"])
            if x < 0.15:
                cr = dict(rnd.choice(CRED))
                if cr["op"] == "use-db" and cr["u"] == "-" and cr["tok"] == "tok" and c in is_user:
                    continue   # outside the quantifier, see MC_Auth
                if cr["op"] == "use-db" and cr["u"] == "u1" and cr["tok"] == "ut":
                    is_user.add(c)
                steps.append(render.step(c, cr))
            elif x < 0.25:
                pn = rnd.choice(sorted(PERMS))
                steps.append(render.step("a", {"op": "set-permissions", "u": "u1",
                                               "v": tables.perm_value(PERMS[pn])}))
            else:
                steps.append(render.step(c, dict(rnd.choice(cmds))))
        cases.append({"id": "r%d" % i, "steps": steps})
    return cases


def run(tier, seed):
    res = common.Result(PROP, tier, seed, "model_checking")
    wd = common.workdir(PROP)
    devs, known = common.load_findings(PROP)
    tab = make_tables(wd)
    cases = model_cases(tier, wd, res)
    n_model = len(cases)
    cases += random_cases(200 if tier == "quick" else 5000, seed)
    by_id = {c["id"]: c for c in cases}
    raws = common.run_cases_parallel("seq", cases, wd)
    norm_path = os.path.join(wd, "norm.ndjson")
    common.normalize_all(raws, norm_path)
    out = common.validate_into(res, norm_path, "Trace_KV.tla", "Trace_KV.cfg", CHECKS, devs, tab,
                               wd, by_id)
    res.coverage.update({
        "traces_validated_against_impl": out["runs"],
        "events_validated": out["events"],
        "model_generated_cases": n_model,
        "random_cases": len(cases) - n_model,
        "samples": [[s.get("line") for s in cases[n_model // 2]["steps"]],
                    [s.get("line") for s in cases[-1]["steps"]]],
        "exhaustive": True,
        "rule": "MC_Auth: every (credential state x permission list) x every command of the command "
                "table with matching / non-matching / secure key arguments, reached by the shortest "
                "session history; executed on the real node; every event validated against NunKV "
                "group AUTH (unauthorised => error reply, store dump, replication / supervisor / "
                "snapshot queues unchanged, failed use-db keeps selection)",
    })
    res.assumptions = ["single node in role Primary; cluster commands from an authorised administrator "
                       "end the case (they change the node's role)",
                       "user name 'all' and removal of permission keys are outside the quantifier"]
    return res, known
