"""C19 -- newer-strategy databases accept every write; the last applied one wins."""
import itertools
import json
import os
import random

import common
import conc
import render
import tables
import tlc
from props import c01, c02

PROP = "C19"
ATOMIC = {"set": True, "remove": False, "unwatch": True}

KEYS = ["a", "ab"]
VALS = ["x", "y", "7", "two words", ""]


def seq_cases(n, seed, lo=1, hi=8):
    """1-6(+) plain and versioned writes (below / at / above the current version) to 1-2 keys,
    half of them through set_key_value where the reply names the stored value; a watcher."""
    rnd = random.Random(seed)
    cases = []
    for i in range(n):
        steps = render.prefix_single_db(strategy="newer") + [
            render.step("w", {"op": "use-db", "d": "d", "tok": "tok"}),
            render.step("w", {"op": "watch", "k": "a"})]
        cur = {}
        for q in range(rnd.randint(lo, hi)):
            k = rnd.choice(KEYS)
            v = "%s%d" % (rnd.choice(VALS), q)
            x = rnd.random()
            if x < 0.3:
                op = {"op": "set", "k": k, "v": v}
            else:
                base = cur.get(k, 0)
                op = {"op": "set-safe", "k": k, "v": v, "ver": max(0, base + rnd.choice([-3, -1, 0, 1, 4]))}
            cur[k] = cur.get(k, 0) + 1
            if rnd.random() < 0.5:
                steps.append({"c": "c1", "op": op,
                              "direct_set": {"db": "d", "k": k, "v": op["v"], "ver": op.get("ver", -1)}})
            else:
                steps.append(render.step("c1", op))
            if rnd.random() < 0.2:
                steps.append(render.step("c1", {"op": "get-safe", "k": k}))
        cases.append({"id": "s%d" % i, "steps": steps})
    return cases


def scenarios(tier):
    scs = []
    A, B = c02.op_variants("A")[:4], c02.op_variants("B")[:4]
    inits = ["str", "abs"] if tier == "quick" else ["str", "abs", "ok", "num"]
    for iname in inits:
        for i, j in itertools.combinations_with_replacement(range(4), 2):
            scs.append(conc.Scenario("n%s_%d_%d" % (iname, i, j), c02.INITS[iname], {"k": ["obs"]},
                                     {"t1": [A[i]], "t2": [B[j]]}, strategy="newer"))
    return scs


def run(tier, seed):
    res = common.Result(PROP, tier, seed, "model_checking")
    wd = common.workdir(PROP)
    devs, known = common.load_findings(PROP)
    rnd = random.Random(seed)
    # sequential
    tab = os.path.join(wd, "tables.json")
    json.dump(tables.build(KEYS + ["k", "j", "$$token", "$connections", "$admin", "d"], [], ["*"], []), open(tab, "w"))
    sc = seq_cases(600 if tier == "quick" else 20000, seed)
    wseq = os.path.join(wd, "seq")
    os.makedirs(wseq)
    raws = common.run_cases_parallel("seq", sc, wseq)
    n1 = os.path.join(wd, "norm_seq.ndjson")
    common.normalize_all(raws, n1)
    out1 = common.validate_into(res, n1, "Trace_KV.tla", "Trace_KV.cfg", ["NEWER", "WATCH"], devs, tab,
                                os.path.join(wd, "kv"), {c["id"]: c for c in sc})
    # concurrent
    scs = scenarios(tier)
    scheds, gen, dist = conc.schedules_for(scs, wd, ATOMIC, per_scenario_cap=(60 if tier == "quick" else 500), rnd=rnd)
    cases = []
    by_sc = {s.sid: s for s in scs}
    for sid, ss in scheds.items():
        for i, s in enumerate(ss):
            cases.append(by_sc[sid].case("%s#%d" % (sid, i), s))
    raws2 = common.run_cases_parallel("conc", cases, wd, procs=12)
    n2 = os.path.join(wd, "norm.ndjson")
    conc.normalize(raws2, n2)
    out2 = common.validate_into(res, n2, "Trace_KVLin.tla", "Trace_KVLin.cfg", ["NEWER", "WATCH"], devs, tab,
                                os.path.join(wd, "lin"), {c["id"]: c for c in cases})
    # replicas: the same kind of sequences issued on the primary of 2- and 3-node clusters (a newer database), every
    # link FIFO, seeded random and FIFO delivery orders; at quiescence every node equals the primary
    import cluster
    from props import c04
    ccases = []
    for i in range(60 if tier == "quick" else 1500):
        nodes = rnd.choice([["n1", "n2"], ["n1", "n2", "n3"]])
        body = []
        for _ in range(rnd.randint(1, 6)):
            k = rnd.choice(["k1", "k2"])
            if rnd.random() < 0.45:
                op = {"op": "set", "k": k, "v": "p%d" % len(body)}
            else:
                op = {"op": "set-safe", "k": k, "v": "s%d" % len(body), "ver": rnd.choice([0, 0, 1, 2, 3, 9])}
            body.append(cluster.client_op(nodes[0], nodes, op))
        ccases.append(c04.build_case("n%d" % i, nodes, body, seed + i, "random" if i % 2 else "fifo", strategy="newer"))
    wcl = os.path.join(wd, "cluster")
    os.makedirs(wcl)
    raws3 = common.run_cases_parallel("cluster", ccases, wcl, procs=12, timeout=3000, env={"NUN_ELECTION_TIMEOUT": "10"})
    n3 = os.path.join(wcl, "norm.ndjson")
    cluster.normalize(raws3, n3)
    out3 = common.validate_into(res, n3, "Trace_Cluster.tla", "Trace_Cluster.cfg", ["CONV"], devs, "/dev/null", wcl,
                                {c["id"]: c for c in ccases})
    res.coverage.update({
        "replicated_runs": out3["runs"], "replicated_events_validated": out3["events"],
        "states": dist, "transitions": gen, "model": "NunKVConc.tla with Strategy = newer",
        "scenarios": len(scs),
        "traces_validated_against_impl": out1["runs"] + out2["runs"],
        "sequential_runs": out1["runs"], "concurrent_runs": out2["runs"],
        "events_validated": out1["events"] + out2["events"],
        "samples": [[s.get("line", "direct " + json.dumps(s.get("direct_set"))) for s in sc[0]["steps"]],
                    {"tasks": {t: [o.get("line") for o in ops] for t, ops in cases[0]["tasks"].items()},
                     "schedule": cases[0]["schedule"]}],
        "exhaustive": False,
        "rule": "sequential: seeded sequences of 1-8 plain / versioned writes (version below, at, above "
                "the current one) on 2 keys of a newer-strategy database, through process_request and "
                "through set_key_value (reply names the stored value), a watcher on one key; concurrent: "
                "every pair of {set, set-safe at / below / above} from two clients under TLC-enumerated "
                "interleavings; validated against NunKV / Trace_KVLin groups NEWER + WATCH (never refused, "
                "stored value, version growth, notified exactly when the value changes); replicas: sequences of "
                "1-6 such writes on the primary of 2- and 3-node clusters, FIFO and seeded random delivery orders, "
                "every node equal to the primary at quiescence (Trace_Cluster group CONV)",
    })
    res.assumptions = ["replica part: writes issued on the primary (writes issued on secondaries are C04)",
                       "operation ids come from a strictly increasing virtual clock"]
    # free-running rounds: real threads, no scheduler, no hook involved (lock regions without a yield point)
    import stress
    res.coverage.update(stress.run_part(res, wd, devs, ['newer'], tier, seed))
    return res, known
