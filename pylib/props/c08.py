"""C08 -- secure ($$) keys are invisible and immutable to non-administrators."""
import json
import os
import random

import common
import render
import tables
import tlc
from props import c09

PROP = "C08"
CHECKS = ["SEC"]


def secure_part(dbs):
    out = {}
    for d, rec in dbs.items():
        out[d] = {k: [v[0], v[1], v[2] != "Deleted"] for k, v in rec["keys"].items()
                  if k.startswith("$$")}
    return out


def admin_variants(rnd):
    """Pairs of administrator steps that differ between the two runs (only $$ contents)."""
    a = "a"
    sA, sB = "secA%d" % rnd.randint(0, 99), "secB%d" % rnd.randint(100, 199)
    choices = [
        (render.step(a, {"op": "set", "k": "$$s", "v": sA}), render.step(a, {"op": "set", "k": "$$s", "v": sB})),
        (render.step(a, {"op": "set", "k": "$$other", "v": sA}), render.step(a, {"op": "remove", "k": "$$s"})),
        (render.step(a, {"op": "increment", "k": "$$cnt", "n": 1}), render.step(a, {"op": "set", "k": "$$cnt", "v": "x"})),
        (render.step(a, {"op": "create-user", "u": "other", "v": sA}),
         render.step(a, {"op": "set-permissions", "u": "other", "v": "rwix *"})),
    ]
    return rnd.choice(choices)


def pair_prefix():
    base = c09.prefix()
    a = "a"
    A = base + [render.step(a, {"op": "set", "k": "$$s", "v": "secretA"}),
                render.step(a, {"op": "set", "k": "$$onlyA", "v": "1"}),
                render.step(a, {"op": "create-user", "u": "other", "v": "otA"})]
    B = base + [render.step(a, {"op": "set", "k": "$$s", "v": "secretB"}),
                render.step(a, {"op": "set", "k": "$$onlyB", "v": "2"}),
                render.step(a, {"op": "set-permissions", "u": "other", "v": "r zz"})]
    return A, B


def build_pairs(hists, rnd, idp):
    pairs = []
    for i, h in enumerate(hists):
        if any(x["op"] == "auth" and x.get("tok") == "adminpwd" and x.get("u") == "admin" for x in h):
            continue  # the session becomes an administrator: outside C08's quantifier
        body = render.steps_of_hist([c09.concretize(x) for x in h])
        A, B = pair_prefix()
        sa, sb = list(A), list(B)
        for st in body:
            if rnd.random() < 0.25:
                va, vb = admin_variants(rnd)
                sa.append(va)
                sb.append(vb)
            sa.append(st)
            sb.append(st)
        pairs.append(("%s%d" % (idp, i), sa, sb))
    return pairs


def merge(normA, normB, out_path):
    """Pairs the events of run A and run B index by index."""
    n = 0
    with open(normA) as fa, open(normB) as fb, open(out_path, "w") as g:
        for la, lb in zip(fa, fb):
            a, b = json.loads(la), json.loads(lb)
            if a["ev"] != b["ev"] or a["i"] != b["i"]:
                raise common.ToolError("paired runs are not aligned: %s / %s" % (la[:100], lb[:100]))
            if a["ev"] == "reset":
                ev = {"ev": "reset", "run": a["run"][:-2], "i": -1,
                      "A": {"sec": secure_part(a["dbs"])}, "B": {"sec": secure_part(b["dbs"])}}
            else:
                def side(x):
                    return {"cls": x["cls"], "rv": x["rv"], "rver": x["rver"], "rkeys": x["rkeys"],
                            "replies": x["replies"] if x["c"] != "a" else [],
                            "notes": {c: v for c, v in x["notes"].items() if c != "a" and v},
                            "sec": secure_part(x["dbs"])}
                ev = {"ev": "pair", "run": a["run"][:-2], "i": a["i"], "c": a["c"], "op": a["op"],
                      "adm": a["c"] == "a", "lineA": a["line"], "lineB": b["line"],
                      "A": side(a), "B": side(b)}
            g.write(json.dumps(ev) + "\n")
            n += 1
    return n


def run(tier, seed):
    res = common.Result(PROP, tier, seed, "model_checking")
    wd = common.workdir(PROP)
    devs, known = common.load_findings(PROP)
    tab = c09.make_tables(wd)
    rnd = random.Random(seed)
    rc, out, secs = tlc.run_tlc("MC_Auth.tla", "MC_Auth.cfg", workers=1, timeout=600,
                                stdout_path=os.path.join(wd, "mc_auth.out"))
    if "No error has been found" not in out:
        raise common.ToolError("MC_Auth did not complete cleanly:\n" + out[-3000:])
    gen, distinct = tlc.stats(out)
    hists = tlc.extract_cases(out)
    pairs = build_pairs(hists, rnd, "m")
    n_model = len(pairs)
    # longer random sessions of two plain clients
    rcases = c09.random_cases(150 if tier == "quick" else 4000, seed)
    rh = []
    for c in rcases:
        body = c["steps"][len(c09.prefix()):]
        rh.append(body)
    for i, body in enumerate(rh):
        A, B = pair_prefix()
        sa, sb = list(A), list(B)
        for st in body:
            if st.get("op", {}).get("op") == "auth" and st["op"].get("tok") == "adminpwd" and st["op"].get("u") == "admin":
                continue
            if rnd.random() < 0.2:
                va, vb = admin_variants(rnd)
                sa.append(va)
                sb.append(vb)
            sa.append(st)
            sb.append(st)
        pairs.append(("r%d" % i, sa, sb))
    casesA = [{"id": pid + "#A", "steps": sa} for pid, sa, sb in pairs]
    casesB = [{"id": pid + "#B", "steps": sb} for pid, sa, sb in pairs]
    wa, wb = os.path.join(wd, "A"), os.path.join(wd, "B")
    os.makedirs(wa), os.makedirs(wb)
    rawsA = common.run_cases_parallel("seq", casesA, wa, procs=8)
    rawsB = common.run_cases_parallel("seq", casesB, wb, procs=8)
    nA, nB = os.path.join(wd, "normA.ndjson"), os.path.join(wd, "normB.ndjson")
    common.normalize_all(rawsA, nA)
    common.normalize_all(rawsB, nB)
    merged = os.path.join(wd, "pairs.ndjson")
    merge(nA, nB, merged)
    by_id = {pid: {"A": sa, "B": sb} for pid, sa, sb in pairs}
    out1 = common.validate_into(res, merged, "Trace_NI.tla", "Trace_NI.cfg", [], devs, tab,
                                os.path.join(wd, "ni"), by_id)
    # each run on its own: secure-key commands of plain sessions are refused, keys hides $$
    byA = {c["id"]: c for c in casesA}
    out2 = common.validate_into(res, nA, "Trace_KV.tla", "Trace_KV.cfg", CHECKS, devs, tab,
                                os.path.join(wd, "kvA"), byA)
    res.coverage.update({
        "states": distinct, "transitions": gen, "model": "MC_Auth.tla (credential x permission states)",
        "traces_validated_against_impl": out1["runs"] + out2["runs"],
        "paired_runs": out1["runs"], "pair_events_validated": out1["events"],
        "single_run_events_validated": out2["events"],
        "model_generated_cases": n_model, "random_cases": len(pairs) - n_model,
        "samples": [{"A": [s.get("line") for s in pairs[n_model // 2][1]],
                     "B": [s.get("line") for s in pairs[n_model // 2][2]]}],
        "exhaustive": False,
        "rule": "every MC_Auth history of a session that never becomes administrator, run on two "
                "servers whose administrators stored different things under $$ keys (different "
                "values, different key sets, removals, users, permission lists, also changed "
                "mid-session); Trace_NI: identical replies / pushed lines, $$ keys unchanged by plain "
                "sessions; Trace_KV group SEC on each run",
    })
    res.assumptions = ["the two runs execute the same binary with the same virtual clock",
                       "the session's own login token and permission list are the same in both runs"]
    return res, known
