"""C14 -- every operation causes a bounded message burst, then silence."""
import os
import random

import cluster
import common
import datapath
from props import c04

PROP = "C14"
CHECKS = ["BUDGET"]

EXTRA_OPS = [
    {"op": "get", "k": "k1"}, {"op": "get-safe", "k": "k1"}, {"op": "keys", "p": "*"},
    {"op": "watch", "k": "k1"}, {"op": "unwatch-all"},
]


def cases_for(tier, seed):
    rnd = random.Random(seed)
    cases = []
    n = 0
    for strategy in ("none", "newer", "arbiter"):
        for nodes in (["n1", "n2"], ["n1", "n2", "n3"]):
            base0 = [cluster.client_op(nodes[0], nodes, c04.DATA_OPS[0]), cluster.client_op(nodes[0], nodes, c04.DATA_OPS[1])]
            # on an arbiter database an arbiter is connected so that conflicts are recorded: on every node in turn
            # (the primary, the secondary that issues the command, another secondary)
            for arb_at in (nodes if strategy == "arbiter" else [None]):
                # (k1 is written once more first: the versioned write with version 0 is then a stale one, i.e. a conflict)
                base = base0 + ([cluster.client_op(nodes[0], nodes, {"op": "set", "k": "k1", "v": "again"}),
                                 {"node": arb_at, "c": "arb", "line": "use-db d tok"},
                                 cluster.client_op(arb_at, nodes, {"op": "arbiter"}, c="arb")] if arb_at else [])
                ops = c04.DATA_OPS + EXTRA_OPS
                for node in nodes:
                    for op in ops:
                        cases.append(c04.build_case("b%d" % n, nodes, base + [cluster.client_op(node, nodes, op)], seed + n,
                                                    "random" if n % 2 else "fifo", strategy=strategy))
                        n += 1
                    for op in c04.ADMIN_OPS[:3]:
                        cases.append(c04.build_case("b%d" % n, nodes, base + [cluster.client_op(node, nodes, op, c="a")],
                                                    seed + n, "random" if n % 2 else "fifo", strategy=strategy))
                        n += 1
                    # resolve (administrator session), for a conflict id that exists or not
                    op = {"op": "resolve", "k": "k1", "v": "rv", "ver": 1, "opid": 4242, "d": "d"}
                    cases.append(c04.build_case("b%d" % n, nodes, base + [cluster.client_op(node, nodes, op, c="a")],
                                                seed + n, "fifo", strategy=strategy))
                    n += 1
    # after a primary handover in which the old primary stays a member (forced election on a secondary of three: the
    # oldest node answers with its own election and wins again), operations issued on every node: still one forward
    for strategy in ("none", "newer"):
        nodes = ["n1", "n2", "n3"]
        for forced in ("n2", "n3"):
            for node in nodes:
                for op in (c04.DATA_OPS[0], c04.DATA_OPS[4], c04.DATA_OPS[6]):
                    for pol in ("fifo", "random"):
                        body = [cluster.client_op("n1", nodes, c04.DATA_OPS[0]), cluster.client_op("n1", nodes, c04.DATA_OPS[1]),
                                {"node": forced, "c": "adm", "line": "auth admin adminpwd", "op": {"op": "auth"}},
                                {"node": forced, "c": "adm", "line": "debug force-election", "op": {"op": "force-election"}},
                                cluster.client_op(node, nodes, op)]
                        cases.append(c04.build_case("h%d" % n, nodes, body, seed + n, pol, strategy=strategy))
                        n += 1
    for c in cases:
        c["budget"] = 1500   # far above the bound of any single operation
    return cases


def run(tier, seed):
    res = common.Result(PROP, tier, seed, "model_checking")
    wd = common.workdir(PROP)
    devs, known = common.load_findings(PROP)
    cases = c04.model_part(tier, seed, wd, res) + cases_for(tier, seed)
    if tier != "quick":
        cases += [dict(c, id="q" + c["id"]) for c in c04.cases_for(tier, seed + 7)[:2000]]
    for c in cases:
        c["trace_state"] = True
        c["trace_data"] = True
    raws = common.run_cases_parallel("cluster", cases, wd, procs=12, timeout=3000,
                                     env={"NUN_ELECTION_TIMEOUT": "10"})
    norm_path = os.path.join(wd, "norm.ndjson")
    cluster.normalize(raws, norm_path)
    res.coverage.update(c04.schedule_stats(raws))
    res.coverage.update(datapath.check(raws, {c["id"]: c for c in cases}, wd))
    out = common.validate_into(res, norm_path, "Trace_Cluster.tla", "Trace_Cluster.cfg", CHECKS, devs,
                               "/dev/null", wd, {c["id"]: c for c in cases})
    res.coverage.update({
        "reference": "Trace_Cluster.tla (ClusterMonitor, group BUDGET)",
        "traces_validated_against_impl": out["runs"], "events_validated": out["events"], "cases": len(cases),
        "samples": [[o["line"] + " @" + o["node"] for o in cases[len(cases) // 2]["ops"]]],
        "exhaustive": False,
        "rule": "every client-visible command (set, set-safe, increment, remove, get, keys, watch, create-user, "
                "set-permissions, snapshot, resolve) issued on every node of 2- and 3-node clusters, on none / "
                "newer / arbiter databases, under FIFO and seeded random delivery orders, step budget 1500; "
                "after each command the simulator runs to quiescence and Trace_Cluster checks: quiescence "
                "reached, at most 2 forwards, 2 copies per secondary, one ack per copy, no copy sent by a "
                "non-primary",
    })
    res.assumptions = ["messages are counted on the simulated links: request lines by kind; reply lines other than "
                       "`ok` are acks or noise (pushed session lines that the dialling side ignores)"]
    return res, known
