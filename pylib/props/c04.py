"""C04 -- live replication converges: every node ends equal to the primary."""
import json
import os
import random

import cluster
import common
import datapath
import nuncluster
import render

PROP = "C04"
CHECKS = ["CONV", "PEND"]

DATA_OPS = [
    {"op": "set", "k": "k1", "v": "val one"},
    {"op": "set", "k": "k2", "v": "7"},
    {"op": "set-safe", "k": "k1", "v": "sv", "ver": 0},
    {"op": "set-safe", "k": "k1", "v": "sv9", "ver": 9},
    {"op": "increment", "k": "k2", "n": 3},
    {"op": "increment", "k": "cnt", "n": 1},
    {"op": "remove", "k": "k1"},
    {"op": "remove", "k": "nokey"},
    {"op": "increment", "k": "k2", "n": 0},       # not a no-op: the version advances
    {"op": "increment", "k": "fresh", "n": 0},    # creates the key with value 0
    {"op": "increment", "k": "k2", "n": -12},
]
ADMIN_OPS = [
    {"op": "create-user", "u": "u1", "v": "ut", "k": "$$user_u1"},
    {"op": "set-permissions", "u": "u1", "v": "rw k*", "k": "$$permission_$u1"},
    {"op": "snapshot", "reclaim": False, "names": ["d"]},
    {"op": "create-db", "d": "e", "tok": "tok2", "strategy": "newer"},
]


def build_case(cid, nodes, body, seed, policy, interleave=False, strategy="none"):
    ops = cluster.setup_ops(nodes, strategy=strategy) + body
    return {"id": cid, "nodes": nodes, "pids": [100 + 10 * i for i in range(len(nodes))],
            "formation": "direct", "policy": policy, "seed": seed, "interleave": interleave, "ops": ops,
            "budget": 4000, "strategy": strategy}


def cases_for(tier, seed):
    rnd = random.Random(seed)
    cases = []
    n = 0
    for nodes in (["n1", "n2"], ["n1", "n2", "n3"]):
        # every operation kind at every node, on top of two existing keys
        base = [cluster.client_op(nodes[0], nodes, DATA_OPS[0]), cluster.client_op(nodes[0], nodes, DATA_OPS[1])]
        for node in nodes:
            for op in DATA_OPS:
                cases.append(build_case("s%d" % n, nodes, base + [cluster.client_op(node, nodes, op)], seed + n,
                                        "random" if n % 2 else "fifo"))
                n += 1
            for op in ADMIN_OPS:
                if op["op"] == "create-db" and node != nodes[0]:
                    continue
                cases.append(build_case("s%d" % n, nodes, base + [cluster.client_op(node, nodes, op, c="a")],
                                        seed + n, "random" if n % 2 else "fifo"))
                n += 1
    # seeded sequences of 2-8 operations at arbitrary nodes, random FIFO-respecting delivery
    for i in range(250 if tier == "quick" else 3000):
        nodes = rnd.choice([["n1", "n2"], ["n1", "n2", "n3"]])
        body = []
        for _ in range(rnd.randint(2, 8)):
            node = rnd.choice(nodes)
            if rnd.random() < 0.2:
                op = rnd.choice(ADMIN_OPS[:3])
                body.append(cluster.client_op(node, nodes, op, c="a"))
            else:
                body.append(cluster.client_op(node, nodes, rnd.choice(DATA_OPS)))
        cases.append(build_case("r%d" % i, nodes, body, seed + i, "random",
                                strategy=rnd.choice(["none", "none", "newer"])))
    # keys written by a snapshot on every node, then removes (tombstones), repeated removes, writes and increments
    # on top of the tombstones, at arbitrary nodes
    pops = [{"op": "remove", "k": "k1"}, {"op": "remove", "k": "k2"}, {"op": "set", "k": "k1", "v": "again"},
            {"op": "set-safe", "k": "k1", "v": "sv2", "ver": 2}, {"op": "set-safe", "k": "k1", "v": "sv3", "ver": 3},
            {"op": "increment", "k": "k2", "n": 4}, {"op": "set-safe", "k": "k1", "v": "sv1", "ver": 1}]
    for i in range(140 if tier == "quick" else 1500):
        nodes = rnd.choice([["n1", "n2"], ["n1", "n2", "n3"]])
        body = [cluster.client_op(nodes[0], nodes, DATA_OPS[0]), cluster.client_op(nodes[0], nodes, DATA_OPS[1]),
                cluster.client_op(nodes[0], nodes, {"op": "snapshot", "reclaim": False, "names": ["d"]}, c="a")]
        body += [{"node": x, "tick": x, "line": "<declutter %s>" % x, "op": {"op": "tick"}} for x in nodes]
        first = rnd.choice(pops[:2])
        body.append(cluster.client_op(rnd.choice(nodes), nodes, first))
        for _ in range(rnd.randint(1, 4)):
            body.append(cluster.client_op(rnd.choice(nodes), nodes, first if rnd.random() < 0.35 else rnd.choice(pops)))
        if rnd.random() < 0.3:
            body.append(cluster.client_op(nodes[0], nodes, {"op": "snapshot", "reclaim": False, "names": ["d"]}, c="a"))
            body += [{"node": x, "tick": x, "line": "<declutter %s>" % x, "op": {"op": "tick"}} for x in nodes]
            body.append(cluster.client_op(rnd.choice(nodes), nodes, rnd.choice(pops)))
        cases.append(build_case("t%d" % i, nodes, body, seed + i, "random", strategy=rnd.choice(["none", "none", "newer"])))
    # a second database, snapshotted by name from an administrator session that has the first one selected; declutter
    # on every node; then its key is removed and written again (judged against the tombstone everywhere)
    for i, nodes in enumerate((["n1", "n2"], ["n1", "n2", "n3"], ["n1", "n2"], ["n1", "n2", "n3"])):
        names = ["e"] if i < 2 else ["e", "d"]
        body = [cluster.client_op(nodes[0], nodes, {"op": "create-db", "d": "e", "tok": "tok2", "strategy": "none", "explicit_strategy": True}, c="a"),
                {"node": nodes[0], "c": "ce", "line": "use-db e tok2"},
                cluster.client_op(nodes[0], nodes, {"op": "set", "k": "ek", "v": "one"}, c="ce", db="e"),
                cluster.client_op(nodes[0], nodes, DATA_OPS[0]),
                cluster.client_op(nodes[0], nodes, {"op": "snapshot", "reclaim": False, "names": names}, c="a")]
        body += [{"node": x, "tick": x, "line": "<declutter %s>" % x, "op": {"op": "tick"}} for x in nodes]
        body += [cluster.client_op(nodes[0], nodes, {"op": "remove", "k": "ek"}, c="ce", db="e"),
                 cluster.client_op(nodes[0], nodes, {"op": "set", "k": "ek", "v": "two"}, c="ce", db="e"),
                 cluster.client_op(nodes[0], nodes, {"op": "remove", "k": "k1"}),
                 cluster.client_op(nodes[0], nodes, {"op": "set", "k": "k1", "v": "back"})]
        cases.append(build_case("u%d" % i, nodes, body, seed + i, "fifo" if i % 2 else "random"))
    # two concurrent clients on the primary, deliveries interleaved with the commands
    for i in range(120 if tier == "quick" else 1500):
        nodes = rnd.choice([["n1", "n2"], ["n1", "n2", "n3"]])
        body = []
        for _ in range(rnd.randint(2, 6)):
            body.append(cluster.client_op(nodes[0], nodes, rnd.choice(DATA_OPS), c=rnd.choice(["c", "c2"])))
        c = build_case("i%d" % i, nodes, [{"node": nodes[0], "c": "c2", "line": "use-db d tok"}] + body,
                       seed + i, "random", interleave=True)
        c["sequential_prefix"] = len(c["ops"]) - len(body)
        cases.append(c)
    return cases


MODEL_OPS = [
    {"op": "set", "k": "k", "v": "a", "ver": -1},
    {"op": "set", "k": "k", "v": "b", "ver": 1},      # versioned, current
    {"op": "set", "k": "k", "v": "c", "ver": 0},      # versioned, stale
    {"op": "increment", "k": "c", "n": 2},
    {"op": "remove", "k": "k"},
    {"op": "increment", "k": "c", "n": 0},
    {"op": "increment", "k": "z", "n": 0},            # a key that does not exist yet
]


def model_scenarios(tier):
    """NunCluster scenarios: one command of every kind at every node (all delivery orders),
    two commands (properties checked exhaustively on the state graph, schedules simulated)."""
    one, two = [], []
    n = 0
    for nodes in (["n1", "n2"], ["n1", "n2", "n3"]):
        for node in nodes:
            for op in MODEL_OPS:
                one.append(nuncluster.Scenario("o%d" % n, nodes, {"k": ("v0", 1), "c": ("5", 0)}, [dict(op, node=node)]))
                n += 1
    pairs = [(0, 4), (3, 3), (1, 2), (4, 0), (2, 3)]
    for nodes in (["n1", "n2"], ["n1", "n2", "n3"]):
        for a, b in pairs:
            for na, nb in ((nodes[0], nodes[0]), (nodes[0], nodes[-1]), (nodes[-1], nodes[0])):
                two.append(nuncluster.Scenario("p%d" % n, nodes, {"k": ("v0", 1), "c": ("5", 0)},
                                               [dict(MODEL_OPS[a], node=na), dict(MODEL_OPS[b], node=nb)]))
                n += 1
    # keys that a snapshot has written: a remove leaves a tombstone (version advanced) instead of dropping the entry,
    # later removes / writes / increments are judged against it on every node
    def persisted(nodes):
        return [{"node": nodes[0], "op": "snapshot", "k": "", "v": ""}] + [{"node": x, "op": "tick", "k": "", "v": ""} for x in nodes]
    tails = [[4, 4], [4, 0], [4, 1], [4, 2], [4, 3], [4, 4, 1], [3, 4, 5]]
    for nodes in (["n1", "n2"], ["n1", "n2", "n3"]):
        for t in tails:
            for node in (nodes[0], nodes[-1]):
                two.append(nuncluster.Scenario("t%d" % n, nodes, {"k": ("v0", 1), "c": ("5", 0)},
                                               persisted(nodes) + [dict(MODEL_OPS[i], node=(node if j % 2 == 0 else nodes[0]))
                                                                   for j, i in enumerate(t)]))
                n += 1
    return one, two


def model_part(tier, seed, wd, res):
    import random as _r
    rnd = _r.Random(seed)
    one, two = model_scenarios(tier)
    s1, g1, d1 = nuncluster.explore(one, wd, cap=(12 if tier == "quick" else 300), rnd=rnd)
    # two commands: the properties on the whole state graph (history hidden), schedules by simulation
    if tier == "quick":
        two = two[::3]
    _, g2, d2 = nuncluster.explore(two, os.path.join(wd, "chk"), generate=False, timeout=1500)
    s2, g3, d3 = nuncluster.explore(two, os.path.join(wd, "sim"), simulate=(6 if tier == "quick" else 60))
    cases = []
    by = {s.sid: s for s in one + two}
    for sid, scheds in list(s1.items()) + list(s2.items()):
        for i, sch in enumerate(scheds):
            cases.append(by[sid].sim_case("%s#%d" % (sid, i), sch, seed + i))
    res.coverage.update({"states": d1 + d2 + d3, "transitions": g1 + g2 + g3,
                         "model": "NunCluster.tla: %d one-command scenarios (all delivery orders), %d two-command "
                                  "scenarios (exhaustive on the state graph incl. liveness EventuallyQuiet; "
                                  "schedules by simulation)" % (len(one), len(two)),
                         "model_generated_cases": len(cases)})
    return cases


def schedule_stats(raws):
    """how faithfully the simulator followed the TLC-generated schedules (model drift)"""
    runs = used = drift = 0
    for rf in raws:
        for line in open(rf):
            if '"ev":"end"' in line and "#" in line:
                e = json.loads(line)
                if "#" in e["run"]:
                    runs += 1
                    used += e.get("schedule_used", 0)
                    drift += e.get("drift", 0)
    return {"schedule_replays": runs, "schedule_steps_followed": used - drift, "schedule_steps_drifted": drift}


def run(tier, seed, prop=PROP, checks=CHECKS):
    res = common.Result(prop, tier, seed, "model_checking")
    wd = common.workdir(prop)
    devs, known = common.load_findings(prop)
    cases = model_part(tier, seed, wd, res) + cases_for(tier, seed)
    for c in cases:
        c["trace_state"] = True
        c["trace_data"] = True
    raws = common.run_cases_parallel("cluster", cases, wd, procs=12, timeout=3000,
                                     env={"NUN_ELECTION_TIMEOUT": "10"})
    norm_path = os.path.join(wd, "norm.ndjson")
    cluster.normalize(raws, norm_path)
    res.coverage.update(schedule_stats(raws))
    # implementation -> spec: every run within the model's vocabulary follows NunCluster step by step
    res.coverage.update(datapath.check(raws, {c["id"]: c for c in cases}, wd))
    out = common.validate_into(res, norm_path, "Trace_Cluster.tla", "Trace_Cluster.cfg", checks, devs,
                               "/dev/null", wd, {c["id"]: c for c in cases})
    res.coverage.update({
        "reference": "Trace_Cluster.tla (ClusterMonitor)",
        "traces_validated_against_impl": out["runs"], "events_validated": out["events"],
        "cases": len(cases),
        "samples": [[o["line"] + " @" + o["node"] for o in cases[len(cases) // 3]["ops"]]],
        "exhaustive": False,
        "rule": "clusters of 2 and 3 real nodes formed through the real supervisor / link handshake; every "
                "operation kind at every node on top of existing keys; seeded sequences of 2-8 operations "
                "at arbitrary nodes (none and newer databases); delivery orders: FIFO and seeded random, "
                "each link FIFO; at every quiescence Trace_Cluster compares every node with the primary",
    })
    res.assumptions = ["links are simulated FIFOs in place of TCP; per-line transport glue re-implemented in the harness",
                       "roles established directly (primary = n1) for this property; elections are C07",
                       "$connections is node-local and not compared"]
    return res, known
