"""C04 -- live replication converges: every node ends equal to the primary."""
import json
import os
import random

import cluster
import common
import render

PROP = "C04"
CHECKS = ["CONV", "PEND"]

DATA_OPS = [
    {"op": "set", "k": "k1", "v": "val one"},
    {"op": "set", "k": "k2", "v": "7"},
    {"op": "set-safe", "k": "k1", "v": "sv", "ver": 0},
    {"op": "set-safe", "k": "k1", "v": "sv9", "ver": 9},
    {"op": "increment", "k": "k2", "n": 3},
    {"op": "increment", "k": "cnt", "n": 1},
    {"op": "remove", "k": "k1"},
    {"op": "remove", "k": "nokey"},
]
ADMIN_OPS = [
    {"op": "create-user", "u": "u1", "v": "ut", "k": "$$user_u1"},
    {"op": "set-permissions", "u": "u1", "v": "rw k*", "k": "$$permission_$u1"},
    {"op": "snapshot", "reclaim": False, "names": ["d"]},
    {"op": "create-db", "d": "e", "tok": "tok2", "strategy": "newer"},
]


def build_case(cid, nodes, body, seed, policy, interleave=False, strategy="none"):
    ops = cluster.setup_ops(nodes, strategy=strategy) + body
    return {"id": cid, "nodes": nodes, "pids": [100 + 10 * i for i in range(len(nodes))],
            "formation": "direct", "policy": policy, "seed": seed, "interleave": interleave, "ops": ops,
            "budget": 4000}


def cases_for(tier, seed):
    rnd = random.Random(seed)
    cases = []
    n = 0
    for nodes in (["n1", "n2"], ["n1", "n2", "n3"]):
        # every operation kind at every node, on top of two existing keys
        base = [cluster.client_op(nodes[0], nodes, DATA_OPS[0]), cluster.client_op(nodes[0], nodes, DATA_OPS[1])]
        for node in nodes:
            for op in DATA_OPS:
                cases.append(build_case("s%d" % n, nodes, base + [cluster.client_op(node, nodes, op)], seed + n,
                                        "random" if n % 2 else "fifo"))
                n += 1
            for op in ADMIN_OPS:
                if op["op"] == "create-db" and node != nodes[0]:
                    continue
                cases.append(build_case("s%d" % n, nodes, base + [cluster.client_op(node, nodes, op, c="a")],
                                        seed + n, "random" if n % 2 else "fifo"))
                n += 1
    # seeded sequences of 2-8 operations at arbitrary nodes, random FIFO-respecting delivery
    for i in range(250 if tier == "quick" else 3000):
        nodes = rnd.choice([["n1", "n2"], ["n1", "n2", "n3"]])
        body = []
        for _ in range(rnd.randint(2, 8)):
            node = rnd.choice(nodes)
            if rnd.random() < 0.2:
                op = rnd.choice(ADMIN_OPS[:3])
                body.append(cluster.client_op(node, nodes, op, c="a"))
            else:
                body.append(cluster.client_op(node, nodes, rnd.choice(DATA_OPS)))
        cases.append(build_case("r%d" % i, nodes, body, seed + i, "random",
                                strategy=rnd.choice(["none", "none", "newer"])))
    # two concurrent clients on the primary, deliveries interleaved with the commands
    for i in range(120 if tier == "quick" else 1500):
        nodes = rnd.choice([["n1", "n2"], ["n1", "n2", "n3"]])
        body = []
        for _ in range(rnd.randint(2, 6)):
            body.append(cluster.client_op(nodes[0], nodes, rnd.choice(DATA_OPS), c=rnd.choice(["c", "c2"])))
        c = build_case("i%d" % i, nodes, [{"node": nodes[0], "c": "c2", "line": "use-db d tok"}] + body,
                       seed + i, "random", interleave=True)
        c["sequential_prefix"] = len(c["ops"]) - len(body)
        cases.append(c)
    return cases


def run(tier, seed, prop=PROP, checks=CHECKS):
    res = common.Result(prop, tier, seed, "model_checking")
    wd = common.workdir(prop)
    devs, known = common.load_findings(prop)
    cases = cases_for(tier, seed)
    raws = common.run_cases_parallel("cluster", cases, wd, procs=12, timeout=3000,
                                     env={"NUN_ELECTION_TIMEOUT": "10"})
    norm_path = os.path.join(wd, "norm.ndjson")
    cluster.normalize(raws, norm_path)
    out = common.validate_into(res, norm_path, "Trace_Cluster.tla", "Trace_Cluster.cfg", checks, devs,
                               "/dev/null", wd, {c["id"]: c for c in cases})
    res.coverage.update({
        "states": out["states"], "transitions": out["events"],
        "model": "Trace_Cluster.tla (ClusterMonitor reference)",
        "traces_validated_against_impl": out["runs"], "events_validated": out["events"],
        "cases": len(cases),
        "samples": [[o["line"] + " @" + o["node"] for o in cases[len(cases) // 3]["ops"]]],
        "exhaustive": False,
        "rule": "clusters of 2 and 3 real nodes formed through the real supervisor / link handshake; every "
                "operation kind at every node on top of existing keys; seeded sequences of 2-8 operations "
                "at arbitrary nodes (none and newer databases); delivery orders: FIFO and seeded random, "
                "each link FIFO; at every quiescence Trace_Cluster compares every node with the primary",
    })
    res.assumptions = ["links are simulated FIFOs in place of TCP; per-line transport glue re-implemented in the harness",
                       "roles established directly (primary = n1) for this property; elections are C07",
                       "$connections is node-local and not compared"]
    return res, known
