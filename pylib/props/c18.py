"""C18 -- S3 storage strategies restore what the disk strategy would."""
import json
import os
import random
import shutil
from concurrent.futures import ThreadPoolExecutor

import common
from props import c06

PROP = "C18"
CONFIGS = [("s3", 1), ("s3_patition", 1), ("s3_patition", 3), ("s3_patition", 10)]


def run_config(strategy, partitions, cases, wd, timeout=2400):
    sub = os.path.join(wd, "%s_%d" % (strategy, partitions))
    os.makedirs(sub, exist_ok=True)
    procs = 3
    chunks = [cases[i::procs] for i in range(procs)]
    raws = []

    def one(i):
        cp, tp = os.path.join(sub, "cases-%d.ndjson" % i), os.path.join(sub, "raw-%d.ndjson" % i)
        with open(cp, "w") as f:
            for c in chunks[i]:
                f.write(json.dumps(c) + "\n")
        common.run_harness("s3", [strategy, str(partitions), cp, tp, os.path.join(sub, "dirs-%d" % i)], timeout=timeout)
        shutil.rmtree(os.path.join(sub, "dirs-%d" % i), ignore_errors=True)
        return tp
    with ThreadPoolExecutor(max_workers=procs) as ex:
        raws = list(ex.map(one, range(procs)))
    return raws


def run(tier, seed):
    res = common.Result(PROP, tier, seed, "model_checking")
    wd = common.workdir(PROP)
    devs, known = common.load_findings(PROP)
    tmp = common.Result(PROP, tier, seed, "model_checking")
    base = [c06.fix_sessions(c) for c in c06.model_cases("quick", wd, tmp)]
    rnd = random.Random(seed)
    base = rnd.sample(base, 150 if tier == "quick" else 1500) + c06.random_cases(40 if tier == "quick" else 600, seed)
    # a second database whose name starts with the first one's, snapshotted together with it: "every database keeps
    # its own name, identifier and conflict strategy"
    base += [c06.with_neighbour(c) for c in base[:50 if tier == "quick" else 500]]
    # stub faults: nth PUT fails once / always
    faulty = []
    for i, c in enumerate(base[:60 if tier == "quick" else 500]):
        f = dict(c)
        f["id"] = "f" + c["id"]
        # four kinds of fault: a single refused request (the SDK retries it itself), every request from
        # the n-th on, every SDK attempt of the n-th PutObject operation (the node's own retry must
        # upload the same object again), every operation from the n-th on
        kind = i % 5
        if kind == 4:
            # every upload of one object (the n-th distinct one of the history) is refused, however often
            # it is tried again, while the other objects go through: must be reported
            f["fail_path_nth"] = 1 + (i // 5) % 3
        elif kind < 2:
            f["fail_put_nth"] = 1 + (i // 4) % 4
            f["fail_put_always"] = kind == 1
        else:
            f["fail_op_nth"] = 1 + (i // 4) % 4
            f["fail_op_always"] = kind == 3
        faulty.append(f)
    all_raws = []
    with ThreadPoolExecutor(max_workers=4) as ex:
        futs = [ex.submit(run_config, s, p, [dict(c, id="%s_%d_%s" % (s, p, c["id"]), meta={"s3": s}) for c in base + faulty], wd)
                for s, p in CONFIGS]
        for f in futs:
            all_raws += f.result()
    norm_path = os.path.join(wd, "norm.ndjson")
    common.normalize_all(all_raws, norm_path)
    out = common.validate_into(res, norm_path, "Trace_Restore.tla", "Trace_Restore.cfg", ["S3"], devs, "/dev/null", wd, None)
    res.coverage.update({
        "states": tmp.coverage.get("states", 1), "transitions": tmp.coverage.get("transitions", 1),
        "model": "NunDisk.tla histories re-used; reference Trace_Restore",
        "traces_validated_against_impl": out["runs"], "events_validated": out["events"],
        "configurations": ["%s/%d" % c for c in CONFIGS], "cases_per_configuration": len(base) + len(faulty),
        "samples": [[s.get("line", s.get("op", {}).get("op")) for s in base[0]["steps"]]],
        "exhaustive": False,
        "rule": "the operation / snapshot / restart histories of C06 (a sample of the NunDisk transition cover "
                "plus seeded random ones) run with NUN_STORAGE_STRATEGY = s3 and s3_patition (1, 3, 10 "
                "partitions) against an in-process S3 stub (PutObject / GetObject / ListObjectsV2), also with "
                "faults: the n-th PUT request refused once (hidden by the SDK's own retry) or from then on, every SDK "
                "attempt of the n-th PutObject operation refused (the node's retry must upload the same object "
                "again) or of every operation from then on (must be reported), every upload of one particular object refused while the "
                "others succeed (must be reported); Trace_Restore: the dump after every restart equals the "
                "dump at the last completed snapshot incl. id and strategy",
    })
    res.assumptions = ["S3 stub with strong read-after-write consistency; the SDK's own retries are opaque",
                       "one harness process per configuration (the strategy is a process-wide lazy static)"]
    return res, known
