"""C16 -- after any restart the oplog is either discarded or still decodes correctly."""
import itertools
import json
import os
import random

import common
import tlc

PROP = "C16"
DBS = ["da", "db", "dc", "dd"]


def steps_prefix():
    return [{"c": "a", "line": "auth admin adminpwd"}]


def gen_case(cid, rnd, n_dbs, length, crash):
    st = steps_prefix()
    created = []
    sel = {}
    nk = 0
    for _ in range(length):
        x = rnd.random()
        if (x < 0.25 and len(created) < n_dbs) or not created:
            d = DBS[len(created)]
            created.append(d)
            st.append({"c": "a", "line": "create-db %s tok" % d})
            st.append({"c": "s_" + d, "line": "use-db %s tok" % d})
        elif x < 0.31:
            # a create-db that is refused (the name exists): nothing may change, identifiers least of all
            st.append({"c": "a", "line": "create-db %s tok" % rnd.choice(created + ["$admin"])})
        elif x < 0.6:
            d = rnd.choice(created)
            nk += 1
            key = rnd.choice(["k%d" % nk, "shared", "k1"])
            st.append({"c": "s_" + d, "line": "set %s v%d" % (key, nk)})
        elif x < 0.7:
            d = rnd.choice(created)
            st.append({"c": "s_" + d, "line": "remove %s" % rnd.choice(["shared", "k1"])})
        elif x < 0.85:
            sub = [d for d in created if rnd.random() < 0.5] or [rnd.choice(created)]
            st.append({"c": "a", "line": "snapshot false %s" % "|".join(sub)})
            st.append({"tick": 1})
        elif x < 0.93:
            if rnd.random() < 0.4:
                st.append({"shutdown": 1})
            st.append({"restart": 1})
            st.append({"c": "a", "line": "auth admin adminpwd"})
            created_alive = created  # sessions must log in again; databases that were never snapshotted are gone
            for d in created_alive:
                st.append({"c": "s_" + d, "line": "use-db %s tok" % d})
        else:
            st.append({"tick": 1})
    return {"id": cid, "steps": st, "crash": crash}


def chain_case(cid, pattern, crash):
    """structured histories: a database that was snapshotted once, then per letter of `pattern`
    n = first write of a new key, w = another write of a key that is already registered, s = snapshot,
    k = kill + restart, c = clean shutdown + restart"""
    st = steps_prefix() + [{"c": "a", "line": "create-db da tok"}, {"c": "s_da", "line": "use-db da tok"},
                           {"c": "s_da", "line": "set k0 v0"}, {"c": "a", "line": "snapshot false da"}, {"tick": 1}]
    nk = 0
    for ch in pattern:
        if ch == "n":
            nk += 1
            st.append({"c": "s_da", "line": "set n%d v%d" % (nk, nk)})
        elif ch == "w":
            st.append({"c": "s_da", "line": "set k0 w%d" % len(st)})
        elif ch == "s":
            st += [{"c": "a", "line": "snapshot false da"}, {"tick": 1}]
        else:
            if ch == "c":
                st.append({"shutdown": 1})
            st += [{"restart": 1}, {"c": "a", "line": "auth admin adminpwd"}, {"c": "s_da", "line": "use-db da tok"}]
    return {"id": cid, "steps": st, "crash": crash}


def gap_cases():
    """databases of which only some are snapshotted (the restart leaves a gap in the identifiers), a kill with a valid
    log, then create-db commands that are refused (existing name) or accepted (new name), writes in between"""
    cases = []
    for n, (snap, after) in enumerate(itertools.product(["db|dc", "dc", "da|dc", "db"],
                                                          [["db"], ["dc"], ["$admin"], ["da"], ["db", "dd"], ["dd", "dc"]])):
        st = steps_prefix()
        for d in ("da", "db", "dc"):
            st += [{"c": "a", "line": "create-db %s tok" % d}, {"c": "s_" + d, "line": "use-db %s tok" % d},
                   {"c": "s_" + d, "line": "set k%s v" % d}]
        st += [{"c": "a", "line": "snapshot false %s" % snap}, {"tick": 1}]
        for d in snap.split("|"):
            st.append({"c": "s_" + d, "line": "set k%s again" % d})      # a registered key: the log stays valid
        st += [{"restart": 1}, {"c": "a", "line": "auth admin adminpwd"}]
        for d in snap.split("|"):
            st.append({"c": "s_" + d, "line": "use-db %s tok" % d})
        for d in after:
            st.append({"c": "a", "line": "create-db %s tok" % d})
            st.append({"c": "s_" + snap.split("|")[-1], "line": "set k%s third" % snap.split("|")[-1]})
        cases.append({"id": "g%d" % n, "steps": st, "crash": False})
    return cases


def cases_for(tier, seed):
    rnd = random.Random(seed)
    cases = gap_cases()
    n = 0
    # every history of new-key / snapshot / kill / clean-restart steps up to a length
    for length in range(1, 5 if tier == "quick" else 7):
        for pat in itertools.product("nwskc", repeat=length):
            pat = "".join(pat)
            if ("n" not in pat and "w" not in pat) or ("k" not in pat and "c" not in pat):
                continue
            # short histories also with a directory image after every file-system call (a kill there)
            cases.append(chain_case("c%s" % pat, pat, crash=(length <= (3 if tier == "quick" else 4))))
    for n_dbs in (1, 2, 3, 4):
        for i in range(25 if tier == "quick" else 300):
            cases.append(gen_case("h%d" % n, rnd, n_dbs, rnd.randint(3, 9 if tier == "quick" else 14), crash=(i % 3 == 0)))
            n += 1
    return cases


def run(tier, seed):
    res = common.Result(PROP, tier, seed, "fault_enumeration")
    wd = common.workdir(PROP)
    devs, known = common.load_findings(PROP)
    # design level: the key-identifier / flag-file protocol with a kill between any two file-system steps
    cfg = "NunIds.cfg" if tier == "quick" else "NunIds_thorough.cfg"
    rc, mout, secs = tlc.run_tlc("NunIds.tla", cfg, workers=1, timeout=1800, heap="6g")   # (one worker: breadth-first order, reproducible with the hidden history bound)
    if "No error has been found" not in mout:
        raise common.ToolError("NunIds (model of the repaired code) does not satisfy Decodes:\n" + mout[-3000:])
    gen, distinct = tlc.stats(mout)
    # the same model with the repair of invalidate_oplog undone must show the recorded (fixed) finding:
    # a check of the model's sensitivity, not of the code
    rc2, mout2, _ = tlc.run_tlc("NunIds.tla", "NunIds_unfixed.cfg", workers=2, timeout=600, heap="3g")
    if "Invariant Decodes is violated" not in mout2:
        raise common.ToolError("NunIds with Fixed = FALSE no longer reproduces finding F34:\n" + mout2[-2000:])
    cases = cases_for(tier, seed)
    raws = common.run_cases_parallel("ids", cases, wd, procs=14, timeout=3000)
    norm_path = os.path.join(wd, "norm.ndjson")
    checks = images = 0
    sites = set()
    with open(norm_path, "w") as g:
        for rf in raws:
            for line in open(rf):
                ev = json.loads(line)
                if ev["ev"] == "tool_error":
                    raise common.ToolError("ids harness: %s" % ev.get("msg"))
                ev.setdefault("i", -1)
                if ev["ev"] == "check":
                    checks += 1
                    if ev["kind"] == "image":
                        images += 1
                        sites.add(ev.get("site"))
                g.write(json.dumps(ev) + "\n")
    out = common.validate_into(res, norm_path, "Trace_Ids.tla", "Trace_Ids.cfg", [], devs, "/dev/null", wd,
                               {c["id"]: c for c in cases})
    res.coverage.update({
        "evaluations": checks, "distinct_nontrivial": checks,
        "model": "NunIds.tla/%s: %d distinct states, invariant Decodes (every history of first writes of new keys, "
                 "rewrites, key-map snapshots in two steps, kills between any two file-system steps and start-ups)"
                 % (cfg, distinct),
        "model_states": distinct, "model_transitions": gen,
        "rule": "every history of {first write of a new key, rewrite of a registered key, snapshot, kill + restart, clean shutdown + restart} up to "
                "length 4 (6 thorough) on a snapshotted database; seeded histories of {create-db, first write of a new key, write of a shared key name, remove, "
                "snapshot of a random subset + declutter tick, clean shutdown, restart} over 1-4 databases on a "
                "node with its real replication loop (key ids, oplog, oplog-valid flag); the oplog is decoded "
                "through a freshly started node after every restart, at the end, through the RUNNING node's maps after every "
                "create-db (accepted or refused), and -- for a third of the "
                "histories -- on the directory image taken after every file-system call of key-id "
                "registration, flag update, key-map write, oplog append and snapshot (%d images, %d sites); "
                "each decode is one evaluation" % (images, len(sites)),
        "samples": [[s.get("line", list(s.keys())[0]) for s in cases[3]["steps"]]],
        "crash_sites": sorted(x for x in sites if x),
        "traces_validated_against_impl": out["runs"], "cases": len(cases), "images": images,
        "exhaustive": False,
    })
    res.assumptions = ["kill = process kill between file-system calls; single node (records are written by the "
                       "replication loop whatever the role)"]
    return res, known
