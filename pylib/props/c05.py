"""C05 -- a (re)joining node resynchronises to exactly the primary's data."""
import os
import random

import catchup
import recv
import cluster
import common
import render

PROP = "C05"
CHECKS = ["CONV"]

VALUES = ["x", "two words", "12 monkeys", "", "7", "plain"]
KEYS = ["k1", "k2", "k3"]


def op_at_primary(nodes, op, c="c", db="d"):
    return cluster.client_op(nodes[0], nodes, op, c=c, db=db)


def rnd_op(rnd, dbs):
    db = rnd.choice(dbs)
    x = rnd.random()
    k = rnd.choice(KEYS)
    if x < 0.55:
        return db, {"op": "set", "k": k, "v": rnd.choice(VALUES)}
    if x < 0.7:
        return db, {"op": "remove", "k": k}
    if x < 0.85:
        return db, {"op": "increment", "k": "cnt", "n": rnd.choice([1, 5])}
    return db, {"op": "set-safe", "k": k, "v": rnd.choice(VALUES), "ver": rnd.choice([0, 3, 9])}


def build(cid, rnd, seed, mode, n_before, n_away, n_during, newdb_away, snapshot_before, lock_yields=False, hot=False):
    """mode: 'empty' (wiped disk), 'snapshot' (older snapshot, oplog invalid or not), 'oplog' (clean stop)"""
    nodes = ["n1", "n2", "n3"] if seed % 2 else ["n1", "n2"]
    ops = cluster.setup_ops(nodes)
    dbs = ["d"]
    sess = {"d": "c"}

    def do(db, op):
        o = cluster.client_op("n1", nodes, op, c=sess[db], db=db)
        ops.append(o)
    for _ in range(n_before):
        do(*rnd_op(rnd, dbs))
    if snapshot_before:
        ops.append(cluster.client_op("n1", nodes, {"op": "snapshot", "reclaim": False, "names": ["d"]}, c="a"))
        ops.append({"node": "n2", "tick": "n2", "line": "<declutter n2>", "op": {"op": "tick"}})
        ops.append({"node": "n1", "tick": "n1", "line": "<declutter n1>", "op": {"op": "tick"}})
    ops.append({"node": "n2", "kill": "n2", "line": "<kill n2>", "op": {"op": "kill"}})
    if newdb_away:
        strategy = rnd.choice(["newer", "arbiter", "none"])
        ops.append(cluster.client_op("n1", nodes, {"op": "create-db", "d": "e", "tok": "tok2", "strategy": strategy,
                                                  "explicit_strategy": True}, c="a"))
        ops.append({"node": "n1", "c": "ce", "line": "use-db e tok2"})
        dbs = ["d", "e"]
        sess["e"] = "ce"
    for j in range(n_away):
        if hot:
            # the race family: plain writes of two keys, so that the catch-up carries them
            do("d", {"op": "set", "k": KEYS[j % 2], "v": "away%d" % j})
        else:
            do(*rnd_op(rnd, dbs))
    restart = {"node": "n2", "restart": "n2", "wipe": mode == "empty", "line": "<restart n2 %s>" % mode,
               "op": {"op": "restart"}}
    ops.append(restart)
    seq_prefix = len(ops)
    during = []
    for j in range(n_during):
        db, op = ("d", {"op": "set", "k": KEYS[j % 2], "v": "live%d" % j}) if hot else rnd_op(rnd, dbs)
        during.append(cluster.client_op("n1", nodes, op, c=sess[db], db=db))
    case = {"id": cid, "nodes": nodes, "pids": [100, 200, 300][:len(nodes)], "formation": "direct", "policy": "random",
            "seed": seed, "ops": ops + during, "budget": 6000,
            "interleave": True, "sequential_prefix": seq_prefix - 1, "lock_yields": lock_yields,
            "meta": {"mode": mode, "before": n_before, "away": n_away, "during": n_during,
                     "newdb": newdb_away, "snapshot": snapshot_before, "lock_yields": lock_yields}}
    # the restart itself and the writes during the synchronisation are interleaved with deliveries
    return case


def cases_for(tier, seed):
    rnd = random.Random(seed)
    cases = []
    n = 0
    reps = 2 if tier == "quick" else 30
    for mode in ("empty", "snapshot", "oplog"):
        for total in range(1, 7 if tier == "quick" else 11):
            for r in range(reps):
                cut1 = rnd.randint(0, total)
                cut2 = rnd.randint(cut1, total)
                cases.append(build("j%d" % n, rnd, seed + n, mode, cut1, cut2 - cut1, total - cut2,
                                   newdb_away=rnd.random() < 0.4, snapshot_before=(mode != "empty" and rnd.random() < 0.7)))
                n += 1
    # the race of NunSync.tla: the steps of the primary's replication loop and supervisor park before every
    # acquisition of the cluster-state lock, live writes of the keys the catch-up carries are interleaved at random
    for mode in ("oplog", "snapshot", "empty"):
        for r in range(12 if tier == "quick" else 150):
            cases.append(build("y%d" % n, rnd, seed + n, mode, rnd.randint(0, 2), rnd.randint(1, 3), rnd.randint(1, 3),
                               newdb_away=False, snapshot_before=(mode != "empty"), lock_yields=True, hot=True))
            n += 1
    return cases


def design_level(wd):
    """NunSync: the race of the catch-up with live replication at the granularity of the cluster-state lock.  TLC on
    both lock scopes (the pinned one must hold, the builder outside the lock must lose a write: sensitivity of the
    model, not a verdict on the code); Apalache: the inductive invariant of the pinned scope for any number of writes."""
    import subprocess
    import tlc
    rc, out, _ = tlc.run_tlc("NunSync.tla", "NunSync.cfg", workers=2, timeout=600, heap="2g")
    if "No error has been found" not in out:
        raise common.ToolError("NunSync (pinned lock scope) does not satisfy NoLostWrite / EventuallyEqual:\n" + out[-2000:])
    gen, distinct = tlc.stats(out)
    rc2, out2, _ = tlc.run_tlc("NunSync.tla", "NunSync_unlocked.cfg", workers=2, timeout=600, heap="2g")
    if "Invariant NoLostWrite is violated" not in out2:
        raise common.ToolError("NunSync with the builder outside the lock no longer loses a write:\n" + out2[-2000:])
    adir = os.path.join(tlc.SPEC, "apalache")
    obligations = []
    for init, inv, length in (("Init", "IndInv", 0), ("IndInit", "IndInv", 1), ("IndInit", "NoLostWrite", 0)):
        p = subprocess.run(["timeout", "900", "apalache-mc", "check", "--cinit=ConstInit", "--init=" + init, "--inv=" + inv,
                            "--length=%d" % length, "--out-dir=" + os.path.join(wd, "apalache"), "NunSyncInd.tla"],
                           cwd=adir, stdout=subprocess.PIPE, stderr=subprocess.STDOUT)
        o = p.stdout.decode(errors="replace")
        if "The outcome is: NoError" not in o:
            raise common.ToolError("Apalache: NunSyncInd %s => %s (length %d) not established:\n%s" % (init, inv, length, o[-2000:]))
        obligations.append("%s => %s, length %d: NoError" % (init, inv, length))
    return {"module": "NunSync.tla (Away = 2, Live = 3)", "states": distinct, "transitions": gen,
            "pinned_lock_scope": "NoLostWrite, EventuallyEqual hold", "builder_outside_the_lock": "NoLostWrite violated (as it must)",
            "inductive_invariant": {"module": "spec/apalache/NunSyncInd.tla", "tool": "apalache-mc 0.58",
                                    "obligations": obligations, "constants": "any number of writes while away and during the synchronisation"}}


def run(tier, seed):
    res = common.Result(PROP, tier, seed, "model_checking")
    wd = common.workdir(PROP)
    devs, known = common.load_findings(PROP)
    sync_model = design_level(wd)
    cases = cases_for(tier, seed)
    raws = common.run_cases_parallel("cluster", cases, wd, procs=12, timeout=3000,
                                     env={"NUN_ELECTION_TIMEOUT": "10"})
    # every catch-up the primary built is compared with NunCatchUp first: the recorded divergence of a
    # rejoined node is accepted only in runs whose catch-up lines are those of the recorded behaviour
    cu_path = os.path.join(wd, "catchup.ndjson")
    n_calls, per_run = catchup.normalize(raws, cu_path)
    bad, checked = catchup.validate(cu_path, wd)
    # ... and whose receiving side handled every delivered line as NunRecv says (the data of every node at a recorded
    # state = the fold of the modelled receive path over the lines delivered to it since the previous one)
    rv_path, rv_tab = os.path.join(wd, "recv.ndjson"), os.path.join(wd, "recvtab.json")
    n_recv, _ = recv.normalize(raws, rv_path, rv_tab)
    bad_recv, checked_recv = recv.validate(rv_path, rv_tab, wd)
    norm_path = os.path.join(wd, "norm.ndjson")
    cluster.normalize(raws, norm_path, conf_by_run={c["id"]: (c["id"] not in bad and c["id"] not in bad_recv) for c in cases})
    out = common.validate_into(res, norm_path, "Trace_Cluster.tla", "Trace_Cluster.cfg", CHECKS, devs,
                               "/dev/null", wd, {c["id"]: c for c in cases})
    res.coverage.update({
        "states": out["states"], "transitions": out["events"],
        "model": "Trace_Cluster.tla (ClusterMonitor reference, group CONV at the quiescence after the rejoin)",
        "traces_validated_against_impl": out["runs"], "events_validated": out["events"], "cases": len(cases),
        "NunSync": sync_model,
        "catch_up_calls_checked_against_NunCatchUp": checked, "catch_up_calls_not_conforming": sum(len(v) for v in bad.values()),
        "receive_intervals_checked_against_NunRecv": checked_recv,
        "receive_intervals_not_conforming": sum(len(v) for v in bad_recv.values()),
        "samples": [{"meta": c["meta"], "ops": [o["line"] for o in c["ops"]][-12:]} for c in cases[:: max(1, len(cases) // 3)][:3]],
        "exhaustive": False,
        "rule": "primary histories of 1-6 (thorough 1-10) operations over 1-2 databases (set with multi-word, "
                "numeric-first and empty values, remove, increment, set-safe; optional create-db with a "
                "conflict strategy while the node is away) split at two random points into before-departure / "
                "while-away / during-sync; the secondary is killed and restarted with an empty disk, with an "
                "older snapshot, or after a clean declutter; it rejoins through the real join / set-primary / "
                "replicate-since handshake; writes during the synchronisation are interleaved with the "
                "catch-up deliveries; at quiescence every node must equal the primary",
    })
    res.assumptions = ["2-3 nodes (the rejoining one is n2); simulated links; operation ids from one virtual clock shared by both nodes"]
    return res, known
