"""C07 -- elections end with exactly one primary, the oldest node, and all agree."""
import itertools
import os
import random

import json

import cluster
import common
import elect
import tlc

PROP = "C07"
CHECKS = ["ELECT"]


def case(cid, nodes, pids, ops, seed, fpolicy, policy, interleave=False):
    return {"id": cid, "nodes": nodes, "pids": pids, "formation": "join", "formation_policy": fpolicy,
            "policy": policy, "seed": seed, "interleave": interleave, "ops": ops, "budget": 6000,
            "meta": {"pids": pids, "fpolicy": fpolicy}}


def admin(node):
    return {"node": node, "c": "adm", "line": "auth admin adminpwd", "op": {"op": "auth"}}


def force(node):
    return {"node": node, "c": "adm", "line": "debug force-election", "op": {"op": "force-election"}}


def kill(node):
    return {"node": node, "kill": node, "line": "<kill %s>" % node, "op": {"op": "kill"}}


def restart(node, pid):
    return {"node": node, "restart": node, "pid": pid, "wipe": False, "line": "<restart %s>" % node, "op": {"op": "restart"}}


def cases_for(tier, seed):
    rnd = random.Random(seed)
    cases = []
    n = 0
    reps = 3 if tier == "quick" else 25
    for nodes in (["n1", "n2"], ["n1", "n2", "n3"]):
        for pids in itertools.permutations([100 + 10 * i for i in range(len(nodes))]):
            pids = list(pids)
            oldest = nodes[pids.index(min(pids))]
            for r in range(reps):
                fpol = "fifo" if r == 0 else "random"
                # 1. initial start-up only
                cases.append(case("e%d" % n, nodes, pids, [], seed + n, fpol, "random")); n += 1
                # 2. forced election on each node
                for x in nodes:
                    cases.append(case("e%d" % n, nodes, pids, [admin(x), force(x)], seed + n, fpol, "random")); n += 1
                # 3. the primary dies (clusters of 3: the others must elect the older one)
                if len(nodes) == 3:
                    cases.append(case("e%d" % n, nodes, pids, [kill(oldest)], seed + n, fpol, "random")); n += 1
                    other = [x for x in nodes if x != oldest][r % 2]
                    cases.append(case("e%d" % n, nodes, pids, [kill(other)], seed + n, fpol, "random")); n += 1
                # 3b. a node dies and comes back (younger than everybody): it joins the established cluster
                x = nodes[(r + 1) % len(nodes)]
                cases.append(case("e%d" % n, nodes, pids, [kill(x), restart(x, 500 + r)], seed + n, fpol, "random")); n += 1
                # 4. two simultaneous forced elections
                a, b = nodes[0], nodes[-1]
                c = case("e%d" % n, nodes, pids, [admin(a), admin(b), force(a), force(b)], seed + n, fpol, "random",
                         interleave=True)
                c["sequential_prefix"] = 2
                cases.append(c); n += 1
    return cases


F = lambda n: {"op": "force", "node": n}
K = lambda n: {"op": "kill", "node": n}
A = lambda n: {"op": "auth", "node": n}
R = lambda n, pid: {"op": "restart", "node": n, "pid": pid}


def model_scenarios(tier, wd):
    """NunElect scenarios explored exhaustively: an established cluster (formed in the simulator's FIFO order,
    every order of what happens afterwards) and one trigger; join start-up by random walks."""
    two, three = ["n1", "n2"], ["n1", "n2", "n3"]
    p2, p3 = [100, 110], [100, 110, 120]
    f2 = elect.formation_schedule(two, p2, "direct", wd)
    f3 = elect.formation_schedule(three, p3, "direct", wd)
    ex = [elect.Scenario("d2_none", two, p2, [], form_sched=f2),
          # a node started alone: nobody to ask, its initial election makes it primary
          elect.Scenario("j1_alone", ["n1"], [100], [], formation="join"),
          elect.Scenario("j1_force", ["n1"], [100], [A("n1"), F("n1")], formation="join")]
    for n in two:
        ex.append(elect.Scenario("d2_force_%s" % n, two, p2, [A(n), F(n)], form_sched=f2))
        ex.append(elect.Scenario("d2_kill_%s" % n, two, p2, [K(n)], form_sched=f2))
    ex.append(elect.Scenario("d2_force_both", two, p2, [A("n1"), A("n2"), F("n1"), F("n2")], seqprefix=2, form_sched=f2))
    ex.append(elect.Scenario("d2_free", two, p2, [A("n2"), F("n2")]))            # every formation order as well
    walks = []
    for n in three:
        # (a forced election on the youngest of three has more than 10^7 states: random walks)
        (ex if n != "n3" else walks).append(elect.Scenario("d3_force_%s" % n, three, p3, [A(n), F(n)], form_sched=f3))
        ex.append(elect.Scenario("d3_kill_%s" % n, three, p3, [K(n)], form_sched=f3))
    ex.append(elect.Scenario("d3_kill_n1_kill_n2", three, p3, [K("n1"), K("n2")], form_sched=f3))
    # a node (re)joins an established cluster: the secondary comes back younger, the old primary comes back
    ex.append(elect.Scenario("d2_rejoin_n2", two, p2, [K("n2"), R("n2", 500)], form_sched=f2))
    ex.append(elect.Scenario("d2_rejoin_n1", two, p2, [K("n1"), R("n1", 500)], form_sched=f2))
    # everybody died, one node comes back alone: its own initial election makes it primary
    ex.append(elect.Scenario("d2_alone_n2", two, p2, [K("n1"), K("n2"), R("n2", 500)], form_sched=f2))
    walks.append(elect.Scenario("d3_rejoin_n3", three, p3, [K("n3"), R("n3", 500)], form_sched=f3))
    walks.append(elect.Scenario("d3_rejoin_n1", three, p3, [K("n1"), R("n1", 500)], form_sched=f3))
    walks.append(elect.Scenario("d3_restart_live_n2", three, p3, [R("n2", 500)], form_sched=f3))
    walks.append(elect.Scenario("d3_force_n2_n3", three, p3, [A("n2"), A("n3"), F("n2"), F("n3")], seqprefix=2, form_sched=f3))
    walks.append(elect.Scenario("d3_kill_n1_force_n3", three, p3, [A("n3"), K("n1"), F("n3")], seqprefix=1, form_sched=f3))
    for i, pids in enumerate(itertools.permutations([100, 110])):
        walks.append(elect.Scenario("j2_%d" % i, two, list(pids), [], formation="join"))
        walks.append(elect.Scenario("j2f_%d" % i, two, list(pids), [A("n1"), A("n2"), F("n1"), F("n2")], formation="join", seqprefix=2))
    for i, pids in enumerate(itertools.permutations([100, 110, 120])):
        walks.append(elect.Scenario("j3_%d" % i, three, list(pids), [], formation="join"))
        if i % 2 == 0 or tier != "quick":
            walks.append(elect.Scenario("j3k_%d" % i, three, list(pids), [K(three[list(pids).index(100)])], formation="join"))
    return ex, walks


def run(tier, seed):
    res = common.Result(PROP, tier, seed, "model_checking")
    wd = common.workdir(PROP)
    devs, known = common.load_findings(PROP)
    rnd = random.Random(seed)
    # ---- 1. TLC on the implementation-shaped model
    ex, walks = model_scenarios(tier, wd)
    exr = elect.explore(ex, wd, workers=5, tlc_workers=3, timeout=2400)
    wr = elect.explore(walks, wd, simulate=40 if tier == "quick" else 600, workers=8, depth=2500, timeout=2400)
    modes = {}
    model_cases, predicted = [], {}
    cap = 40 if tier == "quick" else 400
    for scs, rs in ((ex, exr), (walks, wr)):
        for sc in scs:
            cs = rs[sc.sid]["cases"]
            for c in cs:
                modes[c["mode"]] = modes.get(c["mode"], 0) + 1
            if len(cs) > cap:        # keep every not-good outcome, sample the rest
                bad = [c for c in cs if c["mode"] != "good"]
                cs = bad[:cap] + rnd.sample([c for c in cs if c["mode"] == "good"], max(0, cap - len(bad)))
            for k, c in enumerate(cs):
                cid = "m_%s_%d" % (sc.sid, k)
                model_cases.append(sc.sim_case(cid, c["sched"], seed + k))
                predicted[cid] = c["mode"]
    # ---- 2. seeded cases of the simulator's own policies
    cases = cases_for(tier, seed)
    for c in cases:
        c["trace_state"] = True
    allc = model_cases + cases
    by_id = {c["id"]: c for c in allc}
    raws = common.run_cases_parallel("cluster", allc, wd, procs=14, timeout=3000,
                                     env={"NUN_ELECTION_TIMEOUT": str(elect.TIMEOUT_MS)})
    # ---- 3. every run against NunElect (Trace_Elect): step-by-step conformance + outcome
    groups = elect.normalize(raws, os.path.join(wd, "norm-elect"), by_id)
    ev = elect.validate(groups, devs, wd, workers=5)
    for d, runs in ev["used"].items():
        res.findings_used.setdefault(d, []).extend(runs)
    drifted, outcome_rejected = [], []
    for run_id, r in ev["rejected"].items():
        e = json.loads(r["event"]) if r["event"] else {}
        if e.get("ev") in ("quiesce", "end", "formed_outcome") or (e.get("ev") == "formed" and not e.get("quiet", True)):
            outcome_rejected.append(run_id)
            res.add_violation(wd, run_id, {"property": PROP, "run": run_id, "why": "the run follows the modelled protocol "
                              "step by step and ends outside the outcomes recorded for it (or does not go quiet)",
                              "rejected_event": e, "case": by_id.get(run_id), "module": "Trace_Elect.tla",
                              "tlc_tail": r["tlc"][-1500:]})
        else:
            drifted.append(run_id)
    # schedule replays: steps the simulator could not follow
    sched_drift = sched_used = 0
    mismatched = []
    for rf in raws:
        for line in open(rf):
            if '"ev":"end"' in line or '"ev":"formed"' in line:
                raw = json.loads(line)
                if raw["run"].startswith("m_"):
                    sched_drift += raw.get("drift", 0)
                    sched_used += raw.get("schedule_used", 0)
    # ---- 4. runs that left the model are judged by the reference monitor alone, without any recorded finding
    out2 = {"runs": 0, "events": 0}
    if drifted:
        norm_path = os.path.join(wd, "norm.ndjson")
        sel = set(drifted)
        cluster.normalize(raws, norm_path, only=sel)
        out2 = common.validate_into(res, norm_path, "Trace_Cluster.tla", "Trace_Cluster.cfg", CHECKS, [],
                                    "/dev/null", wd, by_id)
    ex_states = sum(r["distinct"] for r in exr.values())
    ex_trans = sum(r["generated"] for r in exr.values())
    res.coverage.update({
        "states": ex_states, "transitions": ex_trans,
        "model": "NunElect.tla: %d scenarios explored exhaustively (invariants NeverTwoPrimaries, NobodyStartingUp, "
                 "GoodOrKnown, SupervisorAlive, NoRelink; liveness Terminates), %d start-up scenarios by random walks"
                 % (len(ex), len(walks)),
        "model_outcomes_at_quiescence": modes,
        "model_generated_cases": len(model_cases), "schedule_steps_followed": sched_used,
        "schedule_steps_drifted": sched_drift,
        "traces_validated_against_impl": len(ev["accepted"]) + len(ev["rejected"]), "events_validated": ev["events"],
        "runs_following_the_model": len(ev["accepted"]) + len(outcome_rejected), "runs_leaving_the_model": len(drifted),
        "runs_judged_by_reference_only": out2["runs"],
        "cases": len(allc),
        "samples": [{"nodes": c["nodes"], "pids": c["pids"], "ops": [o["line"] for o in c["ops"]],
                     "formation": c["formation"]} for c in allc[:: max(1, len(allc) // 3)][:3]],
        "exhaustive": False,
        "rule": "NunElect (implementation-shaped election / membership model): established 2- and 3-node clusters x "
                "{forced election on each node, death of each node, two simultaneous triggers}: every order of "
                "deliveries, replies, loop and supervisor steps and timer ticks (a tick only when nothing else can "
                "move); start-up through mutual join requests by random walks. Every complete model behaviour that "
                "ends in a distinct state is replayed on the real nodes; every simulator run (these and the seeded "
                "FIFO / random ones: start-up, forced elections, deaths, simultaneous elections) is validated step "
                "by step against the model (state projection after every step) and judged at every quiescence: "
                "one primary, the longest-running live node, everybody else secondary, all member maps name it",
    })
    res.assumptions = ["NUN_ELECTION_TIMEOUT=10 ms (5 wait-loop iterations); the 100 ms grace sleep is real",
                       "all nodes start together; process ids (start times) are set by the case",
                       "a run that does not follow the model step by step is judged without any recorded finding"]
    if drifted:
        res.notes.append("runs that left the model: " + ", ".join(sorted(drifted)[:10]))
    return res, known
