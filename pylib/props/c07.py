"""C07 -- elections end with exactly one primary, the oldest node, and all agree."""
import itertools
import os
import random

import cluster
import common

PROP = "C07"
CHECKS = ["ELECT"]


def case(cid, nodes, pids, ops, seed, fpolicy, policy, interleave=False):
    return {"id": cid, "nodes": nodes, "pids": pids, "formation": "join", "formation_policy": fpolicy,
            "policy": policy, "seed": seed, "interleave": interleave, "ops": ops, "budget": 6000,
            "meta": {"pids": pids, "fpolicy": fpolicy}}


def admin(node):
    return {"node": node, "c": "adm", "line": "auth admin adminpwd", "op": {"op": "auth"}}


def force(node):
    return {"node": node, "c": "adm", "line": "debug force-election", "op": {"op": "force-election"}}


def kill(node):
    return {"node": node, "kill": node, "line": "<kill %s>" % node, "op": {"op": "kill"}}


def cases_for(tier, seed):
    rnd = random.Random(seed)
    cases = []
    n = 0
    reps = 3 if tier == "quick" else 25
    for nodes in (["n1", "n2"], ["n1", "n2", "n3"]):
        for pids in itertools.permutations([100 + 10 * i for i in range(len(nodes))]):
            pids = list(pids)
            oldest = nodes[pids.index(min(pids))]
            for r in range(reps):
                fpol = "fifo" if r == 0 else "random"
                # 1. initial start-up only
                cases.append(case("e%d" % n, nodes, pids, [], seed + n, fpol, "random")); n += 1
                # 2. forced election on each node
                for x in nodes:
                    cases.append(case("e%d" % n, nodes, pids, [admin(x), force(x)], seed + n, fpol, "random")); n += 1
                # 3. the primary dies (clusters of 3: the others must elect the older one)
                if len(nodes) == 3:
                    cases.append(case("e%d" % n, nodes, pids, [kill(oldest)], seed + n, fpol, "random")); n += 1
                    other = [x for x in nodes if x != oldest][r % 2]
                    cases.append(case("e%d" % n, nodes, pids, [kill(other)], seed + n, fpol, "random")); n += 1
                # 4. two simultaneous forced elections
                a, b = nodes[0], nodes[-1]
                c = case("e%d" % n, nodes, pids, [admin(a), admin(b), force(a), force(b)], seed + n, fpol, "random",
                         interleave=True)
                c["sequential_prefix"] = 2
                cases.append(c); n += 1
    return cases


def run(tier, seed):
    res = common.Result(PROP, tier, seed, "model_checking")
    wd = common.workdir(PROP)
    devs, known = common.load_findings(PROP)
    cases = cases_for(tier, seed)
    raws = common.run_cases_parallel("cluster", cases, wd, procs=14, timeout=3000,
                                     env={"NUN_ELECTION_TIMEOUT": "10"})
    norm_path = os.path.join(wd, "norm.ndjson")
    cluster.normalize(raws, norm_path)
    out = common.validate_into(res, norm_path, "Trace_Cluster.tla", "Trace_Cluster.cfg", CHECKS, devs,
                               "/dev/null", wd, {c["id"]: c for c in cases})
    res.coverage.update({
        "states": out["states"], "transitions": out["events"],
        "model": "Trace_Cluster.tla (ClusterMonitor reference, group ELECT)",
        "traces_validated_against_impl": out["runs"], "events_validated": out["events"], "cases": len(cases),
        "samples": [{"nodes": c["nodes"], "pids": c["pids"], "ops": [o["line"] for o in c["ops"]],
                     "formation_policy": c["formation_policy"]} for c in cases[:: max(1, len(cases) // 3)][:3]],
        "exhaustive": False,
        "rule": "2- and 3-node clusters with every assignment of start times; start-up through the real join "
                "requests and the initial election; then: forced election on each node, death of the primary, "
                "death of a secondary, two simultaneous forced elections; message deliveries in FIFO and seeded "
                "random orders, a wait-loop timer tick only when nothing can be delivered; Trace_Cluster group "
                "ELECT at every quiescence: one primary, the longest-running live node, everybody else "
                "secondary, every member map names it; no quiescence within 6000 steps = non-termination",
    })
    res.assumptions = ["NUN_ELECTION_TIMEOUT=10 ms (5 wait-loop iterations); the 100 ms grace sleep is real",
                       "all nodes start together; process ids (start times) are set by the case"]
    return res, known
