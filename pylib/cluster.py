"""Cluster cases and normalisation of cluster traces for Trace_Cluster."""
import json

import render

LOCAL_KEYS = {"$connections"}


def classify(line, from_role, is_reply):
    w = line.split(" ", 1)[0]
    if is_reply:
        if w == "ack":
            return "ack"
        return "noise"
    if w in ("auth", "set-primary", "set-secoundary", "replicate-since", "replicate-join", "replicate-leave",
             "join", "leave"):
        return "handshake"
    if w == "rp":
        inner = line.split(" ", 2)[2] if len(line.split(" ", 2)) > 2 else ""
        iw = inner.split(" ", 1)[0]
        if iw in ("election", "set-primary"):
            return "election"
        return "copy" if from_role == "Primary" else "copy_by_secondary"
    if w in ("replicate", "replicate-remove", "replicate-increment", "replicate-snapshot", "resolve",
             "create-db"):
        return "forward" if from_role != "Primary" else "sync"
    return "other"


def proj_state(state):
    out = {}
    for n, s in state.items():
        if not s.get("alive"):
            out[n] = {"alive": False, "role": "-", "pid": 0, "pending": 0, "primary_view": [], "data": {}}
            continue
        data = {}
        for d, rec in s["dump"].items():
            if d == "$admin" or d.startswith("#"):
                continue
            data[d] = {"strategy": rec["strategy"],
                       "keys": {k: [v[0], v[1], v[2] != "Deleted"] for k, v in rec["keys"].items()
                                if k not in LOCAL_KEYS}}
        out[n] = {"alive": True, "role": s["role"], "pid": s["pid"], "pending": s["pending"],
                  "primary_view": sorted(m[0] for m in s["members"] if m[1] == "Primary"),
                  "data": data}
    return out


OPD = {"op": "-", "d": "d", "k": "", "v": "", "ver": -1, "n": 0, "at_secondary": False}


def normalize(raw_files, out_path, primary="n1", only=None, conf_by_run=None):
    import common
    n = runs = 0
    panicked = set()
    with open(out_path, "w") as g:
        for rf in raw_files:
            for line in open(rf):
                if '"ev":"st"' in line[:12]:
                    continue
                raw = json.loads(line)
                if only is not None and raw.get("run") not in only:
                    continue
                ev = raw["ev"]
                o = None
                if ev in ("repl", "sup") and raw.get("dead"):
                    if (raw["node"], ev) in panicked:
                        continue      # consequence of the loop's earlier (reported) panic
                    raw["panic"] = True
                if ev in ("repl", "sup") and raw.get("panic"):
                    panicked.add((raw["node"], ev))
                if ev == "reset":
                    panicked = set()
                    runs += 1
                    o = {"ev": "reset", "run": raw["run"], "nodes": raw["nodes"]}
                    if conf_by_run is not None:
                        o["conf"] = bool(conf_by_run.get(raw["run"], True))
                elif ev == "tool_error":
                    raise common.ToolError("cluster simulator: run %s: %s" % (raw["run"], raw.get("msg", "")))
                elif ev == "formed":
                    o = {"ev": "formed", "run": raw["run"], "quiet": raw["quiet"], "state": proj_state(raw["state"])}
                elif ev == "client":
                    op = dict(OPD)
                    op.update(raw.get("op") or {})
                    op = {k: op[k] for k in OPD}
                    o = {"ev": "client", "run": raw["run"], "i": raw["i"], "node": raw["node"], "op": op,
                         "line": raw["line"]}
                elif ev == "deliver":
                    o = {"ev": "msg", "run": raw["run"], "kind": classify(raw["line"], raw.get("from_role", ""), False),
                         "from": raw["from"], "to": raw["to"], "line": raw["line"][:200],
                         "conflict": " $conflicts_" in raw["line"]}
                elif ev == "reply":
                    if raw["line"] == "ok":
                        continue
                    o = {"ev": "msg", "run": raw["run"], "kind": classify(raw["line"], "", True),
                         "from": raw["from"], "to": raw["to"], "line": raw["line"][:200]}
                elif ev in ("repl", "sup") and raw.get("panic"):
                    o = {"ev": "loop_panic", "run": raw["run"], "node": raw["node"], "loop": ev, "msg": raw["msg"][:200],
                         "self_sync": raw["msg"].startswith("replicate-since-to %s " % raw["node"])}
                elif ev == "restarted":
                    o = {"ev": "restarted", "run": raw["run"], "node": raw["node"]}
                elif ev in ("quiesce", "end"):
                    o = {"ev": ev, "run": raw["run"], "quiet": raw["quiet"], "messages": raw["messages"],
                         "state": proj_state(raw["state"])}
                if o is None:
                    continue
                g.write(json.dumps(o) + "\n")
                n += 1
    return n, runs


def setup_ops(nodes, db="d", strategy="none"):
    """create the database on the primary, open an administrator and a plain session on every node"""
    p = nodes[0]
    ops = [{"node": p, "c": "a", "line": "auth admin adminpwd"},
           {"node": p, "c": "a", "line": render.line_of({"op": "create-db", "d": db, "tok": "tok", "strategy": strategy})},
           {"node": p, "c": "a", "line": "use-db %s tok" % db}]
    for n in nodes:
        if n != p:
            ops += [{"node": n, "c": "a", "line": "auth admin adminpwd"},
                    {"node": n, "c": "a", "line": "use-db %s tok" % db}]
        ops.append({"node": n, "c": "c", "line": "use-db %s tok" % db})
    return ops


def client_op(node, nodes, op, c="c", db="d"):
    o = dict(op)
    o["d"] = db
    o["at_secondary"] = node != nodes[0]
    return {"node": node, "c": c, "line": render.line_of(op), "op": o}
