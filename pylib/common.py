"""Shared driver plumbing: building the harness against /repo's working tree, running
it, validating traces with TLC, known findings, evidence files, exit status."""
import json
import os
import shutil
import subprocess
import sys
import time
from concurrent.futures import ThreadPoolExecutor

import norm
import tlc

VERIF = tlc.VERIF
HARNESS_DIR = os.path.join(VERIF, "harness")
HARNESS_BIN = os.path.join(HARNESS_DIR, "target", "debug", "nunverif")
EVIDENCE_DIR = os.path.join(VERIF, "evidence")
KNOWN_FINDINGS = os.path.join(VERIF, "known_findings.json")
WORK = tlc.WORK

ToolError = tlc.ToolError


def log(*a):
    print(*a, file=sys.stderr, flush=True)


def workdir(prop, clean=True):
    d = os.path.join(WORK, prop)
    if clean and os.path.isdir(d):
        shutil.rmtree(d, ignore_errors=True)
    os.makedirs(d, exist_ok=True)
    return d


def build_harness():
    """cargo build of the harness: a path dependency on /repo, so always the current tree."""
    t0 = time.time()
    lock = os.path.join(HARNESS_DIR, "Cargo.lock")
    if not os.path.exists(lock):
        shutil.copy("/repo/Cargo.lock", lock)
    env = dict(os.environ)
    env["CARGO_NET_OFFLINE"] = "true"
    p = subprocess.run(["cargo", "build", "--offline"], cwd=HARNESS_DIR, env=env,
                       stdout=subprocess.PIPE, stderr=subprocess.STDOUT)
    if p.returncode != 0:
        raise ToolError("harness build failed:\n" + p.stdout.decode(errors="replace")[-4000:])
    return time.time() - t0


def run_harness(sub, args, timeout=1800, env=None):
    e = dict(os.environ)
    if env:
        e.update(env)
    try:
        p = subprocess.run([HARNESS_BIN, sub] + list(args), stdout=subprocess.PIPE,
                           stderr=subprocess.PIPE, timeout=timeout, env=e)
    except subprocess.TimeoutExpired:
        raise ToolError("harness %s timed out after %ss" % (sub, timeout))
    if p.returncode != 0:
        raise ToolError("harness %s failed rc=%s: %s" % (sub, p.returncode,
                                                        p.stderr.decode(errors="replace")[-2000:]))
    return p.stdout.decode(errors="replace")


def run_cases_parallel(sub, cases, wd, procs=12, timeout=1800, env=None):
    """Writes cases to chunk files, runs one harness process per chunk, returns the list
    of raw trace files (order preserved)."""
    procs = max(1, min(procs, len(cases)))
    chunks = [cases[i::procs] for i in range(procs)]
    jobs = []
    for i, ch in enumerate(chunks):
        cp = os.path.join(wd, "cases-%d.ndjson" % i)
        tp = os.path.join(wd, "raw-%d.ndjson" % i)
        with open(cp, "w") as f:
            for c in ch:
                f.write(json.dumps(c) + "\n")
        jobs.append((cp, tp, os.path.join(wd, "dirs-%d" % i)))

    def one(j):
        run_harness(sub, [j[0], j[1], j[2]], timeout=timeout, env=env)
        shutil.rmtree(j[2], ignore_errors=True)
        return j[1]
    with ThreadPoolExecutor(max_workers=procs) as ex:
        return list(ex.map(one, jobs))


def normalize_all(raw_files, out_path):
    n = runs = 0
    with open(out_path, "w") as g:
        for rf in raw_files:
            tmp = rf + ".norm"
            a, b = norm.normalize(rf, tmp)
            n += a
            runs += b
            with open(tmp) as f:
                shutil.copyfileobj(f, g)
            os.remove(tmp)
    return n, runs


# ---------------------------------------------------------------------------
# known findings

def load_findings(prop):
    """Returns (enabled deviation names, {deviation: entry}) for status == known."""
    if not os.path.exists(KNOWN_FINDINGS):
        return [], {}
    data = json.load(open(KNOWN_FINDINGS))
    known = {}
    for e in data.get("findings", []):
        if e.get("status") == "known" and prop in e.get("properties", [e.get("property")]):
            known[e["deviation"]] = e
    return sorted(known), known


# ---------------------------------------------------------------------------
# results

class Result:
    def __init__(self, prop, tier, seed, level):
        self.prop, self.tier, self.seed, self.level = prop, tier, seed, level
        self.coverage = {}
        self.assumptions = []
        self.violations = []     # list of dicts with 'replay'
        self.findings_used = {}  # deviation -> list of runs
        self.notes = []
        self.t0 = time.time()

    def add_violation(self, wd, name, payload):
        vdir = os.path.join(wd, "violations")
        os.makedirs(vdir, exist_ok=True)
        path = os.path.join(vdir, "%s.json" % name.replace("/", "_"))
        with open(path, "w") as f:
            json.dump(payload, f, indent=1)
        self.violations.append({"replay": path, "name": name})
        return path


def write_evidence(res):
    os.makedirs(EVIDENCE_DIR, exist_ok=True)
    ev = {
        "property_id": res.prop,
        "tier": res.tier,
        "seed": int(res.seed),
        "level": res.level,
        "coverage": res.coverage,
        "assumptions": res.assumptions,
        "wall_s": round(time.time() - res.t0, 2),
        "violations": len(res.violations),
    }
    if res.findings_used:
        ev["coverage"]["known_findings_reproduced"] = {
            k: len(v) for k, v in res.findings_used.items()}
    if res.notes:
        ev["coverage"]["notes"] = res.notes
    with open(os.path.join(EVIDENCE_DIR, "%s.json" % res.prop), "w") as f:
        json.dump(ev, f, indent=1, sort_keys=True)


def finish(res, known):
    """Prints KNOWN-FINDING / VIOLATION lines, writes evidence, returns the exit code."""
    write_evidence(res)
    for dev, runs in sorted(res.findings_used.items()):
        what = known.get(dev, {}).get("what_fails", "")
        print("KNOWN-FINDING: property=%s %s %s (reproduced in %d runs, e.g. %s)" %
              (res.prop, dev, what, len(runs), runs[0]))
    if res.violations:
        for v in res.violations[:10]:
            print("VIOLATION property=%s replay=%s" % (res.prop, v["replay"]))
        return 1
    print("OK property=%s tier=%s %s" % (res.prop, res.tier,
          json.dumps({k: v for k, v in res.coverage.items()
                      if isinstance(v, (int, float, bool))})))
    return 0


def validate_into(res, norm_path, module, cfg, checks, devs, tables_path, wd, case_by_id=None,
                  shards=16, timeout=900):
    """Trace-validates, records violations (with replay files) and used deviations."""
    out = tlc.validate(norm_path, module, cfg, {"checks": checks, "devs": devs}, tables_path,
                       os.path.join(wd, "val"), shards=shards, timeout=timeout)
    if out["unchecked_shards"]:
        res.notes.append("%d shards left unchecked after repeated rejections" %
                         out["unchecked_shards"])
    for r in out["rejected"]:
        payload = {"property": res.prop, "run": r["run"], "rejected_event_index": r["i"],
                   "rejected_event": json.loads(r["event"]) if r["event"] else None,
                   "case": (case_by_id or {}).get(r["run"]),
                   "trace": [json.loads(x) for x in r["lines"]],
                   "checks": checks, "devs": devs, "module": module,
                   "tlc_tail": r["tlc"][-1500:]}
        res.add_violation(wd, r["run"], payload)
    for d, runs in out["used"].items():
        res.findings_used.setdefault(d, []).extend(runs)
    return out


def prune(prop):
    """Removes the bulky intermediate files of a run that found nothing (raw traces, case files, normalized traces,
    validation shards); violations, model outputs and evidence stay."""
    wd = os.path.join(WORK, prop)
    if not os.path.isdir(wd):
        return
    for root, dirs, files in os.walk(wd, topdown=True):
        if os.path.basename(root) == "violations":
            dirs[:] = []
            continue
        for d in list(dirs):
            if d in ("val", "norm", "norm-elect", "norm-dp") or d.startswith(("tv-", "dpv-", "dirs-", "wd")):
                shutil.rmtree(os.path.join(root, d), ignore_errors=True)
                dirs.remove(d)
        for f in files:
            if f.endswith(".ndjson"):
                try:
                    os.remove(os.path.join(root, f))
                except OSError:
                    pass
