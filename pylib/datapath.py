"""Simulator runs of data commands on an established cluster -> Trace_DataPath (NunCluster followed step by step)."""
import json
import os
import shutil
from concurrent.futures import ThreadPoolExecutor

import cluster
import common
import tlc

SUPPORTED = {"set", "set-safe", "remove", "increment"}
NOOPS = {"get", "get-safe", "keys", "watch", "unwatch-all", "unwatch", "auth", "use-db"}


def model_op(o, node):
    op = o.get("op", {})
    kind = op.get("op")
    if kind is None and o.get("line", "").split(" ")[0] in ("use-db", "auth"):
        kind = o["line"].split(" ")[0]
    if kind in NOOPS:
        return {"node": node, "op": "noop", "k": "", "v": "", "ver": 0, "n": 0}
    if kind == "tick" and o.get("tick"):
        # the declutter timer of that node runs its queued snapshots
        return {"node": o["tick"], "op": "tick", "k": "", "v": "", "ver": 0, "n": 0}
    # a user record / a permission list is an unversioned write of a `$$' key (applied locally, forwarded by a
    # secondary, re-emitted as `replicate <db> <key> -1 <value>')
    if kind == "snapshot" and not op.get("reclaim") and op.get("names") == ["d"]:
        return {"node": node, "op": "snapshot", "k": "", "v": "", "ver": 0, "n": 0}
    if kind == "create-user":
        return {"node": node, "op": "set", "k": "$$user_" + op["u"], "v": op.get("v", ""), "ver": -1, "n": 0}
    if kind == "set-permissions":
        return {"node": node, "op": "set", "k": "$$permission_$" + op["u"], "v": op.get("v", ""), "ver": -1, "n": 0}
    if kind not in SUPPORTED or op.get("d", "d") != "d":
        return None
    if kind == "set":
        return {"node": node, "op": "set", "k": op["k"], "v": op.get("v", ""), "ver": -1, "n": 0}
    if kind == "set-safe":
        return {"node": node, "op": "set", "k": op["k"], "v": op.get("v", ""), "ver": int(op.get("ver", 0)), "n": 0}
    if kind == "remove":
        return {"node": node, "op": "remove", "k": op["k"], "v": "", "ver": 0, "n": 0}
    return {"node": node, "op": "increment", "k": op["k"], "v": "", "ver": 0, "n": int(op.get("n", 1))}


def plan(case):
    """(index of the first explored command, {index: model op}) or None if the model does not cover the case."""
    if case.get("formation", "direct") != "direct" or case.get("strategy", "none") not in ("none", "newer"):
        return None
    start = case.get("schedule_from") or len(cluster.setup_ops(case["nodes"]))
    ops = {}
    for i, o in enumerate(case["ops"]):
        if i < start:
            continue
        if o.get("c", "c") not in ("c", "c2", "a"):
            return None
        m = model_op(o, o["node"])
        if m is None or " " in m["k"] or (m["k"].startswith("$") and not m["k"].startswith("$$user_")
                                          and not m["k"].startswith("$$permission_")):
            return None
        ops[i] = m
    return start, ops


def conv_state(st):
    nodes = {}
    for n, v in st["nodes"].items():
        keys = v.get("data", {}).get("d", {}).get("keys", {})
        nodes[n] = {"data": {k: [x[0], x[1], x[2]] for k, x in keys.items() if k not in ("$connections", "$$token")},
                    "replq": v["replq"], "pending": len(v["pend"]), "snapq": "d" in [x[0] for x in v.get("snapq", [])]}
    links = {}
    for lk in st["links"]:
        links["%s>%s" % (lk["from"], lk["to"])] = {
            "q": lk["q"], "rsp": [r if r.startswith("ack ") else "noise" for r in lk["rsp"] if r != "ok"]}
    return {"nodes": nodes, "links": links}


def parse_label(label):
    kind, _, arg = label.partition(":")
    if kind in ("deliver", "reply"):
        x, _, y = arg.partition(">")
        return kind, x, y
    return kind, arg, ""


def normalize(raw_files, out_dir, cases_by_id):
    """One file per node list.  Returns [(cfg, path, events, runs)] and the runs left out."""
    groups, skipped = {}, []
    plans = {cid: plan(c) for cid, c in cases_by_id.items()}
    for rf in raw_files:
        cur = last_st = pl = None
        started = False
        for line in open(rf):
            if '"ev":"st"' not in line[:12] and '"ev":"reset"' not in line[:16] and '"ev":"tool_error"' not in line[:22]:
                continue
            raw = json.loads(line)
            if raw["ev"] == "tool_error":
                raise common.ToolError("cluster simulator: run %s: %s" % (raw["run"], raw.get("msg", "")))
            if raw["ev"] == "reset":
                case = cases_by_id[raw["run"]]
                pl = plans[raw["run"]]
                started = False
                last_st = None
                if pl is None:
                    cur = None
                    skipped.append(raw["run"])
                    continue
                key = (tuple(case["nodes"]), case.get("strategy", "none"))
                cur = groups.setdefault(key, {"nodes": case["nodes"], "strategy": case.get("strategy", "none"),
                                              "keys": set(), "events": [], "runs": []})
                cur["runs"].append(raw["run"])
                cur["keys"].update(m["k"] for m in pl[1].values() if m["k"])
                cur["events"].append({"ev": "reset", "run": raw["run"]})
                continue
            if cur is None:
                continue
            kind, a, b = parse_label(raw["step"])
            if not started:
                if kind == "client" and int(a) == pl[0]:
                    if last_st is None:
                        cur = None       # nothing recorded before the first explored command
                        continue
                    st0 = conv_state(last_st)
                    for v in st0["nodes"].values():
                        cur["keys"].update(v["data"].keys())
                    cur["events"].append({"ev": "start", "run": raw["run"], "st": st0})
                    started = True
                else:
                    last_st = raw["st"]
                    continue
            o = {"ev": "st", "run": raw["run"], "kind": kind, "a": a, "b": b, "st": conv_state(raw["st"])}
            if kind == "client":
                o["op"] = pl[1][int(a)]
            else:
                o["op"] = {"node": "", "op": "", "k": "", "v": "", "ver": 0, "n": 0}
            cur["events"].append(o)
    out = []
    os.makedirs(out_dir, exist_ok=True)
    for i, (key, g) in enumerate(sorted(groups.items())):
        p = os.path.join(out_dir, "dp-%d.ndjson" % i)
        with open(p, "w") as f:
            for e in g["events"]:
                f.write(json.dumps(e) + "\n")
        out.append(({"nodes": g["nodes"], "keys": sorted(g["keys"]), "strategy": g["strategy"]}, p, len(g["events"]), g["runs"]))
    return out, skipped


def validate(groups, wd):
    accepted, rejected = set(), {}
    events = 0
    for i, (cfg, path, n, runs) in enumerate(groups):
        sub = os.path.join(wd, "dpv-%d" % i)
        out = tlc.validate(path, "Trace_DataPath.tla", "Trace_DataPath.cfg", cfg, "/dev/null", sub, shards=12,
                           max_failures=40)
        events += out["events"]
        bad = {r["run"]: r for r in out["rejected"]}
        for r in runs:
            if r in bad:
                rejected[r] = bad[r]
            else:
                accepted.add(r)
        shutil.rmtree(sub, ignore_errors=True)
    return {"accepted": accepted, "rejected": rejected, "events": events}


def check(raws, cases_by_id, wd):
    """Conformance of every covered run; returns evidence fields (a run that leaves the model is reported, it is
    not by itself a violation of a property)."""
    groups, skipped = normalize(raws, os.path.join(wd, "norm-dp"), cases_by_id)
    out = validate(groups, wd)
    ev = {"datapath_runs_following_NunCluster": len(out["accepted"]), "datapath_runs_leaving_NunCluster": len(out["rejected"]),
          "datapath_runs_outside_the_model": len(skipped), "datapath_events_validated": out["events"]}
    if out["rejected"]:
        ev["datapath_first_runs_leaving_the_model"] = sorted(out["rejected"])[:10]
    return ev
