"""Receive-path conformance: cluster-simulator runs -> Trace_Recv (NunRecv folded over the lines delivered to a node
between two recorded states) -> per-run conformance."""
import json
import os
import re

import common
import tables
import tlc


def conv(dump):
    out = {}
    for d, rec in dump.items():
        if d.startswith("#"):
            continue
        out[d] = {"strategy": rec.get("strategy", "none"),
                  "keys": {k: [v[0], v[1], v[2]] for k, v in rec["keys"].items() if not k.startswith("#")}}
    return out


def normalize(raw_files, out_path, tab_path):
    """Returns (number of records, {run: n}).  Writes the integer table every numeric token needs."""
    n = 0
    per_run = {}
    nums = {"0": 0}

    def note(tok):
        v = tables.int_of(tok)
        if v is not None:
            nums[tok] = v
    with open(out_path, "w") as g:
        for rf in raw_files:
            start, evs, dirty, run = {}, {}, {}, None
            for line in open(rf):
                raw = json.loads(line)
                ev = raw["ev"]
                if ev == "reset":
                    start, evs, dirty, run = {}, {}, {}, raw["run"]
                elif ev == "deliver":
                    y = raw["to"]
                    toks = raw["line"].rstrip("\n").split(" ")
                    for t in toks:
                        note(t)
                    note(" ".join(toks[3:]))
                    evs.setdefault(y, []).append({"toks": toks, "ctx": {"to_role": raw.get("to_role", ""),
                                                                         "sess_primary": bool(raw.get("sess_primary")),
                                                                         "sess_auth": bool(raw.get("sess_auth"))}})
                elif ev in ("client", "tick_node", "kill"):
                    # a command of a client / a snapshot run at this node changes its data by other means
                    node = raw.get("node")
                    if node:
                        dirty[node] = True
                elif ev == "restarted":
                    k = raw["node"]
                    start[k], evs[k], dirty[k] = conv(raw.get("dump", {})), [], False
                elif ev in ("formed", "quiesce", "end"):
                    for node, st in raw["state"].items():
                        if not st.get("alive", True):
                            start.pop(node, None)
                            continue
                        cur = conv(st["dump"])
                        if node in start and not dirty.get(node):
                            n += 1
                            per_run[run] = per_run.get(run, 0) + 1
                            for d in list(start[node].values()) + list(cur.values()):
                                for v in d["keys"].values():
                                    note(v[0])
                            g.write(json.dumps({"ev": "recv", "run": run, "node": node, "i": n, "start": start[node],
                                                "evs": evs.get(node, []), "final": cur}) + "\n")
                        start[node], evs[node], dirty[node] = cur, [], False
    json.dump({"intof": nums}, open(tab_path, "w"))
    return n, per_run


def validate(norm_path, tab_path, wd, debug=False):
    """Returns ({run: [(node, index)]} of non-conforming records, checked)."""
    if not os.path.exists(norm_path) or os.path.getsize(norm_path) == 0:
        return {}, 0
    env = {"TRACE": norm_path, "TABLES": tab_path}
    if debug:
        env["DEBUG"] = "1"
    rc, out, secs = tlc.run_tlc("Trace_Recv.tla", "Trace_Recv.cfg", env=env, workers=1, timeout=1800,
                                java_opts="-Xss1g -Dtlc2.tool.queue.IStateQueue=StateDeque", heap="4g")
    m = re.search(r'<<"CHECKED", (\d+)>>', out)
    if not m:
        raise common.ToolError("Trace_Recv produced no verdict:\n" + out[-3000:])
    bad = {}
    for mm in re.finditer(r'<<"NONCONF", "([^"]*)", "([^"]*)", (\d+)>>', out):
        bad.setdefault(mm.group(1), []).append((mm.group(2), int(mm.group(3))))
    if debug:
        for line in out.splitlines():
            if line.startswith('<<"MODEL"'):
                print(line[:3000])
    return bad, int(m.group(1))
