#!/usr/bin/env python3
"""Source of truth for MANIFEST.json: `python3 pylib/manifest_src.py` rewrites it."""
import json
import os

VERIF = os.path.dirname(os.path.dirname(os.path.abspath(__file__)))

CHECKS = {
    "C01": dict(
        level="model_checking",
        text="TLC explores the implementation-shaped sequential model MC_Seq exhaustively up to the "
             "history bound (invariant: the live part of the map is the plain map) and emits one "
             "shortest history per (abstract state, command); each history plus seeded random ones is "
             "executed on the real node and every event (reply, pushed lines, full store dump) is "
             "validated by TLC against the reference NunKV (constraint group READ).",
        note="single node, role Primary, commands through process_request; dev profile; string tables "
             "(secure prefix, key patterns, integer parsing) from pylib/tables.py; bounded histories "
             "(quick 5 / thorough 6 commands after the set-up prefix, random up to 40)",
        technique="TLA+ reference spec + TLC trace validation of real runs; TLC-generated histories",
        design="DESIGN.md §5 C01"),
    "C08": dict(
        level="model_checking",
        text="MC_Auth enumerates every credential/permission state of a session and every command of "
             "the command table in it; every history of a session that never becomes administrator is "
             "run on two real servers that differ only in what administrators stored under $$ keys; "
             "TLC validates the two-run trace against the self-composition Trace_NI (identical replies "
             "and pushed lines, $$ keys unchanged by plain sessions) and each run against NunKV group SEC.",
        note="single node; sessions through process_request; the two runs use the same virtual clock; "
             "the design-level self-composition of NunKV is not model-checked stand-alone (the reference "
             "is relational and is only checked against real runs)",
        technique="TLA+ self-composition trace spec (non-interference) + TLC trace validation of paired real runs",
        design="DESIGN.md §5 C08"),
    "C09": dict(
        level="model_checking",
        text="MC_Auth (TLC, exhaustive): every (credential state x permission list) x every command with "
             "matching / non-matching / secure key arguments, incl. permission changes mid-session; each "
             "history is executed on the real node and every event validated against NunKV group AUTH "
             "(unauthorised => error reply and no change of store, replication / supervisor / snapshot "
             "queues; failed use-db keeps the selection).",
        note="single node in role Primary; a session does not mix user-token and database-token "
             "selections; user name 'all' and removal of permission keys are not generated",
        technique="TLA+ reference spec + TLC trace validation; TLC-generated credential matrix",
        design="DESIGN.md §5 C09"),
    "C17": dict(
        level="model_checking",
        text="MC_Conn (TLC, exhaustive): all selections of 3 sessions over 2 databases x {use-db good / "
             "bad / user token, disconnect, read}; invariant counter = number of open sessions; every "
             "history runs on the real node and TLC validates counter, $connections key and the "
             "watcher's notifications after every step (NunKV group CONN). The histories run three ways: "
             "through process_request with the transports' common end-of-connection code, and (a sample in "
             "the quick tier) over the real TCP server and the real WebSocket server on loopback sockets, "
             "where a disconnect is the server's own end-of-stream / on_close handling. MC_Conn's Close has four "
             "forms (orderly close, close after bytes that are not a command line, reset by the peer with answers "
             "unread, drop without a close): one transition of the model, four paths through the transports.",
        note="over sockets the harness waits until the node's projection is stable for 40 ms after each step; "
             "HTTP requests are C20",
        technique="TLA+ reference spec + TLC trace validation; TLC-generated session histories",
        design="DESIGN.md §5 C17"),
    "C10": dict(
        level="exploration",
        text="The input space is itself a TLA+ specification (MC_Fuzz: command word x argument token "
             "classes x sub-command keywords) that TLC enumerates exhaustively up to the argument bound; "
             "every line is sent to the real node from four credential states, followed by a probe "
             "write/read of another client; TLC validates the trace against Trace_Robust (every line "
             "answered value/ok/error, no panic, no poisoned lock, probe still served, rejected lines "
             "change nothing). Seeded longer sequences and random byte strings on top; a sample of the cases "
             "also goes through the real TCP server (a panic ends the connection thread: no reply) and the real "
             "WebSocket server (one text frame per line); a table of raw byte cases (invalid UTF-8, NULs, unterminated "
             "and split lines, 70 kB lines over TCP; binary, empty, fragmented, continuation-only, reserved-opcode, "
             "oversized control and bad close frames over WebSocket) is sent from fresh and authenticated connections, "
             "each followed by the probe and a new connection of the same transport (Trace_Robust!Raw). The node's "
             "real replication loop (the service thread of main.rs) runs next to the handlers, is fed every "
             "message they queue and must still be alive after every line.",
        note="exploration, not a proof over all byte strings; most lines enter at process_request (a panic "
             "there is what kills an HTTP worker / TCP connection thread); dev profile",
        technique="TLC-enumerated input space + TLC trace validation of real runs (robustness spec)",
        design="DESIGN.md §5 C10"),
    "C20": dict(
        level="model_checking",
        text="MC_Http (TLC, exhaustive to the body bound) checks the implementation-shaped reply (per-request "
             "message queue) against NunHttp!RefReply and generates one body per (session state, queue "
             "residue, last command, next command); each body is POSTed to the node's real HTTP server and "
             "TLC validates the reply entry by entry against the per-command outcomes of a twin node, plus "
             "same final state and session release. The same command lists also go, as one text frame each, "
             "to the node's real WebSocket server: the frames that come back must be, command by command, "
             "its pushed lines followed by its own ok / error (NunHttp!WsReply).",
        note="per-command outcomes come from a twin node (same binary) executing the commands one by one; "
             "WebSocket frames carry no blank statements (the WebSocket server does not skip them)",
        technique="TLA+ reference (NunHttp) + TLC trace validation of real HTTP requests and WebSocket frames; "
                  "TLC-generated bodies",
        design="DESIGN.md §5 C20"),
    "C02": dict(
        level="model_checking",
        text="NunKVConc (lock-granular implementation-shaped model, one module per scenario) is explored "
             "by TLC: all interleavings of two clients x one command for every pair of {set, set-safe "
             "at/below/above current, increment, get-safe, remove}, simulation for 2-3 clients x 1-3 "
             "commands; the interleavings are forced on the real code through yield hooks before every "
             "lock acquisition and each run is validated by TLC against the linearizability trace "
             "specification Trace_KVLin (atomic compare-and-set, version growth, no lost update); "
             "sequential histories against NunKV group VER (every version argument). Free-running rounds on top (real threads, no scheduler, no hook; Trace_Stress: order-independent consequences of the property, DESIGN A.19).",
        note="interleavings at the granularity of the yield hooks (before each Database.map / "
             "Watchers.map acquisition); quick tier samples up to 60 schedules per scenario; dev profile",
        technique="TLA+ linearizability trace spec + TLC trace validation; TLC-generated schedules forced by a cooperative scheduler",
        design="DESIGN.md §5 C02"),
    "C03": dict(
        level="model_checking",
        text="Writers x subscribers scenarios (watching then unwatch / unwatch-all / disconnect, subscribing, "
             "subscribing-then-writing while another client unsubscribes, two writers with a passive "
             "subscriber, replicated write): TLC enumerates the interleavings of NunKVConc, the scheduler "
             "forces them on the real code, and TLC validates each run against Trace_KVLin group WATCH: "
             "every committed change inside a subscription interval is notified exactly once, nothing for "
             "refused writes / unwatched keys / after unsubscribing, another client's watch / unwatch / "
             "disconnect never drops a subscription, highest-versioned notification is current. Plus MC_Watch "
             "(TLC, exhaustive): subscriptions across two databases with sessions that select the other "
             "database, unwatch, disconnect (leaving entries with a closed channel behind) and writes in "
             "either database, run sequentially on the real node and judged by NunKV group WATCH. Free-running rounds on top (real threads, no scheduler, no hook; Trace_Stress: order-independent consequences of the property, DESIGN A.19).",
        note="interleavings at yield-hook granularity; notifications attributed to writes by distinguishable "
             "values; a client never watches a key twice; channel capacity (100 lines) not exceeded",
        technique="TLA+ trace spec with call/linearisation/return indices + TLC trace validation; TLC-generated schedules",
        design="DESIGN.md §5 C03"),
    "C19": dict(
        level="model_checking",
        text="Newer-strategy database: seeded sequences of plain / versioned writes (below, at, above the "
             "current version) through process_request and through set_key_value (reply names the stored "
             "value) validated against NunKV group NEWER+WATCH; every pair of writes from two clients "
             "under TLC-enumerated lock-level interleavings validated against Trace_KVLin (never refused, "
             "takes effect or is superseded only by a concurrent/later change, version grows, notified "
             "exactly when the stored value changes). Free-running rounds on top (real threads, no scheduler, no hook; Trace_Stress: order-independent consequences of the property, DESIGN A.19).",
        note="replica part is covered by the cluster runs (C04) on newer databases; operation ids from a "
             "strictly increasing virtual clock",
        technique="TLA+ reference + linearizability trace spec, TLC trace validation; TLC-generated schedules",
        design="DESIGN.md §5 C19"),
    "C06": dict(
        level="model_checking",
        text="NunDisk (implementation-shaped: entries with persistence state and remembered record position, "
             "keys file as record sequence with generations, per-state snapshot plan, reclaim rewrite, loader) "
             "is checked by TLC exhaustively to the history bound for RestoreExact / NotCorrupt / "
             "PositionsValid and generates one history per (abstract state, operation); each history and "
             "seeded random ones (all three conflict strategies, values of varied byte length) run on the "
             "real node with real restarts; TLC validates against Trace_Restore (dump after restart = dump "
             "at the last completed snapshot incl. id and strategy). Every completed snapshot of those runs is "
             "also compared with the byte-level model NunDiskBytes (Trace_Snap: files after = the modelled "
             "file-system calls executed on the files before; in-memory addresses and states = the model's; "
             "the modelled loader on those files = the live entries), whose design-level exploration with "
             "RestoreExact / AddrsValid is NunDiskCrash (see C11). NunDisk's history records carry the model's memory "
             "after every step; where the node's entries (persistence state, version) differ from it, a second wave of "
             "histories (every sequence of up to three operations on that key, closed by snapshots and a restart) is "
             "explored from that step and judged by the same reference (DESIGN A.16).",
        note="declutter tick driven explicitly; restart = start_db sequence on the same directory (probed in "
             "a child process first because a damaged file can abort the loader)",
        technique="TLA+ reference (persisted = last completed snapshot) + TLC trace validation; TLC-generated histories",
        design="DESIGN.md §5 C06"),
    "C12": dict(
        level="model_checking",
        text="NunOplog transcribes read_operations_since_from_file into TLA+ and TLC compares it with the "
             "reference query on every time pattern of 0-9 records x every since, and every key/kind "
             "assignment of 0-4 records; the same families plus random logs are written as real record "
             "files by the real writer (also with rotation), queried through the real functions, and TLC "
             "validates each result (no miss, right labels, last_op_time, no record lost by rotation).",
        note="time stamps supplied by the harness; extra older entries are allowed; at most 10 files",
        technique="TLA+ transcription vs reference (TLC exhaustive) + TLC trace validation of real query results",
        design="DESIGN.md §5 C12"),
    "C15": dict(
        level="model_checking",
        text="NunPending: reference (sent / acknowledged sets) and the implementation-shaped counters side by "
             "side; TLC checks PendingImpl = PendingRef and counter sanity over all interleavings of "
             "register / ack for 2 operations x 3 nodes (duplicates, early and foreign acks) and generates "
             "one sequence per (state, event); each sequence is applied to the real register_pending_opp / "
             "acknowledge_pending_opp and TLC validates pending set, counters and ack results after every call. "
             "For histories of any length (re-sends make the counters unbounded) Apalache discharges an "
             "inductive invariant of the same accounting (NunPendingInd: entry present iff some node is "
             "outstanding; outstanding flags = sent minus acknowledged; rc - ac = number of outstanding nodes).",
        note="direct calls on a real Databases; membership stable; end-to-end accounting also observed in cluster "
             "runs; the inductive model restates NunPending's two actions without the history variable",
        technique="TLA+ reference + implementation twin (TLC exhaustive, Apalache inductive invariant) + TLC trace "
                  "validation of real calls",
        design="DESIGN.md §5 C15"),
    "C11": dict(
        level="fault_enumeration",
        text="Every file-system call on the snapshot path carries a crash_point hook; for a family of "
             "before/after datasets (new / updated / removed / incremented keys, values larger and smaller "
             "than the writer buffer, 12 new keys, incremental and reclaiming, 1-2 databases) the data "
             "directory is imaged after every call of the interrupted snapshot, every image is loaded by "
             "the real start-up code, and TLC validates each image against the reference Trace_Crash "
             "(start succeeds; every previously persisted key has its old or its being-written value and "
             "version; no phantom key; neighbours untouched). Design level: NunDiskCrash / NunDiskBytes model the "
             "write plan of storage_data_disk call by call (record encodings, BufWriter rule, in-place "
             "updates, renames) and the loader on torn files byte by byte; TLC explores client operations, "
             "snapshots and a kill between any two calls (invariants RestoreExact, AddrsValid, CrashSafeOrKnown; "
             "CrashSafe for a repaired plan). Conformance: every image's files must equal the files the model "
             "predicts for that cut and the loaded contents what the modelled loader reads from them; a failing "
             "image is accepted as a recorded finding only while the run follows the model.",
        note="kill model = process kill between file-system calls (buffered bytes lost, written bytes kept); "
             "power loss and torn single writes out of scope; start-up probed in a child process with "
             "address-space and time limits",
        technique="TLA+ byte-level model of the write plan and loader (TLC exploration with kills) + TLC trace validation of "
                  "crash images enumerated at every file-system call against the model and the reference",
        design="DESIGN.md §5 C11"),
    "C04": dict(
        level="model_checking",
        text="Cluster simulator: 2-3 real Databases with their real replication loop and supervisor, simulated "
             "FIFO links in place of the TCP dial; the cluster is formed through the real supervisor and link "
             "handshake; every operation kind at every node, seeded sequences of 2-8 operations at arbitrary "
             "nodes and two concurrent clients on the primary, under FIFO and seeded random FIFO-respecting "
             "delivery orders; TLC validates every trace against the ClusterMonitor reference Trace_Cluster "
             "(at quiescence every node has the primary's databases, values, live status and versions -- a removed key "
             "that two nodes still hold as a tombstone carries the same version on both; nothing pending). A case "
             "family writes the keys to every node's disk first (snapshot + declutter tick on every node), so that "
             "removes leave tombstones and later removes / writes / increments are judged against them.",
        note="links simulated (one FIFO per direction per dialled connection), per-line transport glue "
             "re-implemented in the harness; roles set directly (elections are C07); NunCluster (data path: "
             "set / versioned set / increment / remove at any node, node-local snapshot queue and disk set, drop-or-"
             "tombstone rule of remove, replication loop, copies, acks, echo) is "
             "explored exhaustively by TLC for one and two commands on 2-3 nodes (invariants Converged modulo "
             "the recorded deviations, NothingPending, Budget; liveness EventuallyQuiet) and its schedules are "
             "replayed step by step on the real nodes (drift measured, 0 on the pinned tree)",
        technique="TLA+ reference monitor (ClusterMonitor) + TLC trace validation of real multi-node runs on simulated links",
        design="DESIGN.md §5 C04"),
    "C14": dict(
        level="model_checking",
        text="Every client-visible command on every node of 2- and 3-node clusters (none / newer / arbiter "
             "databases), FIFO and random delivery orders, step budget far above the bound; TLC validates each "
             "trace against Trace_Cluster group BUDGET: quiescence is reached, per operation at most two "
             "forwards, two copies per secondary, one ack per copy, and no copy is ever sent by a non-primary.",
        note="messages counted on the simulated links; reply lines other than ok are acks or ignored session lines",
        technique="TLA+ reference monitor + TLC trace validation of real multi-node runs (message budget)",
        design="DESIGN.md §5 C14"),
    "C07": dict(
        level="model_checking",
        text="NunElect.tla is an implementation-shaped TLA+ model of the election and membership protocol "
             "(start_election wait loops, election_eval, set-primary / war, join, leave, end-of-stream handling, "
             "replication loop by role, pending-operation table, supervisor commands, connections with their "
             "handshakes). TLC explores established 2- and 3-node clusters x {forced election on each node, death "
             "of each node, two simultaneous triggers} over every order of deliveries, replies, loop steps and "
             "timer ticks (invariants: never two primaries, nobody left StartingUp, outcome good or a recorded "
             "mode, supervisor alive; liveness: every behaviour goes quiet) and start-up through mutual join "
             "requests by random walks; every complete model behaviour ending in a distinct state is replayed "
             "step by step on the real nodes in the cluster simulator. Every simulator run (those and the seeded "
             "FIFO / random ones) is validated by TLC against the model: after every step the real nodes' roles, "
             "member maps, pending table, queues, connection contents, session tags and parked election threads "
             "must equal the model's; the outcome at every quiescence is judged on runs that follow the model, "
             "runs that leave it are judged by the reference monitor Trace_Cluster without any recorded finding.",
        note="simulated links; NUN_ELECTION_TIMEOUT=10 ms; nodes start together; 3-node start-up and a forced "
             "election on the youngest of three are sampled by random walks, not exhausted (more than 10^7 states)",
        technique="explicit TLA+ model of the protocol checked with TLC + replay of TLC-generated schedules on the real "
                  "code + TLC trace validation of every real run against the model",
        design="DESIGN.md §A.7, §5 C07"),
    "C05": dict(
        level="model_checking",
        text="In the cluster simulator a secondary is killed and restarted (empty disk / older snapshot / "
             "clean declutter) and rejoins through the real join, set-primary and replicate-since handshake; "
             "the primary's history (multi-word, numeric-first and empty values, removes, increments, a "
             "database created while away) is split at random points into before / while-away / during-sync "
             "parts, the writes during the synchronisation interleaved with the catch-up deliveries. Every call "
             "of the primary's catch-up builder is recorded with its inputs (raw operation log read from the "
             "files, identifier maps, databases) and output lines, and TLC compares it with NunCatchUp.tla (the "
             "builder transcribed: full and incremental synchronisation); TLC then validates the trace against "
             "Trace_Cluster group CONV at the quiescence after the rejoin. NunSync.tla models the race of the catch-up "
             "with live replication at the granularity of the cluster-state lock (TLC: no lost write with the pinned "
             "lock scope, a lost write when the builder runs outside the lock); in the `race` case family the steps of "
             "the primary's replication loop and supervisor park before every acquisition of that lock (hook sites "
             "cluster_state.*) and the inputs of a catch-up call are those at the step's last resume.",
        note="the recorded catch-up defects are covered by one deviation for the rejoined node's data, enabled "
             "only in runs whose catch-up lines conform to NunCatchUp: for such a node the check decides "
             "termination, absence of other panics and convergence of every other node, not byte-exact "
             "resynchronisation; a changed builder makes every divergence a violation",
        technique="TLA+ transcription of the catch-up builder checked by TLC against every recorded call + TLA+ "
                  "reference monitor validating real rejoin runs on simulated links",
        design="DESIGN.md §A.8, §5 C05"),
    "C16": dict(
        level="fault_enumeration",
        text="NunIds.tla models the key-identifier protocol (register id, invalidate flag, append record, key-map "
             "snapshot in two steps, kill between any two steps, start-up that discards an invalid log) and TLC "
             "checks that after every start-up the log was discarded or decodes (the model with the repair of "
             "invalidate_oplog undone must reproduce the fixed finding). "
             "A node with its real replication loop (key-id registration, oplog append, oplog-valid flag, key "
             "map) runs every history of {first write of a new key, snapshot, kill + restart, clean shutdown + "
             "restart} up to length 4 (6 in the thorough tier) on a snapshotted database, and seeded histories "
             "of create-db / first writes of new keys / snapshots of a subset / "
             "clean shutdown / restart over 1-4 databases; after every restart, at the end, and on the "
             "directory image taken after every file-system call of those paths, a fresh node is started (on a "
             "copy, so that the node under test sees the directory as the kill left it) "
             "and every oplog record is decoded through its identifier maps; TLC validates each decode "
             "against Trace_Ids (log discarded, or every record decodes to the database and key it was "
             "written for; database identifiers distinct).",
        note="kill = process kill between file-system calls; single node; histories are seeded samples",
        technique="explicit TLA+ model of the key-identifier / flag-file protocol with kills between file-system steps "
                  "(NunIds, TLC) + TLA+ reference trace spec validating oplog decodes after restarts and crash images",
        design="DESIGN.md §5 C16"),
    "C13": dict(
        level="model_checking",
        text="MC_Arbiter (TLC, exhaustive over arbiter status x queue lengths x notices held) generates every "
             "(state, action) history of plain / stale writes on two keys (one name extending the other), "
             "arbiter register / disconnect / re-register and resolve of the i-th outstanding notice; each "
             "history and seeded longer ones run on the real node (the harness answers real notices, echoing "
             "op id and version); TLC validates every step against the reference Trace_Arbiter (refused and "
             "unchanged while no arbiter ever registered; otherwise value kept, exactly one new $conflicts_ "
             "record, notice to every connected arbiter, FIFO queue per key; a new arbiter gets exactly the "
             "unresolved conflicts; after the last resolution the key holds that value and is writable).",
        note="single node only: on a cluster `resolve` never quiesces (finding F22), so replicas holding the "
             "resolved value cannot be checked; values without spaces",
        technique="TLA+ reference conflict-queue spec + TLC trace validation; TLC-generated histories",
        design="DESIGN.md §5 C13"),
    "C18": dict(
        level="model_checking",
        text="The C06 histories (sample of the NunDisk transition cover + seeded random ones, all three "
             "conflict strategies) run with NUN_STORAGE_STRATEGY = s3 and s3_patition (1, 3, 10 partitions) "
             "against an in-process S3-compatible stub (PutObject / GetObject / ListObjectsV2 over tiny_http), "
             "also with faults: the n-th PUT request refused once (hidden by the SDK's own retry) or from then on, "
             "every SDK attempt of the n-th PutObject operation refused (the node's own retry must upload the "
             "same object again) or of every operation from then on; TLC validates each trace against the same "
             "reference as the disk strategy (Trace_Restore: dump after restart = dump at the last completed "
             "snapshot incl. id and strategy; a failing upload must end the snapshot run with a report, after "
             "which every key has the value of the last completed snapshot or of the reported attempt).",
        note="stub has strong read-after-write consistency and ignores signatures / checksums; SDK attempts of "
             "one operation are told apart by the amz-sdk-request header; one harness process per "
             "configuration; histories are samples",
        technique="TLA+ reference (same as disk) + TLC trace validation of real runs against an S3 stub with fault injection",
        design="DESIGN.md §5 C18"),
}

NOT_YET = "check not built yet (build in progress; see DESIGN.md §8 build order)"


def main():
    props = [json.loads(l) for l in open(os.path.join(VERIF, "properties.jsonl"))]
    checks = []
    for p in props:
        c = CHECKS.get(p["id"])
        if not c:
            continue
        checks.append({
            "property_id": p["id"],
            "quick_cmd": "./check %s --tier quick" % p["id"],
            "thorough_cmd": "./check %s --tier thorough" % p["id"],
            "evidence_file": "evidence/%s.json" % p["id"],
            "replay_cmd_template": "./check %s --replay {path}" % p["id"],
            "engine": "tla-conformance",
            "level_claimed": {"category": c["level"], "text": c["text"], "design_ref": c["design"]},
            "level_note": c["note"],
            "technique": c["technique"],
        })
    m = {
        "version": 1,
        "setup_cmd": "./setup.sh",
        "hooks": {
            "guard": "--cfg nun_verif",
            "enable": "harness/.cargo/config.toml sets rustflags --cfg nun_verif; the harness crate has a "
                      "path dependency on /repo, so every check rebuilds /repo's working tree with hooks on",
            "baseline_off_cmd": "cd /repo && cargo test --workspace --no-fail-fast --offline",
            "source_commits": ["a1f9077", "df1d841", "6ce3f5a", "6738923", "240d207"],
            "add_only": True,
        },
        "engines": [{
            "name": "tla-conformance",
            "path": "check",
            "serves_properties": sorted(CHECKS),
            "kind_free_text": "explicit TLA+ specifications (spec/), TLC model checking + case generation, "
                              "Rust harness executing cases on the real code, TLC trace validation",
        }],
        "checks": checks,
        "notes": "Exit 2 = tool error (never a violation). Known findings: known_findings.json. See DESIGN.md.",
        "not_applicable": [{"property_id": p["id"], "reason": NOT_YET}
                           for p in props if p["id"] not in CHECKS],
    }
    json.dump(m, open(os.path.join(VERIF, "MANIFEST.json"), "w"), indent=1)


if __name__ == "__main__":
    main()
