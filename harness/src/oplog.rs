//! C12: real operation-log files written through the real writer (`Oplog::try_write_op_log`,
//! with rotation when NUN_MAX_OP_LOG_SIZE is small), queried through the real
//! `read_operations_since` / `Oplog::last_op_time`.
use crate::node::*;
use nundb::bo::ReplicateOpp;
use nundb::disk_ops::{read_operations_since, Oplog};
use serde_json::{json, Value as J};
use std::io::{BufRead, BufWriter, Write};
use std::panic::{catch_unwind, AssertUnwindSafe};

fn opp_of(n: u64) -> ReplicateOpp {
    match n {
        1 => ReplicateOpp::Remove,
        2 => ReplicateOpp::CreateDb,
        3 => ReplicateOpp::Snapshot,
        _ => ReplicateOpp::Update,
    }
}

fn count_records(path: &std::path::Path) -> u64 {
    std::fs::metadata(path).map(|m| m.len() / 25).unwrap_or(0)
}

pub fn main(args: &[String]) {
    let cases = std::fs::File::open(&args[0]).expect("cases file");
    let mut out = BufWriter::new(std::fs::File::create(&args[1]).expect("trace file"));
    let workdir = &args[2];
    std::fs::create_dir_all(workdir).unwrap();
    silence_panics();
    for (n, line) in std::io::BufReader::new(cases).lines().enumerate() {
        let line = line.unwrap();
        if line.trim().is_empty() {
            continue;
        }
        let case: J = serde_json::from_str(&line).expect("case json");
        let id = case["id"].as_str().unwrap_or("?").to_string();
        let dir = format!("{}/oplog-{}-{}", workdir, std::process::id(), n);
        let _ = std::fs::remove_dir_all(&dir);
        std::fs::create_dir_all(&dir).unwrap();
        nundb::verif::set_data_dir(Some(dir.clone()));
        writeln!(out, "{}", json!({"ev":"reset","run":id})).unwrap();
        let empty = vec![];
        let recs = case["log"].as_array().unwrap_or(&empty);
        let wrote = catch_unwind(AssertUnwindSafe(|| {
            let mut stream = Oplog::get_log_file_append_mode();
            let mut results = vec![];
            for r in recs {
                let (t, k, d, o) = (r[0].as_u64().unwrap(), r[1].as_u64().unwrap(), r[2].as_u64().unwrap(), r[3].as_u64().unwrap());
                let res = Oplog::try_write_op_log(&mut stream, Some(d), k, &opp_of(o), t);
                results.push(res.is_ok());
            }
            drop(stream);
            if case["reopen"].as_bool() == Some(true) {
                // what a restart does: open the log for appending again (rotates a full file)
                let _ = Oplog::get_log_file_append_mode();
            }
            results
        }));
        let mut files = serde_json::Map::new();
        files.insert("current".to_string(), json!(count_records(std::path::Path::new(&format!("{}/oplog-nun.op", dir)))));
        let mut rotated = vec![];
        if let Ok(rd) = std::fs::read_dir(format!("{}/oplog", dir)) {
            for e in rd.flatten() {
                rotated.push(count_records(&e.path()));
            }
        }
        files.insert("rotated".to_string(), json!(rotated));
        let mut queries = vec![];
        for s in case["sinces"].as_array().unwrap_or(&empty) {
            let since = s.as_u64().unwrap();
            let r = catch_unwind(AssertUnwindSafe(|| read_operations_since(since)));
            match r {
                Ok(map) => {
                    let mut m = serde_json::Map::new();
                    for (k, rec) in map.iter() {
                        m.insert(k.clone(), json!([rec.timestamp, rec.opp.to_u8()]));
                    }
                    queries.push(json!({"since": since, "cls": "ok", "ret": m}));
                }
                Err(e) => queries.push(json!({"since": since, "cls": "panic", "msg": panic_msg(e), "ret": {}})),
            }
        }
        let lot = catch_unwind(AssertUnwindSafe(|| Oplog::last_op_time()));
        let ev = json!({"ev":"oplog","run":id,"i":0,"log":recs,
                        "written": match wrote { Ok(v) => json!(v), Err(e) => json!(panic_msg(e)) },
                        "files": files, "queries": queries,
                        "last_op_time": match lot { Ok(t) => json!(t), Err(_) => json!(-1) }});
        writeln!(out, "{}", ev).unwrap();
        let _ = std::fs::remove_dir_all(&dir);
    }
    out.flush().unwrap();
}
