//! Real HTTP transport runner (C20): bodies are POSTed to the node's own HTTP server
//! (`start_http_client`, loopback), and the same commands are run one by one through
//! `process_request` on a twin node so that the outcome of every single command is known.
use crate::node::*;
use nundb::bo::ClusterRole;
use serde_json::{json, Value as J};
use std::io::{BufRead, BufWriter, Read, Write};
use std::net::{TcpListener, TcpStream};
use std::sync::Arc;
use std::time::Duration;

pub fn free_port() -> u16 {
    let l = TcpListener::bind("127.0.0.1:0").unwrap();
    l.local_addr().unwrap().port()
}

pub fn post(port: u16, body: &str) -> Result<String, String> {
    let mut s = TcpStream::connect(("127.0.0.1", port)).map_err(|e| e.to_string())?;
    s.set_read_timeout(Some(Duration::from_secs(10))).ok();
    let req = format!(
        "POST / HTTP/1.1\r\nHost: localhost\r\nContent-Length: {}\r\nConnection: close\r\n\r\n{}",
        body.as_bytes().len(),
        body
    );
    s.write_all(req.as_bytes()).map_err(|e| e.to_string())?;
    let mut resp = Vec::new();
    s.read_to_end(&mut resp).map_err(|e| e.to_string())?;
    let text = String::from_utf8_lossy(&resp).to_string();
    match text.find("\r\n\r\n") {
        Some(i) => {
            if !text.starts_with("HTTP/1.1 200") {
                return Err(format!("status {}", text.lines().next().unwrap_or("")));
            }
            Ok(text[i + 4..].to_string())
        }
        None => Err("no response".to_string()),
    }
}

struct Pair {
    h: Node,
    t: Node,
    port: u16,
    ws_port: u16,
}

fn start_pair(workdir: &str, n: usize) -> Pair {
    let dh = format!("{}/h-{}-{}", workdir, std::process::id(), n);
    let dt = format!("{}/t-{}-{}", workdir, std::process::id(), n);
    let _ = std::fs::remove_dir_all(&dh);
    let _ = std::fs::remove_dir_all(&dt);
    let h = Node::start("nodeh", &dh, "admin", "adminpwd", ClusterRole::Primary).unwrap();
    let t = Node::start("nodet", &dt, "admin", "adminpwd", ClusterRole::Primary).unwrap();
    let port = free_port();
    let dbs = h.dbs.clone();
    let addr = Arc::new(format!("127.0.0.1:{}", port));
    let dir = dh.clone();
    std::thread::spawn(move || {
        nundb::verif::set_global_data_dir(Some(dir));
        nundb::network::http_ops::start_http_client(dbs, addr);
    });
    // wait until it accepts (a server that does not come up is a failure of the harness, never a verdict)
    let up = |port: u16| {
        for _ in 0..2000 {
            if TcpStream::connect(("127.0.0.1", port)).is_ok() {
                return true;
            }
            std::thread::sleep(Duration::from_millis(10));
        }
        false
    };
    if !up(port) {
        eprintln!("cannot start the HTTP server on port {}", port);
        std::process::exit(3);
    }
    let ws_port = crate::net::start_ws(h.dbs.clone());
    if !up(ws_port) {
        eprintln!("cannot start the WebSocket server on port {}", ws_port);
        std::process::exit(3);
    }
    Pair { h, t, port, ws_port }
}

pub fn main(args: &[String]) {
    let cases = std::fs::File::open(&args[0]).expect("cases file");
    let mut out = BufWriter::new(std::fs::File::create(&args[1]).expect("trace file"));
    let workdir = &args[2];
    std::fs::create_dir_all(workdir).unwrap();
    install_virtual_clock();
    silence_panics();
    let mut gen = 0;
    let mut pair = start_pair(workdir, gen);
    for (n, line) in std::io::BufReader::new(cases).lines().enumerate() {
        let line = line.unwrap();
        if line.trim().is_empty() {
            continue;
        }
        let case: J = serde_json::from_str(&line).expect("case json");
        let id = case["id"].as_str().unwrap_or("?").to_string();
        let db = format!("d{}", n);
        let sub = |s: &str| s.replace("{db}", &db);
        writeln!(out, "{}", json!({"ev":"reset","run":id,"db":db})).unwrap();
        let empty = vec![];
        // set-up on both nodes through process_request
        for st in case["steps"].as_array().unwrap_or(&empty) {
            let c = format!("{}-{}", st["c"].as_str().unwrap_or("a"), n);
            let l = sub(st["line"].as_str().unwrap());
            pair.h.exec(&c, &l);
            pair.t.exec(&c, &l);
        }
        pair.h.drain_all();
        pair.t.drain_all();
        pair.h.side_state();
        pair.t.side_state();
        for (i, b) in case["bodies"].as_array().unwrap_or(&empty).iter().enumerate() {
            let body = sub(b["body"].as_str().unwrap());
            // one WebSocket text frame instead of an HTTP body: the replies come back as frames
            let over_ws = case["transport"].as_str() == Some("ws");
            let mut frames: Vec<String> = vec![];
            let resp = if over_ws {
                match crate::net::Conn::ws(pair.ws_port) {
                    Ok(mut k) => match k.send(&body) {
                        Ok(_) => {
                            frames = k.collect_until_quiet(Duration::from_millis(80));
                            k.close();
                            std::thread::sleep(Duration::from_millis(60));
                            Ok(String::new())
                        }
                        Err(e) => Err(e),
                    },
                    Err(e) => Err(e),
                }
            } else {
                post(pair.port, &body)
            };
            // twin: one fresh session, command by command
            let c = format!("h{}-{}", n, i);
            let mut twin = vec![];
            for cmd in b["cmds"].as_array().unwrap_or(&empty) {
                let l = sub(cmd["line"].as_str().unwrap());
                let r = pair.t.exec(&c, &l);
                let lines = pair.t.drain_all();
                let own: Vec<J> = lines.get(&c).and_then(|x| x.as_array()).cloned().unwrap_or(vec![]);
                twin.push(json!({"line": l, "op": cmd["op"], "r": r, "lines": own}));
            }
            pair.t.close(&c);
            pair.t.drain_all();
            let mut ev = json!({"ev": if over_ws { "ws" } else { "http" },"run":id,"i":i,"body":body,"twin":twin,"db":db,
                                "frames":frames});
            match resp {
                Ok(text) => {
                    ev["resp"] = json!(text);
                    ev["alive"] = json!(true);
                }
                Err(e) => {
                    ev["resp"] = json!("");
                    ev["alive"] = json!(false);
                    ev["err"] = json!(e);
                }
            }
            let dh = pair.h.dump();
            let dt = pair.t.dump();
            ev["dumpH"] = dh.get(&db).cloned().unwrap_or(json!({}));
            ev["dumpT"] = dt.get(&db).cloned().unwrap_or(json!({}));
            writeln!(out, "{}", ev).unwrap();
            if ev["alive"] == json!(false) {
                // a worker died (or the request failed): continue on a fresh pair of nodes
                gen += 1;
                pair = start_pair(workdir, gen);
                break;
            }
        }
    }
    out.flush().unwrap();
    std::process::exit(0); // server threads never end
}
