//! C16: one node with its real replication loop (which assigns key ids, writes the
//! operation log and the oplog-valid flag); restarts and kill images; after every
//! (re)start the operation log is decoded through the restarted node's id maps and
//! compared with what each record was written for.
use crate::node::*;
use std::convert::TryInto;
use futures::channel::mpsc::{channel, Receiver, Sender};
use nundb::bo::ClusterRole;
use serde_json::{json, Value as J};
use std::collections::VecDeque;
use std::future::Future;
use std::io::{BufRead, BufWriter, Read, Write};
use std::panic::{catch_unwind, AssertUnwindSafe};
use std::pin::Pin;
use std::sync::{Arc, Mutex};
use std::task::{Context, Poll};

fn poll_once(f: &mut Pin<Box<dyn Future<Output = ()>>>) {
    let waker = futures::task::noop_waker();
    let mut cx = Context::from_waker(&waker);
    let _ = matches!(f.as_mut().poll(&mut cx), Poll::Ready(_));
}

fn copy_dir(src: &str, dst: &str) {
    std::fs::create_dir_all(dst).unwrap();
    if let Ok(rd) = std::fs::read_dir(src) {
        for e in rd.flatten() {
            let p = e.path();
            let name = e.file_name().into_string().unwrap();
            if p.is_dir() {
                copy_dir(p.to_str().unwrap(), &format!("{}/{}", dst, name));
            } else {
                let _ = std::fs::copy(&p, format!("{}/{}", dst, name));
            }
        }
    }
}

pub fn read_records(dir: &str) -> Vec<(u64, u64, u64, u8)> {
    let mut files: Vec<std::path::PathBuf> = vec![];
    if let Ok(rd) = std::fs::read_dir(format!("{}/oplog", dir)) {
        for e in rd.flatten() {
            files.push(e.path());
        }
    }
    files.sort();
    files.push(std::path::PathBuf::from(format!("{}/oplog-nun.op", dir)));
    let mut out = vec![];
    for f in files {
        let mut buf = vec![];
        if let Ok(mut fh) = std::fs::File::open(&f) {
            let _ = fh.read_to_end(&mut buf);
        }
        for ch in buf.chunks(25) {
            if ch.len() < 25 {
                break;
            }
            let t = u64::from_le_bytes(ch[0..8].try_into().unwrap());
            let k = u64::from_le_bytes(ch[8..16].try_into().unwrap());
            let d = u64::from_le_bytes(ch[16..24].try_into().unwrap());
            out.push((t, k, d, ch[24]));
        }
    }
    out
}

/// Starts a node on `dir` (as after a restart) and decodes every oplog record through it.
/// Decodes on a copy of the directory: a start-up changes the directory (an invalid log is
/// discarded, the flag file removed), and the node under test must see it as the kill left it.
fn decode(dir: &str) -> J {
    let copy = format!("{}-dec", dir);
    let _ = std::fs::remove_dir_all(&copy);
    copy_dir(dir, &copy);
    let r = decode_in(&copy);
    let _ = std::fs::remove_dir_all(&copy);
    r
}

fn decode_in(dir: &str) -> J {
    // a damaged directory must not take the harness down: probe in a child first (on its own copy)
    let probe_dir = format!("{}-probe", dir);
    let _ = std::fs::remove_dir_all(&probe_dir);
    copy_dir(dir, &probe_dir);
    let exe = std::env::current_exe().unwrap();
    let probe = std::process::Command::new("sh")
        .arg("-c")
        .arg("ulimit -v 6000000; exec timeout 20 \"$0\" probe-load \"$1\" admin adminpwd")
        .arg(exe)
        .arg(&probe_dir)
        .stdout(std::process::Stdio::null())
        .stderr(std::process::Stdio::null())
        .status();
    let _ = std::fs::remove_dir_all(&probe_dir);
    if !matches!(probe, Ok(s) if s.success()) {
        return json!({"start": "fail", "valid": false, "records": [], "dbids": {}, "nometa": []});
    }
    let node = match Node::start("n1", dir, "admin", "adminpwd", ClusterRole::Primary) {
        Ok(n) => n,
        Err(_) => return json!({"start": "fail", "valid": false, "records": [], "dbids": {}, "nometa": []}),
    };
    let valid = node.dbs.is_oplog_valid.load(std::sync::atomic::Ordering::SeqCst);
    let idk = node.dbs.id_keys_map.read().unwrap().clone();
    let idd = node.dbs.id_name_db_map.read().unwrap().clone();
    let mut recs = vec![];
    for (t, k, d, o) in read_records(dir) {
        let dbn = idd.get(&d).cloned().unwrap_or("-".to_string());
        let kn = if o == 2 || o == 3 { "#".to_string() } else { idk.get(&k).cloned().unwrap_or("-".to_string()) };
        recs.push(json!([t, dbn, kn, o, d]));
    }
    let mut dbids = serde_json::Map::new();
    let mut nometa: Vec<String> = vec![];
    if let Ok(map) = node.dbs.map.read() {
        for (n, db) in map.iter() {
            dbids.insert(n.clone(), json!(db.metadata.id));
            // a database whose metadata file is not on disk was given an identifier by the loader
            if n != "$admin" && !std::path::Path::new(&format!("{}/{}-nun.madadata", dir, n)).exists()
                && !std::path::Path::new(&nundb::storage::disk::meta_file_name_from_db_name(n.clone())).exists() {
                nometa.push(n.clone());
            }
        }
    }
    nometa.sort();
    json!({"start": "ok", "valid": valid, "records": recs, "dbids": dbids, "nometa": nometa})
}

/// The same decoding through the identifier maps of the RUNNING node (what its catch-up builder would use).
fn decode_live(node: &Node, dir: &str) -> J {
    let idk = node.dbs.id_keys_map.read().map(|m| m.clone()).unwrap_or_default();
    let idd = node.dbs.id_name_db_map.read().map(|m| m.clone()).unwrap_or_default();
    let mut recs = vec![];
    for (t, k, d, o) in read_records(dir) {
        let dbn = idd.get(&d).cloned().unwrap_or("-".to_string());
        let kn = if o == 2 || o == 3 { "#".to_string() } else { idk.get(&k).cloned().unwrap_or("-".to_string()) };
        recs.push(json!([t, dbn, kn, o, d]));
    }
    let mut dbids = serde_json::Map::new();
    if let Ok(map) = node.dbs.map.read() {
        for (n, db) in map.iter() {
            dbids.insert(n.clone(), json!(db.metadata.id));
        }
    }
    json!({"start": "ok", "valid": true, "records": recs, "dbids": dbids, "nometa": []})
}

struct Run {
    node: Node,
    repl_tx: Sender<String>,
    repl_fut: Pin<Box<dyn Future<Output = ()>>>,
    q: VecDeque<String>,
}

fn start_run(dir: &str) -> Result<Run, String> {
    let node = Node::start("n1", dir, "admin", "adminpwd", ClusterRole::Primary)?;
    let (repl_tx, rx2): (Sender<String>, Receiver<String>) = channel(1000);
    nundb::verif::set_data_dir(Some(dir.to_string()));
    let mut repl_fut: Pin<Box<dyn Future<Output = ()>>> =
        Box::pin(nundb::replication_ops::start_replication_thread(rx2, node.dbs.clone()));
    poll_once(&mut repl_fut);
    Ok(Run { node, repl_tx, repl_fut, q: VecDeque::new() })
}

fn intent_of(msg: &str) -> Vec<(u64, String, String)> {
    // "rp <id> <inner>"
    let mut p = msg.splitn(3, ' ');
    let _ = p.next();
    let id: u64 = p.next().unwrap_or("0").parse().unwrap_or(0);
    let inner = p.next().unwrap_or("");
    let w: Vec<&str> = inner.split(' ').collect();
    match w.get(0).cloned().unwrap_or("") {
        "replicate" | "replicate-remove" | "replicate-increment" => {
            vec![(id, w.get(1).unwrap_or(&"").to_string(), w.get(2).unwrap_or(&"").to_string())]
        }
        "create-db" => vec![(id, w.get(1).unwrap_or(&"").to_string(), "#".to_string())],
        "replicate-snapshot" => w.get(1).unwrap_or(&"").split('|').map(|d| (id, d.to_string(), "#".to_string())).collect(),
        _ => vec![],
    }
}

pub fn run_case(case: &J, workdir: &str, out: &mut dyn Write, n: usize) -> Result<(), String> {
    let id = case["id"].as_str().unwrap_or("?").to_string();
    let dir = format!("{}/ids-{}-{}", workdir, std::process::id(), n);
    let img_root = format!("{}-img", dir);
    let _ = std::fs::remove_dir_all(&dir);
    let _ = std::fs::remove_dir_all(&img_root);
    VCLOCK.store(1000, std::sync::atomic::Ordering::SeqCst);
    let mut run = start_run(&dir)?;
    writeln!(out, "{}", json!({"ev":"reset","run":id})).map_err(|e| e.to_string())?;
    let crash = case["crash"].as_bool() == Some(true);
    let images: Arc<Mutex<Vec<(String, Vec<(u64, String, String)>)>>> = Arc::new(Mutex::new(vec![]));
    let intents: Arc<Mutex<Vec<(u64, String, String)>>> = Arc::new(Mutex::new(vec![]));
    if crash {
        let (imgs, src, root, ints) = (images.clone(), dir.clone(), img_root.clone(), intents.clone());
        nundb::verif::set_crash_hook(Some(Arc::new(move |site: &str| {
            let mut s = imgs.lock().unwrap();
            let k = s.len();
            copy_dir(&src, &format!("{}/{}", root, k));
            // what the log may contain at this instant: the intents so far (kept with the image: a
            // later restart that discards the log also forgets them)
            let so_far = ints.lock().unwrap().clone();
            s.push((site.to_string(), so_far));
        })));
    }
    let empty = vec![];
    let intents_json = |ints: &Vec<(u64, String, String)>| -> J {
        json!(ints.iter().map(|(t, d, k)| json!([t, d, k])).collect::<Vec<J>>())
    };
    for (i, st) in case["steps"].as_array().unwrap_or(&empty).iter().enumerate() {
        if let Some(line) = st.get("line").and_then(|l| l.as_str()) {
            let c = st["c"].as_str().unwrap_or("a");
            let r = run.node.exec(c, line);
            writeln!(out, "{}", json!({"ev":"cmd","run":id,"i":i,"line":line,"cls":r["cls"]})).map_err(|e| e.to_string())?;
        } else if st.get("tick").is_some() {
            let r = run.node.tick();
            writeln!(out, "{}", json!({"ev":"tick","run":id,"i":i,"cls":r["cls"]})).map_err(|e| e.to_string())?;
        } else if st.get("shutdown").is_some() {
            // clean shutdown (SIGINT handler): keys first, then pending snapshots
            let dbs = run.node.dbs.clone();
            let _ = catch_unwind(AssertUnwindSafe(|| nundb::db_ops::safe_shutdown(&dbs)));
            writeln!(out, "{}", json!({"ev":"shutdown","run":id,"i":i})).map_err(|e| e.to_string())?;
        } else if st.get("restart").is_some() {
            drop(run);
            let ints = intents.lock().unwrap().clone();
            let dec = decode(&dir);
            writeln!(out, "{}", json!({"ev":"check","kind":"restart","run":id,"i":i,"dec":dec,"intents":intents_json(&ints)})).map_err(|e| e.to_string())?;
            if dec["start"] != "ok" {
                nundb::verif::set_crash_hook(None);
                return Ok(());
            }
            if dec["valid"] == json!(false) {
                intents.lock().unwrap().clear(); // the log was discarded
            }
            run = start_run(&dir)?;
        }
        // the replication loop handles what the commands queued, one entry at a time
        for m in drain(&mut run.node.repl_rx) {
            run.q.push_back(m);
        }
        while let Some(m) = run.q.pop_front() {
            for it in intent_of(&m) {
                intents.lock().unwrap().push(it);
            }
            nundb::verif::set_data_dir(Some(dir.clone()));
            if run.repl_tx.try_send(m).is_ok() {
                let f = &mut run.repl_fut;
                let _ = catch_unwind(AssertUnwindSafe(|| poll_once(f)));
            }
            for m2 in drain(&mut run.node.repl_rx) {
                run.q.push_back(m2);
            }
        }
        // a command that touches the database table (accepted or refused): the log must still decode through
        // the maps of the running node
        if st.get("line").and_then(|l| l.as_str()).map(|l| l.starts_with("create-db")).unwrap_or(false) {
            let ints = intents.lock().unwrap().clone();
            let dec = decode_live(&run.node, &dir);
            writeln!(out, "{}", json!({"ev":"check","kind":"live","run":id,"i":i,"dec":dec,"intents":intents_json(&ints)})).map_err(|e| e.to_string())?;
        }
    }
    nundb::verif::set_crash_hook(None);
    drop(run);
    let ints = intents.lock().unwrap().clone();
    let dec = decode(&dir);
    writeln!(out, "{}", json!({"ev":"check","kind":"end","run":id,"i":9999,"dec":dec,"intents":intents_json(&ints)})).map_err(|e| e.to_string())?;
    if crash {
        let imgs = images.lock().unwrap().clone();
        for (k, (site, upto)) in imgs.iter().enumerate() {
            let idir = format!("{}/{}", img_root, k);
            let dec = decode(&idir);
            writeln!(out, "{}", json!({"ev":"check","kind":"image","site":site,"run":id,"i":k,"dec":dec,"intents":intents_json(upto)})).map_err(|e| e.to_string())?;
        }
    }
    let _ = std::fs::remove_dir_all(&dir);
    let _ = std::fs::remove_dir_all(&img_root);
    Ok(())
}

pub fn main(args: &[String]) {
    let cases = std::fs::File::open(&args[0]).expect("cases file");
    let mut out = BufWriter::new(std::fs::File::create(&args[1]).expect("trace file"));
    let workdir = &args[2];
    std::fs::create_dir_all(workdir).unwrap();
    install_virtual_clock();
    silence_panics();
    for (n, line) in std::io::BufReader::new(cases).lines().enumerate() {
        let line = line.unwrap();
        if line.trim().is_empty() {
            continue;
        }
        let case: J = serde_json::from_str(&line).expect("case json");
        if let Err(e) = run_case(&case, workdir, &mut out, n) {
            writeln!(out, "{}", json!({"ev":"tool_error","run":case["id"],"msg":e})).unwrap();
        }
    }
    out.flush().unwrap();
}
