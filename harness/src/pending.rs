//! C15: direct calls to the primary's pending-operation accounting.
use crate::node::*;
use nundb::bo::ClusterRole;
use serde_json::{json, Value as J};
use std::io::{BufRead, BufWriter, Write};
use std::panic::{catch_unwind, AssertUnwindSafe};

pub fn main(args: &[String]) {
    let cases = std::fs::File::open(&args[0]).expect("cases file");
    let mut out = BufWriter::new(std::fs::File::create(&args[1]).expect("trace file"));
    let workdir = &args[2];
    std::fs::create_dir_all(workdir).unwrap();
    install_virtual_clock();
    silence_panics();
    let dir = format!("{}/pending-{}", workdir, std::process::id());
    for line in std::io::BufReader::new(cases).lines() {
        let line = line.unwrap();
        if line.trim().is_empty() {
            continue;
        }
        let case: J = serde_json::from_str(&line).expect("case json");
        let id = case["id"].as_str().unwrap_or("?").to_string();
        let _ = std::fs::remove_dir_all(&dir);
        let node = Node::start("node1", &dir, "admin", "adminpwd", ClusterRole::Primary).unwrap();
        writeln!(out, "{}", json!({"ev":"reset","run":id})).unwrap();
        let empty = vec![];
        for (i, st) in case["steps"].as_array().unwrap_or(&empty).iter().enumerate() {
            let op = st["op"].as_u64().unwrap();
            let n = st["node"].as_str().unwrap().to_string();
            let kind = st["ev"].as_str().unwrap();
            let dbs = node.dbs.clone();
            let r = catch_unwind(AssertUnwindSafe(|| {
                if kind == "register" {
                    dbs.register_pending_opp(op, format!("set-primary x{}", op), &n);
                    true
                } else if kind == "leave" {
                    // what `leave` / `replicate-leave`, a dying connection and a re-join do to the member
                    dbs.remove_cluster_member(&n);
                    true
                } else {
                    dbs.acknowledge_pending_opp(op, &n)
                }
            }));
            let (cls, ret) = match r {
                Ok(b) => ("ok", b),
                Err(_) => ("panic", false),
            };
            let mut pend: Vec<u64> = match node.dbs.pending_opps.read() {
                Ok(p) => p.keys().cloned().collect(),
                Err(_) => vec![999999],
            };
            pend.sort();
            let counts: Vec<J> = pend.iter().map(|o| match node.dbs.get_pending_opp_copy(*o) {
                Some(c) => json!([o, c.count_replication(), c.count_acknowledged()]),
                None => json!([o, -1, -1]),
            }).collect();
            let state = node.dbs.get_oplog_state();
            writeln!(out, "{}", json!({"ev":kind,"run":id,"i":i,"op":op,"node":n,"cls":cls,"ret":ret,
                                        "pending":pend,"counts":counts,"state":state})).unwrap();
        }
    }
    let _ = std::fs::remove_dir_all(&dir);
    out.flush().unwrap();
}
