//! Real transports for a node: the TCP text protocol (tcp_ops::start_tcp_client) and the WebSocket
//! server (ws_ops::start_web_socket_client) run on loopback ports; a session of a case is one
//! socket.  Used where the property speaks about connections (C17) and input robustness (C10):
//! connect, command lines, and the disconnect as the server's socket code sees it.
use serde_json::{json, Value as J};
use std::io::{Read, Write};
use std::net::TcpStream;
use std::time::{Duration, Instant};

pub enum Conn {
    Tcp { s: TcpStream, buf: Vec<u8> },
    Ws { s: TcpStream, buf: Vec<u8> },
}

fn connect(port: u16) -> Result<TcpStream, String> {
    for _ in 0..200 {
        match TcpStream::connect(("127.0.0.1", port)) {
            Ok(s) => {
                s.set_nodelay(true).ok();
                return Ok(s);
            }
            Err(_) => std::thread::sleep(Duration::from_millis(10)),
        }
    }
    Err(format!("cannot connect to 127.0.0.1:{}", port))
}

impl Conn {
    pub fn tcp(port: u16) -> Result<Conn, String> {
        let s = connect(port)?;
        let mut c = Conn::Tcp { s, buf: vec![] };
        // the server greets every new connection with `ok`
        let deadline = Instant::now() + Duration::from_millis(10000);
        loop {
            c.fill(Duration::from_millis(5));
            if !c.take_messages().is_empty() || Instant::now() > deadline {
                break;
            }
        }
        Ok(c)
    }

    pub fn ws(port: u16) -> Result<Conn, String> {
        let mut s = connect(port)?;
        let req = format!(
            "GET / HTTP/1.1\r\nHost: 127.0.0.1:{}\r\nUpgrade: websocket\r\nConnection: Upgrade\r\n\
             Sec-WebSocket-Key: dGhlIHNhbXBsZSBub25jZQ==\r\nSec-WebSocket-Version: 13\r\n\r\n", port);
        s.write_all(req.as_bytes()).map_err(|e| e.to_string())?;
        // read the response head
        let mut head = vec![];
        let mut b = [0u8; 1];
        s.set_read_timeout(Some(Duration::from_millis(2000))).ok();
        while !head.ends_with(b"\r\n\r\n") {
            match s.read(&mut b) {
                Ok(1) => head.push(b[0]),
                _ => return Err("websocket handshake failed".to_string()),
            }
        }
        if !String::from_utf8_lossy(&head).contains(" 101 ") {
            return Err(format!("websocket handshake refused: {}", String::from_utf8_lossy(&head)));
        }
        Ok(Conn::Ws { s, buf: vec![] })
    }

    /// Sends one command line (TCP) / one text frame (WebSocket).
    pub fn send(&mut self, line: &str) -> Result<(), String> {
        match self {
            Conn::Tcp { s, .. } => s.write_all(format!("{}\n", line).as_bytes()).map_err(|e| e.to_string()),
            Conn::Ws { s, .. } => {
                let payload = line.as_bytes();
                let mut f = vec![0x81u8];
                let mask = [0x12u8, 0x34, 0x56, 0x78];
                if payload.len() < 126 {
                    f.push(0x80 | payload.len() as u8);
                } else if payload.len() < 65536 {
                    f.push(0x80 | 126);
                    f.extend_from_slice(&(payload.len() as u16).to_be_bytes());
                } else {
                    f.push(0x80 | 127);
                    f.extend_from_slice(&(payload.len() as u64).to_be_bytes());
                }
                f.extend_from_slice(&mask);
                for (i, b) in payload.iter().enumerate() {
                    f.push(b ^ mask[i % 4]);
                }
                s.write_all(&f).map_err(|e| e.to_string())
            }
        }
    }

    /// Raw bytes: TCP -- written to the socket as they are; WebSocket -- one masked frame with the given
    /// opcode (1 text, 2 binary, 9 ping, 0 continuation) and FIN flag carrying the bytes as payload.
    pub fn send_raw(&mut self, opcode: u8, fin: bool, payload: &[u8]) -> Result<(), String> {
        match self {
            Conn::Tcp { s, .. } => s.write_all(payload).map_err(|e| e.to_string()),
            Conn::Ws { s, .. } => {
                let mut f = vec![(if fin { 0x80u8 } else { 0 }) | (opcode & 0x0f)];
                let mask = [0x12u8, 0x34, 0x56, 0x78];
                if payload.len() < 126 {
                    f.push(0x80 | payload.len() as u8);
                } else if payload.len() < 65536 {
                    f.push(0x80 | 126);
                    f.extend_from_slice(&(payload.len() as u16).to_be_bytes());
                } else {
                    f.push(0x80 | 127);
                    f.extend_from_slice(&(payload.len() as u64).to_be_bytes());
                }
                f.extend_from_slice(&mask);
                for (i, b) in payload.iter().enumerate() {
                    f.push(b ^ mask[i % 4]);
                }
                s.write_all(&f).map_err(|e| e.to_string())
            }
        }
    }

    fn fill(&mut self, wait: Duration) {
        let (s, buf) = match self {
            Conn::Tcp { s, buf } => (s, buf),
            Conn::Ws { s, buf } => (s, buf),
        };
        s.set_read_timeout(Some(wait.max(Duration::from_millis(1)))).ok();
        let mut tmp = [0u8; 4096];
        if let Ok(n) = s.read(&mut tmp) {
            buf.extend_from_slice(&tmp[..n]);
        }
    }

    /// Complete messages received so far (lines for TCP, text frames for WebSocket).
    fn take_messages(&mut self) -> Vec<String> {
        let mut out = vec![];
        match self {
            Conn::Tcp { buf, .. } => {
                while let Some(p) = buf.iter().position(|b| *b == b'\n') {
                    let line: Vec<u8> = buf.drain(..=p).collect();
                    out.push(String::from_utf8_lossy(&line).to_string());
                }
            }
            Conn::Ws { buf, .. } => loop {
                if buf.len() < 2 {
                    break;
                }
                let op = buf[0] & 0x0f;
                let mut len = (buf[1] & 0x7f) as usize;
                let mut off = 2;
                if len == 126 {
                    if buf.len() < 4 {
                        break;
                    }
                    len = u16::from_be_bytes([buf[2], buf[3]]) as usize;
                    off = 4;
                } else if len == 127 {
                    if buf.len() < 10 {
                        break;
                    }
                    let mut a = [0u8; 8];
                    a.copy_from_slice(&buf[2..10]);
                    len = u64::from_be_bytes(a) as usize;
                    off = 10;
                }
                if buf.len() < off + len {
                    break;
                }
                let payload: Vec<u8> = buf[off..off + len].to_vec();
                buf.drain(..off + len);
                if op == 1 {
                    out.push(String::from_utf8_lossy(&payload).to_string());
                }
            },
        }
        out
    }

    /// Waits for the reply that ends a command: `ok`, or an `error ...` line (a refusal may come as
    /// two error lines, one pushed by process_request and the handler's own, whose text can contain a
    /// line break: the command is over once an error line was seen and the socket stayed silent for
    /// 25 ms).  Everything else received meanwhile is a pushed line.
    pub fn command(&mut self, line: &str, pushed: &mut Vec<String>) -> J {
        if let Err(e) = self.send(line) {
            return json!({"cls":"closed","msg":e});
        }
        let deadline = Instant::now() + Duration::from_millis(10000);
        let mut err: Option<String> = None;
        let mut last_data = Instant::now();
        loop {
            let msgs = self.take_messages();
            if !msgs.is_empty() {
                last_data = Instant::now();
            }
            for m in msgs {
                let t = m.trim_end().to_string();
                if t.trim().is_empty() {
                    continue;
                }
                if t == "ok" && err.is_none() {
                    return classify(pushed);
                }
                if t.starts_with("error ") {
                    if err.is_none() {
                        err = Some(t[6..].to_string());
                    }
                    continue;
                }
                pushed.push(m);
            }
            if let Some(e) = &err {
                if last_data.elapsed() > Duration::from_millis(25) {
                    return json!({"cls":"error","msg":e});
                }
            }
            if Instant::now() > deadline {
                return json!({"cls":"noreply","msg":"no reply within 10 s"});
            }
            if self.at_eof(Duration::from_millis(5)) && self.buffered() == 0 {
                // the server closed the connection without answering
                return match &err {
                    Some(e) => json!({"cls":"error","msg":e}),
                    None => json!({"cls":"closed","msg":"connection closed by the server"}),
                };
            }
        }
    }

    fn buffered(&self) -> usize {
        match self {
            Conn::Tcp { buf, .. } | Conn::Ws { buf, .. } => buf.len(),
        }
    }

    /// Everything the server sends until the socket stays silent for `quiet` (at most 3 s).
    pub fn collect_until_quiet(&mut self, quiet: Duration) -> Vec<String> {
        let mut out = vec![];
        let deadline = Instant::now() + Duration::from_millis(10000);
        let mut last = Instant::now();
        loop {
            let got = self.take_messages();
            if !got.is_empty() {
                last = Instant::now();
                out.extend(got);
            }
            if last.elapsed() > quiet || Instant::now() > deadline {
                return out;
            }
            self.fill(Duration::from_millis(5));
        }
    }

    /// Lines that arrived without a command of this session (notifications).
    pub fn poll(&mut self, wait: Duration) -> Vec<String> {
        self.fill(wait);
        self.take_messages()
    }

    /// Closes the connection and waits for the server's side to be done with it: the client stops sending
    /// (TCP: shutdown of the write half; WebSocket: close frame) and reads until the server closes the socket,
    /// which it does after its end-of-connection code has run (3 s at most).
    pub fn close(mut self) {
        match &mut self {
            Conn::Tcp { s, .. } => {
                let _ = s.shutdown(std::net::Shutdown::Write);
            }
            Conn::Ws { s, .. } => {
                let _ = s.write_all(&[0x88, 0x80, 0x12, 0x34, 0x56, 0x78]);
            }
        }
        let deadline = Instant::now() + Duration::from_millis(10000);
        while Instant::now() < deadline {
            if self.at_eof(Duration::from_millis(20)) {
                break;
            }
        }
        match self {
            Conn::Tcp { s, .. } | Conn::Ws { s, .. } => {
                let _ = s.shutdown(std::net::Shutdown::Both);
            }
        }
    }

    /// reads for at most `wait`; true when the server has closed the connection
    fn at_eof(&mut self, wait: Duration) -> bool {
        let (s, buf) = match self {
            Conn::Tcp { s, buf } => (s, buf),
            Conn::Ws { s, buf } => (s, buf),
        };
        let _ = s.set_read_timeout(Some(wait));
        let mut tmp = [0u8; 4096];
        match s.read(&mut tmp) {
            Ok(0) => true,
            Ok(n) => {
                buf.extend_from_slice(&tmp[..n]);
                false
            }
            Err(e) => !matches!(e.kind(), std::io::ErrorKind::WouldBlock | std::io::ErrorKind::TimedOut),
        }
    }

    /// TCP only: a line the server answers with an error that travels through the session's channel behind
    /// everything queued for this connection before: when the answer is here, every line pushed earlier is too.
    pub fn barrier(&mut self, tag: &str) -> Vec<String> {
        let mut out = vec![];
        if self.send(&format!("zzbarrier{}", tag)).is_err() {
            return out;
        }
        let deadline = Instant::now() + Duration::from_millis(10000);
        loop {
            let mut done = false;
            for m in self.take_messages() {
                if m.contains("zzbarrier") {
                    if m.contains(&format!("zzbarrier{}", tag)) {
                        done = true;
                    }
                    continue;
                }
                out.push(m);
            }
            if done || Instant::now() > deadline {
                return out;
            }
            if self.at_eof(Duration::from_millis(5)) && self.buffered() == 0 {
                return out;     // the server has closed this connection: nothing more can arrive on it
            }
        }
    }

    pub fn is_tcp(&self) -> bool {
        matches!(self, Conn::Tcp { .. })
    }
}

fn classify(pushed: &Vec<String>) -> J {
    // what the client can tell from the lines of a successful command
    for p in pushed.iter().rev() {
        let t = p.trim_end_matches('\n');
        if let Some(v) = t.strip_prefix("value-version ") {
            let mut it = v.splitn(2, ' ');
            let ver: i64 = it.next().unwrap_or("-1").parse().unwrap_or(-1);
            return json!({"cls":"value","val":it.next().unwrap_or(""),"ver":ver,"key":""});
        }
        if let Some(v) = t.strip_prefix("value ") {
            return json!({"cls":"value","val":v,"ver":-99,"key":""});
        }
    }
    json!({"cls":"ok"})
}

pub fn start_tcp(dbs: std::sync::Arc<nundb::bo::Databases>) -> u16 {
    let port = crate::http::free_port();
    let addr = format!("127.0.0.1:{}", port);
    std::thread::spawn(move || nundb::network::tcp_ops::start_tcp_client(dbs, &addr));
    port
}

pub fn start_ws(dbs: std::sync::Arc<nundb::bo::Databases>) -> u16 {
    let port = crate::http::free_port();
    let addr = std::sync::Arc::new(format!("127.0.0.1:{}", port));
    std::thread::spawn(move || nundb::network::ws_ops::start_web_socket_client(dbs, addr));
    port
}
