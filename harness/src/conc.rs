//! Cooperative scheduler: every logical client runs on its own OS thread, but only the
//! thread holding the baton runs.  Threads hand the baton back at the `yield_point`
//! hooks placed before every acquisition of `Database.map` / `Watchers.map` (and at
//! operation boundaries), so a *schedule* (sequence of task ids) determines the
//! interleaving of the real code at lock granularity.
use crate::node::*;
use nundb::bo::*;
use nundb::process_request::process_request;
use serde_json::{json, Value as J};
use std::cell::Cell;
use std::io::{BufRead, BufWriter, Write};
use std::panic::{catch_unwind, AssertUnwindSafe};
use std::sync::{Arc, Condvar, Mutex};
use std::time::Duration;

thread_local! {
    static TASK: Cell<Option<usize>> = Cell::new(None);
}

struct St {
    current: Option<usize>,
    site: Vec<String>,
    done: Vec<bool>,
    log: Vec<J>,
    run: String,
    names: Vec<String>,
}

struct Shared {
    m: Mutex<St>,
    cv: Condvar,
    dbs: Mutex<Option<Arc<Databases>>>,
}

lazy_static::lazy_static! {
    static ref SH: Shared = Shared {
        m: Mutex::new(St { current: None, site: vec![], done: vec![], log: vec![], run: String::new(), names: vec![] }),
        cv: Condvar::new(),
        dbs: Mutex::new(None),
    };
}

fn small_dump() -> J {
    let dbs = { SH.dbs.lock().unwrap().clone() };
    match dbs {
        Some(dbs) => dump_dbs(&dbs),
        None => json!({}),
    }
}

/// Store projection without the administrative database (kept small: logged at every step).
pub fn dump_dbs(dbs: &Arc<Databases>) -> J {
    let mut out = serde_json::Map::new();
    if let Ok(map) = dbs.map.read() {
        let mut names: Vec<&String> = map.keys().filter(|n| n.as_str() != "$admin").collect();
        names.sort();
        for name in names {
            let db = map.get(name).unwrap();
            let mut keys = serde_json::Map::new();
            if let Ok(m) = db.map.read() {
                let mut ks: Vec<&String> = m.keys().collect();
                ks.sort();
                for k in ks {
                    let v = m.get(k).unwrap();
                    keys.insert(k.clone(), json!([v.value, v.version, format!("{:?}", v.state)]));
                }
            }
            let mut w = serde_json::Map::new();
            if let Ok(ws) = db.watchers.map.read() {
                let mut ks: Vec<&String> = ws.keys().collect();
                ks.sort();
                for k in ks {
                    w.insert(k.clone(), json!(ws.get(k).unwrap().len()));
                }
            }
            out.insert(name.clone(), json!({"keys": keys, "watchers": w}));
        }
    }
    J::Object(out)
}

fn on_yield(site: &str) {
    let tid = match TASK.with(|t| t.get()) {
        Some(t) => t,
        None => return,
    };
    let dump = small_dump();
    let mut st = SH.m.lock().unwrap();
    let run = st.run.clone();
    let name = st.names[tid].clone();
    st.log.push(json!({"ev":"seg","run":run,"t":name,"site":site,"dump":dump}));
    st.site[tid] = site.to_string();
    st.current = None;
    SH.cv.notify_all();
    while st.current != Some(tid) {
        st = SH.cv.wait(st).unwrap();
    }
}

fn emit(ev: J) {
    let mut st = SH.m.lock().unwrap();
    st.log.push(ev);
}

fn task_main(tid: usize, name: String, run: String, dir: String, dbs: Arc<Databases>, mut client: Client, ops: Vec<J>) {
    TASK.with(|t| t.set(Some(tid)));
    nundb::verif::set_data_dir(Some(dir));
    // wait for the first turn
    {
        let mut st = SH.m.lock().unwrap();
        while st.current != Some(tid) {
            st = SH.cv.wait(st).unwrap();
        }
    }
    for (i, op) in ops.iter().enumerate() {
        if i > 0 {
            // operation boundary: another task may run between two commands of this one
            on_yield_boundary(tid);
        }
        let mut call = json!({"ev":"call","run":run,"t":name,"n":i});
        if let Some(o) = op.get("op") {
            call["op"] = o.clone();
        }
        let r = if let Some(line) = op.get("line").and_then(|l| l.as_str()) {
            call["line"] = json!(line);
            emit(call);
            let r = catch_unwind(AssertUnwindSafe(|| process_request(line, &dbs, &mut client)));
            match r {
                Ok(Response::Ok {}) => json!({"cls":"ok"}),
                Ok(Response::Set { key, value }) => json!({"cls":"ok","set_key":key,"set_val":value}),
                Ok(Response::Value { key, value, version }) => json!({"cls":"value","key":key,"val":value,"ver":version}),
                Ok(Response::Error { msg }) => json!({"cls":"error","msg":msg}),
                Ok(Response::VersionError { msg, old_version, version, .. }) => json!({"cls":"verr","msg":msg,"old_version":old_version,"version":version}),
                Err(e) => json!({"cls":"panic","msg":panic_msg(e)}),
            }
        } else {
            // disconnect: what every transport does when the connection ends
            call["line"] = json!("<close>");
            emit(call);
            let r = catch_unwind(AssertUnwindSafe(|| {
                process_request("unwatch-all", &dbs, &mut client);
                client.left(&dbs);
            }));
            match r {
                Ok(_) => json!({"cls":"ok"}),
                Err(e) => json!({"cls":"panic","msg":panic_msg(e)}),
            }
        };
        let dump = small_dump();
        emit(json!({"ev":"seg","run":run,"t":name,"site":"opend","dump":dump}));
        emit(json!({"ev":"ret","run":run,"t":name,"n":i,"r":r}));
    }
    let mut st = SH.m.lock().unwrap();
    st.done[tid] = true;
    st.site[tid] = "done".to_string();
    st.current = None;
    SH.cv.notify_all();
}

fn on_yield_boundary(tid: usize) {
    let mut st = SH.m.lock().unwrap();
    st.site[tid] = "op.boundary".to_string();
    st.current = None;
    SH.cv.notify_all();
    while st.current != Some(tid) {
        st = SH.cv.wait(st).unwrap();
    }
}

/// Deterministic xorshift for the default policy.
struct Rng(u64);
impl Rng {
    fn next(&mut self) -> u64 {
        let mut x = self.0;
        x ^= x << 13;
        x ^= x >> 7;
        x ^= x << 17;
        self.0 = x;
        x
    }
}

pub fn run_case(case: &J, workdir: &str, out: &mut dyn Write, n: usize) -> Result<(), String> {
    let id = case["id"].as_str().unwrap_or("?").to_string();
    let dir = format!("{}/conc-{}-{}", workdir, std::process::id(), n);
    let _ = std::fs::remove_dir_all(&dir);
    VCLOCK.store(1000, std::sync::atomic::Ordering::SeqCst);
    let mut node = Node::start("node1", &dir, "admin", "adminpwd", ClusterRole::Primary)?;
    let empty = vec![];
    for st in case["prefix"].as_array().unwrap_or(&empty) {
        if st.get("tick").is_some() {
            node.tick();
            continue;
        }
        let c = st["c"].as_str().unwrap_or("a");
        node.exec(c, st["line"].as_str().unwrap());
    }
    node.drain_all();
    node.side_state();
    *SH.dbs.lock().unwrap() = Some(node.dbs.clone());
    let tasks = case["tasks"].as_object().ok_or("tasks")?;
    let mut names: Vec<String> = tasks.keys().cloned().collect();
    names.sort();
    {
        let mut st = SH.m.lock().unwrap();
        st.current = None;
        st.site = names.iter().map(|_| "start".to_string()).collect();
        st.done = names.iter().map(|_| false).collect();
        st.log = vec![json!({"ev":"reset","run":id,"dump":dump_dbs(&node.dbs),"meta":case.get("meta").cloned().unwrap_or(json!({}))})];
        st.run = id.clone();
        st.names = names.clone();
    }
    let mut receivers = vec![];
    let mut handles = vec![];
    for (tid, name) in names.iter().enumerate() {
        // a task may continue a session opened in the prefix (same name) or start a new one
        let (client, rx) = match node.sessions.remove(name) {
            Some(s) => (s.client, s.rx),
            None => Client::new_empty_and_receiver(),
        };
        receivers.push((name.clone(), rx));
        let ops: Vec<J> = tasks[name].as_array().cloned().unwrap_or(vec![]);
        let (dbs, dir2, name2, id2) = (node.dbs.clone(), dir.clone(), name.clone(), id.clone());
        handles.push(std::thread::spawn(move || task_main(tid, name2, id2, dir2, dbs, client, ops)));
    }
    let schedule: Vec<String> = case["schedule"].as_array().unwrap_or(&empty).iter()
        .map(|s| s.as_str().unwrap_or("").to_string()).collect();
    let mut rng = Rng(case["seed"].as_u64().unwrap_or(1).wrapping_mul(2685821657736338717).max(1));
    let policy = case["policy"].as_str().unwrap_or("rr").to_string();
    let mut si = 0;
    let mut rr = 0;
    let mut drift = 0;
    let mut steps = 0;
    loop {
        let mut st = SH.m.lock().unwrap();
        if st.done.iter().all(|d| *d) {
            break;
        }
        // choose the next task
        let mut pick: Option<usize> = None;
        while si < schedule.len() && pick.is_none() {
            let want = &schedule[si];
            si += 1;
            match names.iter().position(|x| x == want) {
                Some(t) if !st.done[t] => pick = Some(t),
                _ => drift += 1,
            }
        }
        let tid = match pick {
            Some(t) => t,
            None => {
                let live: Vec<usize> = (0..names.len()).filter(|t| !st.done[*t]).collect();
                if policy == "random" {
                    live[(rng.next() % live.len() as u64) as usize]
                } else {
                    rr += 1;
                    live[rr % live.len()]
                }
            }
        };
        let name = names[tid].clone();
        let from = st.site[tid].clone();
        let run = st.run.clone();
        st.log.push(json!({"ev":"switch","run":run,"t":name,"from":from}));
        st.current = Some(tid);
        SH.cv.notify_all();
        let mut waited = 0;
        while st.current.is_some() {
            let (g, to) = SH.cv.wait_timeout(st, Duration::from_millis(500)).unwrap();
            st = g;
            if to.timed_out() {
                waited += 1;
                if waited > 20 {
                    return Err(format!("task {} neither yielded nor finished in 10 s (run {})", names[tid], id));
                }
            }
        }
        steps += 1;
        if steps > 100000 {
            return Err("step budget exceeded".to_string());
        }
    }
    for h in handles {
        let _ = h.join();
    }
    // quiescence: everything every session received, in order
    let mut inbox = serde_json::Map::new();
    for (name, rx) in receivers.iter_mut() {
        inbox.insert(name.clone(), json!(drain(rx)));
    }
    for (c, lines) in node.drain_all() {
        inbox.insert(c, lines);
    }
    let log = { std::mem::replace(&mut SH.m.lock().unwrap().log, vec![]) };
    for ev in log {
        writeln!(out, "{}", ev).map_err(|e| e.to_string())?;
    }
    writeln!(out, "{}", json!({"ev":"end","run":id,"inbox":inbox,"dump":dump_dbs(&node.dbs),"drift":drift,"steps":steps})).map_err(|e| e.to_string())?;
    *SH.dbs.lock().unwrap() = None;
    drop(node);
    let _ = std::fs::remove_dir_all(&dir);
    Ok(())
}

/// nunverif conc <cases.ndjson> <trace.ndjson> <workdir>
pub fn main(args: &[String]) {
    let cases = std::fs::File::open(&args[0]).expect("cases file");
    let mut out = BufWriter::new(std::fs::File::create(&args[1]).expect("trace file"));
    let workdir = &args[2];
    std::fs::create_dir_all(workdir).unwrap();
    install_virtual_clock();
    silence_panics();
    nundb::verif::set_yield_hook(Some(Arc::new(|site: &str| on_yield(site))));
    for (n, line) in std::io::BufReader::new(cases).lines().enumerate() {
        let line = line.unwrap();
        if line.trim().is_empty() {
            continue;
        }
        let case: J = serde_json::from_str(&line).expect("case json");
        if let Err(e) = run_case(&case, workdir, &mut out, n) {
            eprintln!("conc: {}", e);
            std::process::exit(3);
        }
    }
    out.flush().unwrap();
}
