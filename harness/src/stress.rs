//! Free-running rounds (C02 / C03 / C19): plain OS threads on one real node, no scheduler and no hook
//! involved, so that interleavings at places that carry no yield point (a lock region split by a change) are
//! exercised too.  Every thread runs its command lines on its own session; an observer session that watches
//! the keys is read once at the end (a session's channel holds 100 lines: the workloads stay below).  One event per round:
//! what every command answered, the final entries of the database, what the observer received.  The rounds are
//! judged by `Trace_Stress.tla` with counting consequences of the properties (no order between threads is
//! recorded or needed).
use crate::node::*;
use nundb::bo::*;
use nundb::process_request::process_request;
use serde_json::{json, Value as J};
use std::io::{BufRead, BufWriter, Write};
use std::panic::{catch_unwind, AssertUnwindSafe};
use std::sync::{Arc, Barrier};

fn run_line(dbs: &Arc<Databases>, client: &mut Client, line: &str) -> J {
    let r = catch_unwind(AssertUnwindSafe(|| process_request(line, dbs, client)));
    match r {
        Ok(Response::Ok {}) => json!({"cls":"ok"}),
        Ok(Response::Set { key: _, value }) => json!({"cls":"ok","set_val":value}),
        Ok(Response::Value { key: _, value, version }) => json!({"cls":"value","val":value,"ver":version}),
        Ok(Response::Error { msg }) => json!({"cls":"error","msg":msg}),
        Ok(Response::VersionError { msg, .. }) => json!({"cls":"verr","msg":msg}),
        Err(e) => json!({"cls":"panic","msg":panic_msg(e)}),
    }
}

pub fn main(args: &[String]) {
    let cases = std::fs::File::open(&args[0]).expect("cases file");
    let mut out = BufWriter::new(std::fs::File::create(&args[1]).expect("trace file"));
    let workdir = &args[2];
    std::fs::create_dir_all(workdir).unwrap();
    install_virtual_clock();
    silence_panics();
    for line in std::io::BufReader::new(cases).lines() {
        let line = line.unwrap();
        if line.trim().is_empty() {
            continue;
        }
        let case: J = serde_json::from_str(&line).expect("case json");
        let id = case["id"].as_str().unwrap_or("?").to_string();
        let strategy = case["strategy"].as_str().unwrap_or("none").to_string();
        let rounds = case["rounds"].as_u64().unwrap_or(1);
        let empty = vec![];
        writeln!(out, "{}", json!({"ev":"reset","run":id})).unwrap();
        for r in 0..rounds {
            let dir = format!("{}/stress-{}-{}", workdir, std::process::id(), r);
            let _ = std::fs::remove_dir_all(&dir);
            let node = Node::start("node1", &dir, "admin", "adminpwd", ClusterRole::Primary).unwrap();
            // every thread finds the data directory through the process-wide override
            nundb::verif::set_global_data_dir(Some(dir.clone()));
            let dbs = node.dbs.clone();
            let (mut admin, _arx) = Client::new_empty_and_receiver();
            run_line(&dbs, &mut admin, "auth admin adminpwd");
            run_line(&dbs, &mut admin, &format!("create-db d tok {}", strategy));
            let (mut setup, _srx) = Client::new_empty_and_receiver();
            run_line(&dbs, &mut setup, "use-db d tok");
            for l in case["setup"].as_array().unwrap_or(&empty) {
                run_line(&dbs, &mut setup, l.as_str().unwrap_or(""));
            }
            // the observer
            let (mut obs, mut obs_rx) = Client::new_empty_and_receiver();
            run_line(&dbs, &mut obs, "use-db d tok");
            for k in case["watch"].as_array().unwrap_or(&empty) {
                run_line(&dbs, &mut obs, &format!("watch {}", k.as_str().unwrap_or("k")));
            }
            let _ = drain(&mut obs_rx);
            let threads = case["threads"].as_array().unwrap_or(&empty);
            let barrier = Arc::new(Barrier::new(threads.len()));
            let mut handles = vec![];
            for t in threads.iter() {
                let lines: Vec<String> = t.as_array().unwrap_or(&empty).iter().map(|l| l.as_str().unwrap_or("").to_string()).collect();
                let (dbs, barrier) = (dbs.clone(), barrier.clone());
                let (mut client, mut rx) = Client::new_empty_and_receiver();
                run_line(&dbs, &mut client, "use-db d tok");
                handles.push(std::thread::spawn(move || {
                    let mut res = vec![];
                    barrier.wait();
                    for l in lines.iter() {
                        let a = run_line(&dbs, &mut client, l);
                        // (the thread's own channel is kept from filling up)
                        let _ = drain(&mut rx);
                        res.push(json!({"line": l, "r": a}));
                    }
                    res
                }));
            }
            let mut per_thread = vec![];
            for h in handles {
                per_thread.push(match h.join() {
                    Ok(v) => json!(v),
                    Err(_) => json!([{"line":"<thread>","r":{"cls":"panic","msg":"thread died"}}]),
                });
            }
            // every notification of a finished command is in the observer's channel already (try_send happens inside
            // the command); the workloads stay below the 100 lines a session's channel holds, so nothing had to be
            // taken out meanwhile
            let obs_lines = drain(&mut obs_rx);
            let dump = node.dump();
            writeln!(out, "{}", json!({"ev":"round","run":id,"r":r,"kind":case["kind"],"threads":per_thread,
                                        "final": dump["d"]["keys"], "obs": obs_lines})).unwrap();
            drop(node);
            let _ = std::fs::remove_dir_all(&dir);
        }
    }
    out.flush().unwrap();
}
