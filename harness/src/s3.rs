//! C18: the S3 storage strategies against an in-process S3-compatible stub (PutObject,
//! GetObject, ListObjectsV2 over tiny_http) with fault injection; the node runs the same
//! operation / snapshot / restart histories as with the disk strategy.
//! The storage strategy is a process-wide lazy static read from the environment, so one
//! harness process serves one configuration; it sets the variables itself before the
//! library reads them.
use serde_json::{json, Value as J};
use std::collections::BTreeMap;
use std::io::{BufRead, BufWriter, Read, Write};
use std::sync::{Arc, Mutex};

pub struct Stub {
    pub objects: BTreeMap<String, Vec<u8>>,
    pub log: Vec<J>,
    pub puts: usize,
    pub gets: usize,
    pub fail_put_nth: Option<usize>,   // fail the nth PUT request (1-based) of the current case
    pub fail_put_always: bool,         // ... and every PUT request after it
    pub fail_get_once: bool,
    pub put_ops: usize,                // PutObject operations (an SDK attempt number 1 starts one)
    pub fail_op_nth: Option<usize>,    // fail every SDK attempt of the nth PutObject operation
    pub fail_op_always: bool,          // ... and of every operation after it
    pub fail_path_nth: Option<usize>,  // every PUT of the nth distinct object path of the case is refused, for ever
    pub put_paths: Vec<String>,
}

lazy_static::lazy_static! {
    pub static ref STUB: Arc<Mutex<Stub>> = Arc::new(Mutex::new(Stub {
        objects: BTreeMap::new(), log: vec![], puts: 0, gets: 0,
        fail_put_nth: None, fail_put_always: false, fail_get_once: false,
        put_ops: 0, fail_op_nth: None, fail_op_always: false, fail_path_nth: None, put_paths: vec![],
    }));
}

fn decode_aws_chunked(body: &[u8]) -> Vec<u8> {
    // <hex size>[;ext]\r\n<data>\r\n ... 0\r\n<trailers>\r\n
    let mut out = vec![];
    let mut i = 0;
    while i < body.len() {
        let mut j = i;
        while j + 1 < body.len() && !(body[j] == b'\r' && body[j + 1] == b'\n') {
            j += 1;
        }
        let header = String::from_utf8_lossy(&body[i..j]).to_string();
        let size_str = header.split(';').next().unwrap_or("0");
        let size = usize::from_str_radix(size_str.trim(), 16).unwrap_or(0);
        i = j + 2;
        if size == 0 {
            break;
        }
        if i + size > body.len() {
            break;
        }
        out.extend_from_slice(&body[i..i + size]);
        i += size + 2;
    }
    out
}

fn xml_escape(s: &str) -> String {
    s.replace('&', "&amp;").replace('<', "&lt;").replace('>', "&gt;")
}

fn url_decode(s: &str) -> String {
    let b = s.as_bytes();
    let mut out = vec![];
    let mut i = 0;
    while i < b.len() {
        if b[i] == b'%' && i + 2 < b.len() + 0 && i + 2 <= b.len() - 1 + 1 {
            if let Ok(v) = u8::from_str_radix(&s[i + 1..i + 3], 16) {
                out.push(v);
                i += 3;
                continue;
            }
        }
        out.push(if b[i] == b'+' { b' ' } else { b[i] });
        i += 1;
    }
    String::from_utf8_lossy(&out).to_string()
}

pub fn start_stub() -> u16 {
    let port = crate::http::free_port();
    let server = Arc::new(tiny_http::Server::http(("127.0.0.1", port)).unwrap());
    for _ in 0..4 {
        let server = server.clone();
        std::thread::spawn(move || loop {
            let mut rq = match server.recv() {
                Ok(r) => r,
                Err(_) => break,
            };
            let method = rq.method().to_string();
            let url = rq.url().to_string();
            let mut body = vec![];
            let _ = rq.as_reader().read_to_end(&mut body);
            // "amz-sdk-request: attempt=1; max=3": the SDK's own retries of one operation
            let attempt: usize = rq.headers().iter()
                .find(|h| h.field.as_str().as_str().eq_ignore_ascii_case("amz-sdk-request"))
                .and_then(|h| h.value.as_str().split(';').find_map(|p| p.trim().strip_prefix("attempt=").and_then(|a| a.parse().ok())))
                .unwrap_or(1);
            let chunked = rq.headers().iter().any(|h| {
                let f = h.field.as_str().as_str().to_ascii_lowercase();
                let v = h.value.as_str().to_ascii_lowercase();
                (f == "content-encoding" && v.contains("aws-chunked")) || (f == "x-amz-content-sha256" && v.starts_with("streaming"))
            });
            if chunked {
                body = decode_aws_chunked(&body);
            }
            let (path, query) = match url.split_once('?') {
                Some((p, q)) => (p.to_string(), q.to_string()),
                None => (url.clone(), String::new()),
            };
            let path = url_decode(&path);
            let mut st = STUB.lock().unwrap();
            let resp: (u16, Vec<u8>) = if method == "PUT" {
                st.puts += 1;
                if attempt <= 1 {
                    st.put_ops += 1;
                }
                let (n, opn) = (st.puts, st.put_ops);
                if !st.put_paths.contains(&path) {
                    st.put_paths.push(path.clone());
                }
                let path_no = st.put_paths.iter().position(|x| *x == path).unwrap() + 1;
                let fail = st.fail_path_nth == Some(path_no) || match st.fail_put_nth {
                    Some(k) => n == k || (st.fail_put_always && n > k),
                    None => false,
                } || match st.fail_op_nth {
                    Some(k) => opn == k || (st.fail_op_always && opn > k),
                    None => false,
                };
                st.log.push(json!({"m":"PUT","path":path,"bytes":body.len(),"failed":fail,"op":opn,"attempt":attempt}));
                if fail {
                    (500, b"<Error><Code>InternalError</Code><Message>injected</Message></Error>".to_vec())
                } else {
                    st.objects.insert(path.clone(), body);
                    (200, vec![])
                }
            } else if method == "GET" && query.contains("list-type=2") {
                let prefix = query.split('&').find(|p| p.starts_with("prefix=")).map(|p| url_decode(&p[7..])).unwrap_or_default();
                let bucket = path.trim_start_matches('/').trim_end_matches('/').to_string();
                let mut xml = String::from("<?xml version=\"1.0\" encoding=\"UTF-8\"?><ListBucketResult xmlns=\"http://s3.amazonaws.com/doc/2006-03-01/\">");
                xml.push_str(&format!("<Name>{}</Name><Prefix>{}</Prefix><IsTruncated>false</IsTruncated>", bucket, xml_escape(&prefix)));
                let mut count = 0;
                for (k, v) in st.objects.iter() {
                    let key = k.trim_start_matches('/').strip_prefix(&format!("{}/", bucket)).unwrap_or(k).to_string();
                    if key.starts_with(&prefix) {
                        count += 1;
                        xml.push_str(&format!("<Contents><Key>{}</Key><Size>{}</Size><StorageClass>STANDARD</StorageClass></Contents>", xml_escape(&key), v.len()));
                    }
                }
                xml.push_str(&format!("<KeyCount>{}</KeyCount><MaxKeys>1000</MaxKeys></ListBucketResult>", count));
                st.log.push(json!({"m":"LIST","prefix":prefix,"n":count}));
                (200, xml.into_bytes())
            } else if method == "GET" {
                st.gets += 1;
                let fail = st.fail_get_once;
                if fail {
                    st.fail_get_once = false;
                }
                st.log.push(json!({"m":"GET","path":path,"failed":fail}));
                if fail {
                    (500, b"<Error><Code>InternalError</Code><Message>injected</Message></Error>".to_vec())
                } else {
                    match st.objects.get(&path) {
                        Some(v) => (200, v.clone()),
                        None => (404, b"<Error><Code>NoSuchKey</Code><Message>missing</Message></Error>".to_vec()),
                    }
                }
            } else {
                st.log.push(json!({"m":method,"path":path}));
                (200, vec![])
            };
            drop(st);
            let r = tiny_http::Response::from_data(resp.1).with_status_code(resp.0);
            let _ = rq.respond(r);
        });
    }
    port
}

/// nunverif s3 <strategy> <partitions> <cases.ndjson> <trace.ndjson> <workdir>
pub fn main(args: &[String]) {
    let strategy = &args[0];
    let partitions = &args[1];
    let port = start_stub();
    std::env::set_var("NUN_STORAGE_STRATEGY", strategy);
    std::env::set_var("NUN_S3_API_URL", format!("http://127.0.0.1:{}", port));
    std::env::set_var("NUN_S3_NUMBER_OF_PARTITIONS", partitions);
    std::env::set_var("NUN_S3_RETRY", "2");
    std::env::set_var("AWS_EC2_METADATA_DISABLED", "true");
    let cases = std::fs::File::open(&args[2]).expect("cases file");
    let mut out = BufWriter::new(std::fs::File::create(&args[3]).expect("trace file"));
    let workdir = &args[4];
    std::fs::create_dir_all(workdir).unwrap();
    crate::node::install_virtual_clock();
    crate::node::silence_panics();
    crate::seq::set_extra(Some(Box::new(|| {
        let mut st = STUB.lock().unwrap();
        let log: Vec<J> = st.log.drain(..).collect();
        json!({"requests": log, "objects": st.objects.keys().cloned().collect::<Vec<String>>()})
    })));
    for (n, line) in std::io::BufReader::new(cases).lines().enumerate() {
        let line = line.unwrap();
        if line.trim().is_empty() {
            continue;
        }
        let case: J = serde_json::from_str(&line).expect("case json");
        {
            let mut st = STUB.lock().unwrap();
            st.objects.clear();
            st.log.clear();
            st.puts = 0;
            st.gets = 0;
            st.fail_put_nth = case["fail_put_nth"].as_u64().map(|x| x as usize);
            st.fail_put_always = case["fail_put_always"].as_bool() == Some(true);
            st.fail_get_once = false;
            st.put_ops = 0;
            st.fail_op_nth = case["fail_op_nth"].as_u64().map(|x| x as usize);
            st.fail_op_always = case["fail_op_always"].as_bool() == Some(true);
            st.fail_path_nth = case["fail_path_nth"].as_u64().map(|x| x as usize);
            st.put_paths.clear();
        }
        crate::seq::run_case(&case, workdir, &mut out, n);
    }
    out.flush().unwrap();
    std::process::exit(0);
}
