//! Sequential runner: one case = a fresh data directory, a list of steps run one after
//! another on the real node; every step is logged with reply, pushed lines and the full
//! projected state.
use crate::node::*;
use nundb::bo::ClusterRole;
use serde_json::{json, Value as J};
use std::io::{BufRead, BufWriter, Write};

/// Start-up attempt in a child process with an address-space limit and a time limit: on a
/// damaged file the loader may try to allocate a garbage length (abort) or spin.
fn probe_load_child(dir: &str, user: &str, pwd: &str) -> std::io::Result<std::process::ExitStatus> {
    let exe = std::env::current_exe().unwrap();
    std::process::Command::new("sh")
        .arg("-c")
        .arg("ulimit -v 6000000; exec timeout 20 \"$0\" probe-load \"$1\" \"$2\" \"$3\"")
        .arg(exe)
        .arg(dir)
        .arg(user)
        .arg(pwd)
        .stdout(std::process::Stdio::null())
        .stderr(std::process::Stdio::null())
        .status()
}

fn copy_dir(src: &str, dst: &str) {
    std::fs::create_dir_all(dst).unwrap();
    if let Ok(rd) = std::fs::read_dir(src) {
        for e in rd.flatten() {
            let p = e.path();
            let name = e.file_name().into_string().unwrap();
            if p.is_dir() {
                copy_dir(p.to_str().unwrap(), &format!("{}/{}", dst, name));
            } else {
                let _ = std::fs::copy(&p, format!("{}/{}", dst, name));
            }
        }
    }
}

fn dir_sizes(dir: &str) -> J {
    let mut m = serde_json::Map::new();
    if let Ok(rd) = std::fs::read_dir(dir) {
        for e in rd.flatten() {
            if e.path().is_file() {
                m.insert(e.file_name().into_string().unwrap(), json!(e.metadata().map(|x| x.len()).unwrap_or(0)));
            }
        }
    }
    J::Object(m)
}

/// (database, reclaim) in the order snapshot_all_pendding_dbs will process them (dedup, then pop from the end)
fn snapshot_queue(node: &Node) -> Vec<(String, bool)> {
    let mut q = node.dbs.to_snapshot.read().unwrap().clone();
    q.dedup();
    q.reverse();
    q
}

fn intern(strs: &mut Vec<Vec<u8>>, b: &[u8]) -> usize {
    if let Some(i) = strs.iter().position(|x| x.as_slice() == b) {
        return i + 1;
    }
    strs.push(b.to_vec());
    strs.len()
}

const DB_FILE_KINDS: [(&str, &str); 5] = [("K", "-nun.data.keys"), ("KO", "-nun.data.keys.old"), ("V", "-nun.data.values"),
                                          ("VO", "-nun.data.values.old"), ("M", "-nun.madadata")];

/// content of the five files of every named database ("<db>/<kind>" -> bytes or None)
fn db_files(dir: &str, dbs: &[String]) -> std::collections::BTreeMap<String, Option<Vec<u8>>> {
    let mut m = std::collections::BTreeMap::new();
    for d in dbs {
        for (kind, suffix) in DB_FILE_KINDS.iter() {
            m.insert(format!("{}/{}", d, kind), std::fs::read(format!("{}/{}{}", dir, d, suffix)).ok());
        }
    }
    m
}

/// what changed between two images, per file: gone / created / one splice (common prefix and suffix kept)
fn patches(prev: &std::collections::BTreeMap<String, Option<Vec<u8>>>, cur: &std::collections::BTreeMap<String, Option<Vec<u8>>>) -> J {
    let mut out = vec![];
    for (name, now) in cur.iter() {
        let before = prev.get(name).cloned().unwrap_or(None);
        let (d, f) = name.split_once('/').unwrap();
        match (before, now) {
            (None, None) => {}
            (Some(_), None) => out.push(json!({"db": d, "f": f, "kind": "gone", "off": 0, "del": 0, "ins": []})),
            (None, Some(b)) => out.push(json!({"db": d, "f": f, "kind": "created", "off": 0, "del": 0, "ins": b})),
            (Some(a), Some(b)) => {
                if a != *b {
                    let mut p = 0;
                    while p < a.len() && p < b.len() && a[p] == b[p] {
                        p += 1;
                    }
                    let mut s = 0;
                    while s < a.len() - p && s < b.len() - p && a[a.len() - 1 - s] == b[b.len() - 1 - s] {
                        s += 1;
                    }
                    out.push(json!({"db": d, "f": f, "kind": "splice", "off": p, "del": a.len() - p - s,
                                    "ins": b[p..b.len() - s].to_vec()}));
                }
            }
        }
    }
    json!(out)
}

fn state_name_of(s: nundb::bo::ValueStatus) -> &'static str {
    match s {
        nundb::bo::ValueStatus::Ok => "Ok",
        nundb::bo::ValueStatus::Deleted => "Deleted",
        nundb::bo::ValueStatus::Updated => "Updated",
        nundb::bo::ValueStatus::New => "New",
    }
}

fn strategy_code(s: nundb::bo::ConsensuStrategy) -> i64 {
    match s {
        nundb::bo::ConsensuStrategy::None => 0,
        nundb::bo::ConsensuStrategy::Newer => 1,
        nundb::bo::ConsensuStrategy::Arbiter => 2,
    }
}

/// per queued snapshot: the entries storage_data_disk will visit (in the order this map hands them out),
/// the database's metadata and its files; plus whether the key map is written first
fn crash_pre(node: &Node, dir: &str, queue: &[(String, bool)], _strs: &mut Vec<Vec<u8>>) -> J {
    let names: Vec<String> = queue.iter().map(|(d, _)| d.clone()).collect();
    let files = db_files(dir, &names);
    let mut snaps = vec![];
    let map = node.dbs.map.read().unwrap();
    for (d, reclaim) in queue.iter() {
        if let Some(db) = map.get(d) {
            let ents: Vec<J> = nundb::storage::common::get_keys_to_update(db, *reclaim)
                .iter()
                .map(|(k, v)| json!({"k": k.as_bytes(), "v": v.value.as_bytes(), "ver": v.version, "st": state_name_of(v.state),
                                     "va": v.value_disk_addr, "ka": v.key_disk_addr}))
                .collect();
            let mut fs = serde_json::Map::new();
            for (kind, _) in DB_FILE_KINDS.iter() {
                match files.get(&format!("{}/{}", d, kind)).cloned().unwrap_or(None) {
                    Some(b) => fs.insert(kind.to_string(), json!({"ex": true, "b": b})),
                    None => fs.insert(kind.to_string(), json!({"ex": false, "b": []})),
                };
            }
            snaps.push(json!({"db": d, "reclaim": reclaim, "id": db.metadata.id,
                              "strategy": strategy_code(db.metadata.consensus_strategy), "ents": ents, "files": fs,
                              "repeated": queue.iter().filter(|(x, _)| x == d).count() > 1}));
        } else {
            snaps.push(json!({"db": d, "reclaim": reclaim, "missing": true}));
        }
    }
    json!({"snaps": snaps, "keymap_first": !node.dbs.is_oplog_valid.load(std::sync::atomic::Ordering::Relaxed)})
}

/// after a completed snapshot run: the files of every database that was queued and its entries as they are in memory
fn snap_post(node: &Node, dir: &str, queue: &[(String, bool)]) -> J {
    let names: Vec<String> = queue.iter().map(|(d, _)| d.clone()).collect();
    let files = db_files(dir, &names);
    let mut out = serde_json::Map::new();
    let map = node.dbs.map.read().unwrap();
    for d in names.iter() {
        let mut fs = serde_json::Map::new();
        for (kind, _) in DB_FILE_KINDS.iter() {
            match files.get(&format!("{}/{}", d, kind)).cloned().unwrap_or(None) {
                Some(b) => fs.insert(kind.to_string(), json!({"ex": true, "b": b})),
                None => fs.insert(kind.to_string(), json!({"ex": false, "b": []})),
            };
        }
        let mut ents: Vec<J> = vec![];
        if let Some(db) = map.get(d) {
            let m = db.map.read().unwrap();
            let mut ks: Vec<&String> = m.keys().collect();
            ks.sort();
            for k in ks {
                let v = m.get(k).unwrap();
                ents.push(json!({"k": k.as_bytes(), "v": v.value.as_bytes(), "ver": v.version, "st": state_name_of(v.state),
                                 "va": v.value_disk_addr, "ka": v.key_disk_addr}));
            }
        }
        out.insert(d.clone(), json!({"files": fs, "ents": ents}));
    }
    J::Object(out)
}

/// what the start-up on an image loaded for the named databases, keys and values as interned byte strings
fn byte_load(nd: &Node, dbs: &[String], strs: &mut Vec<Vec<u8>>) -> J {
    let mut out = serde_json::Map::new();
    let map = nd.dbs.map.read().unwrap();
    for d in dbs {
        match map.get(d) {
            None => {
                out.insert(d.clone(), json!({"st": "absent", "m": [], "id": 0, "strategy": 0}));
            }
            Some(db) => {
                let m = db.map.read().unwrap();
                let mut recs: Vec<(usize, usize, i64)> = m
                    .iter()
                    .map(|(k, v)| (intern(strs, k.as_bytes()), intern(strs, v.value.as_bytes()), v.version as i64))
                    .collect();
                recs.sort();
                out.insert(d.clone(), json!({"st": "ok", "m": recs, "id": db.metadata.id,
                                            "strategy": strategy_code(db.metadata.consensus_strategy)}));
            }
        }
    }
    J::Object(out)
}

/// The node's real replication loop (replication_ops::start_replication_thread), fed one queued message at a
/// time: what main.rs runs on a service thread.  A panic or an early end of the loop is the death of that thread.
pub struct ReplService {
    tx: futures::channel::mpsc::Sender<String>,
    fut: std::pin::Pin<Box<dyn std::future::Future<Output = ()>>>,
    pub dead: Option<String>,
}

impl ReplService {
    pub fn new(node: &Node) -> ReplService {
        nundb::verif::set_data_dir(Some(node.dir.clone()));
        let (tx, rx) = futures::channel::mpsc::channel::<String>(1000);
        let fut: std::pin::Pin<Box<dyn std::future::Future<Output = ()>>> =
            Box::pin(nundb::replication_ops::start_replication_thread(rx, node.dbs.clone()));
        let mut s = ReplService { tx, fut, dead: None };
        s.poll();
        s
    }

    fn poll(&mut self) {
        if self.dead.is_some() {
            return;
        }
        let waker = futures::task::noop_waker();
        let mut cx = std::task::Context::from_waker(&waker);
        let fut = &mut self.fut;
        match std::panic::catch_unwind(std::panic::AssertUnwindSafe(|| fut.as_mut().poll(&mut cx))) {
            Ok(std::task::Poll::Pending) => {}
            Ok(std::task::Poll::Ready(_)) => self.dead = Some("ended".to_string()),
            Err(e) => self.dead = Some(format!("panic: {}", crate::node::panic_msg(e))),
        }
    }

    /// feeds the messages the node queued for replication; returns the state of the service
    pub fn feed(&mut self, msgs: &J, dir: &str) -> J {
        nundb::verif::set_data_dir(Some(dir.to_string()));
        for m in msgs.as_array().unwrap_or(&vec![]) {
            if self.dead.is_some() {
                break;
            }
            if self.tx.try_send(m.as_str().unwrap_or("").to_string()).is_err() {
                self.dead = Some("channel closed".to_string());
                break;
            }
            self.poll();
        }
        match &self.dead {
            None => json!({"repl": "alive"}),
            Some(why) => json!({"repl": "dead", "why": why}),
        }
    }
}

lazy_static::lazy_static! {
    static ref EXTRA: std::sync::Mutex<Option<Box<dyn Fn() -> J + Send>>> = std::sync::Mutex::new(None);
}

/// Extra observation attached to every logged step (e.g. the S3 stub's request log).
pub fn set_extra(f: Option<Box<dyn Fn() -> J + Send>>) {
    *EXTRA.lock().unwrap() = f;
}

fn role_of(s: &str) -> ClusterRole {
    match s {
        "secondary" => ClusterRole::Secoundary,
        "startingup" => ClusterRole::StartingUp,
        _ => ClusterRole::Primary,
    }
}

pub fn run_case(case: &J, workdir: &str, out: &mut dyn Write, n: usize) {
    let id = case["id"].as_str().unwrap_or("?").to_string();
    let dir = format!("{}/run-{}-{}", workdir, std::process::id(), n);
    let _ = std::fs::remove_dir_all(&dir);
    let user = case["user"].as_str().unwrap_or("admin");
    let pwd = case["pwd"].as_str().unwrap_or("adminpwd");
    let role = role_of(case["role"].as_str().unwrap_or("primary"));
    let dump_every = case["dump"].as_bool().unwrap_or(true);
    VCLOCK.store(1000, std::sync::atomic::Ordering::SeqCst);
    let mut hdr = json!({"ev":"reset","run":id});
    if let Some(m) = case.get("meta") {
        hdr["meta"] = m.clone();
    }
    let mut node = match Node::start("node1", &dir, user, pwd, role) {
        Ok(n) => {
            hdr["dump"] = n.dump();
            writeln!(out, "{}", hdr).unwrap();
            n
        }
        Err(e) => {
            writeln!(out, "{}", hdr).unwrap();
            writeln!(out, "{}", json!({"ev":"start_failed","run":id,"msg":e})).unwrap();
            return;
        }
    };
    if let Some(t) = case["transport"].as_str() {
        node.set_transport(t);
    }
    let mut svc = if case["services"].as_bool() == Some(true) { Some(ReplService::new(&node)) } else { None };
    let empty = vec![];
    let steps = case["steps"].as_array().unwrap_or(&empty);
    // conflict notices every session received and has not answered yet (C13)
    let mut notices: std::collections::BTreeMap<String, Vec<String>> = std::collections::BTreeMap::new();
    for (i, st) in steps.iter().enumerate() {
        let mut ev = json!({"run": id, "i": i});
        if let Some(op) = st.get("op") {
            ev["op"] = op.clone();
        }
        if let Some(nth) = st.get("resolve_nth").and_then(|x| x.as_u64()) {
            // the arbiter answers its nth outstanding notice, echoing op id, database, key, version
            let c = st["c"].as_str().unwrap_or("arb");
            let value = st["value"].as_str().unwrap_or("rv");
            let list = notices.entry(c.to_string()).or_insert(vec![]);
            ev["ev"] = json!("cmd");
            ev["c"] = json!(c);
            if (nth as usize) < list.len() {
                let n = list.remove(nth as usize);
                let t: Vec<&str> = n.trim().splitn(7, ' ').collect();
                // keep: the arbiter decides for the value the key holds right now
                let held = node.dump()[t[2]]["keys"][t[4]][0].as_str().map(|x| x.to_string());
                let value: String = match (st["keep"].as_bool(), held) {
                    (Some(true), Some(v)) => v,
                    _ => value.to_string(),
                };
                let line = format!("resolve {} {} {} {} {}", t[1], t[2], t[4], t[3], value);
                ev["op"] = json!({"op":"resolve","opid":t[1].parse::<u64>().unwrap_or(0),"d":t[2],"k":t[4],
                                  "ver":t[3].parse::<i64>().unwrap_or(-1),"v":value,"notice":n.trim()});
                ev["line"] = json!(line);
                ev["r"] = node.exec(c, &line);
            } else {
                ev["op"] = json!({"op":"noop"});
                ev["line"] = json!("<no outstanding notice>");
                ev["r"] = json!({"cls":"ok"});
            }
            let inbox = node.drain_all();
            for (c2, lines) in inbox.iter() {
                for l in lines.as_array().unwrap_or(&vec![]) {
                    if l.as_str().unwrap_or("").starts_with("resolve ") {
                        notices.entry(c2.clone()).or_insert(vec![]).push(l.as_str().unwrap().to_string());
                    }
                }
            }
            ev["inbox"] = J::Object(inbox);
            ev["side"] = node.side_state();
            ev["dump"] = node.dump();
            writeln!(out, "{}", ev).unwrap();
            continue;
        }
        if let Some(line) = st.get("line").and_then(|l| l.as_str()) {
            let c = st["c"].as_str().unwrap_or("c1");
            let r = node.exec(c, line);
            ev["ev"] = json!("cmd");
            ev["c"] = json!(c);
            ev["line"] = json!(line);
            ev["r"] = r;
        } else if let Some(hexs) = st.get("rawhex").and_then(|l| l.as_str()) {
            // raw bytes on a socket (TCP: as they are; WebSocket: one frame of the given opcode)
            let c = st["c"].as_str().unwrap_or("c1");
            let bytes: Vec<u8> = (0..hexs.len() / 2).map(|j| u8::from_str_radix(&hexs[2 * j..2 * j + 2], 16).unwrap_or(0)).collect();
            let opcode = st["opcode"].as_u64().unwrap_or(2) as u8;
            let fin = st["fin"].as_bool().unwrap_or(true);
            ev["ev"] = json!("cmd");
            ev["c"] = json!(c);
            ev["line"] = json!(format!("<raw {} bytes opcode {}>", bytes.len(), opcode));
            ev["r"] = node.raw(c, opcode, fin, &bytes);
            if st["drop"].as_bool() == Some(true) {
                // the client goes away without a close frame / half-close
                node.forget(c);
            }
        } else if let Some(d) = st.get("direct_set") {
            ev["ev"] = json!("cmd");
            ev["c"] = json!(st["c"].as_str().unwrap_or("c1"));
            ev["line"] = json!("<direct set>");
            ev["r"] = node.direct_set(
                d["db"].as_str().unwrap_or("d"),
                d["k"].as_str().unwrap_or(""),
                d["v"].as_str().unwrap_or(""),
                d["ver"].as_i64().unwrap_or(-1) as i32,
            );
        } else if st.get("tick").is_some() && st.get("crash").is_some() {
            // crash imaging: after every file-system call of the snapshot the data directory is
            // copied (what a kill -9 at that instant leaves: buffered bytes are not there yet)
            ev["ev"] = json!("crashtick");
            ev["target"] = node.dump();
            // byte-level pre-state of every queued snapshot (NunDiskCrash is followed against it)
            let mut strs: Vec<Vec<u8>> = vec![];
            let queue = snapshot_queue(&node);
            ev["pre"] = crash_pre(&node, &dir, &queue, &mut strs);
            let dbnames: Vec<String> = queue.iter().map(|(d, _)| d.clone()).collect();
            let mut prev: std::collections::BTreeMap<String, Option<Vec<u8>>> = db_files(&dir, &dbnames);
            let img_root = format!("{}-img", dir);
            let _ = std::fs::remove_dir_all(&img_root);
            std::fs::create_dir_all(&img_root).unwrap();
            let sites: std::sync::Arc<std::sync::Mutex<Vec<String>>> = std::sync::Arc::new(std::sync::Mutex::new(vec![]));
            {
                let (sites2, src, root) = (sites.clone(), dir.clone(), img_root.clone());
                nundb::verif::set_crash_hook(Some(std::sync::Arc::new(move |site: &str| {
                    let mut s = sites2.lock().unwrap();
                    let n = s.len();
                    copy_dir(&src, &format!("{}/{}", root, n));
                    s.push(site.to_string());
                })));
            }
            ev["r"] = node.tick();
            nundb::verif::set_crash_hook(None);
            let sites = sites.lock().unwrap().clone();
            let mut images = vec![];
            let (user, pwd) = (node.user.clone(), node.pwd.clone());
            for (n, site) in sites.iter().enumerate() {
                let idir = format!("{}/{}", img_root, n);
                let probe = probe_load_child(&idir, &user, &pwd);
                let ok = matches!(probe, Ok(s) if s.success());
                let mut img = json!({"n": n, "site": site, "load": if ok { "ok" } else { "fail" }, "files": dir_sizes(&idir)});
                let cur = db_files(&idir, &dbnames);
                img["patch"] = patches(&prev, &cur);
                prev = cur;
                if ok {
                    match Node::start("img", &idir, &user, &pwd, ClusterRole::Primary) {
                        Ok(nd) => {
                            img["dump"] = nd.dump();
                            img["bload"] = byte_load(&nd, &dbnames, &mut strs);
                        }
                        Err(_) => img["load"] = json!("fail"),
                    }
                }
                images.push(img);
            }
            ev["strs"] = json!(strs);
            nundb::verif::set_data_dir(Some(dir.clone()));
            let _ = std::fs::remove_dir_all(&img_root);
            ev["images"] = json!(images);
        } else if st.get("tick").is_some() {
            ev["ev"] = json!("tick");
            let follow = case["follow_ticks"].as_bool() == Some(true);
            let queue = if follow { snapshot_queue(&node) } else { vec![] };
            if follow {
                let mut strs: Vec<Vec<u8>> = vec![];
                ev["pre"] = crash_pre(&node, &dir, &queue, &mut strs);
            }
            ev["r"] = node.tick();
            if follow {
                ev["post"] = snap_post(&node, &dir, &queue);
            }
        } else if let Some(c) = st.get("close").and_then(|c| c.as_str()) {
            // lines still queued for the closing session are reported before it goes
            let pre = node.drain_all();
            ev["pre_inbox"] = J::Object(pre);
            ev["ev"] = json!("close");
            ev["c"] = json!(c);
            ev["r"] = match st.get("how").and_then(|h| h.as_str()) {
                Some(h) if h != "clean" => node.close_abrupt(c, h),
                _ => node.close(c),
            };
        } else if st.get("restart").is_some() {
            ev["ev"] = json!("restart");
            let role_now = node.dbs.get_role();
            let (user, pwd) = (node.user.clone(), node.pwd.clone());
            drop(node);
            // the loader may abort the whole process on a damaged file (allocation of a garbage
            // length): try the start-up in a child process first
            let probe = probe_load_child(&dir, &user, &pwd);
            let probe_ok = matches!(probe, Ok(s) if s.success());
            let started = if probe_ok {
                Node::start("node1", &dir, &user, &pwd, role_now)
            } else {
                Err("start-up fails on this data directory (loader panicked or aborted)".to_string())
            };
            match started {
                Ok(n) => {
                    node = n;
                    ev["r"] = json!({"cls":"ok"});
                }
                Err(e) => {
                    ev["r"] = json!({"cls":"panic","msg":e});
                    ev["dump"] = json!({});
                    writeln!(out, "{}", ev).unwrap();
                    // the node cannot come back: the rest of the case is not runnable
                    writeln!(out, "{}", json!({"ev":"abandon","run":id,"i":i})).unwrap();
                    let _ = std::fs::remove_dir_all(&dir);
                    return;
                }
            }
        } else {
            ev["ev"] = json!("noop");
        }
        let inbox = node.drain_all();
        for (c2, lines) in inbox.iter() {
            for l in lines.as_array().unwrap_or(&vec![]) {
                if l.as_str().unwrap_or("").starts_with("resolve ") {
                    notices.entry(c2.clone()).or_insert(vec![]).push(l.as_str().unwrap().to_string());
                }
            }
        }
        if let Some(c) = st.get("close").and_then(|c| c.as_str()) {
            notices.remove(c);
        }
        ev["inbox"] = J::Object(inbox);
        ev["side"] = node.side_state();
        if let Some(sv) = svc.as_mut() {
            if st.get("restart").is_some() {
                *sv = ReplService::new(&node);
            }
            ev["services"] = sv.feed(&ev["side"]["repl"], &node.dir);
        }
        if dump_every || st.get("dump").is_some() {
            ev["dump"] = node.dump();
        }
        if let Some(f) = EXTRA.lock().unwrap().as_ref() {
            ev["extra"] = f();
        }
        if let Some(g) = st.get("fail_get_once") {
            if g.as_bool() == Some(true) {
                crate::s3::STUB.lock().unwrap().fail_get_once = true;
            }
        }
        writeln!(out, "{}", ev).unwrap();
    }
    drop(node);
    if case["keep"].as_bool() != Some(true) {
        let _ = std::fs::remove_dir_all(&dir);
    }
}

/// nunverif probe-load <dir> <user> <pwd>: exit 0 iff the node starts on that directory
pub fn probe_load(args: &[String]) {
    install_virtual_clock();
    silence_panics();
    match Node::start("node1", &args[0], &args[1], &args[2], ClusterRole::Primary) {
        Ok(_) => std::process::exit(0),
        Err(_) => std::process::exit(1),
    }
}

/// nunverif seq <cases.ndjson> <trace.ndjson> <workdir>
pub fn main(args: &[String]) {
    let cases = std::fs::File::open(&args[0]).expect("cases file");
    let mut out = BufWriter::new(std::fs::File::create(&args[1]).expect("trace file"));
    let workdir = &args[2];
    std::fs::create_dir_all(workdir).unwrap();
    install_virtual_clock();
    silence_panics();
    for (n, line) in std::io::BufReader::new(cases).lines().enumerate() {
        let line = line.unwrap();
        if line.trim().is_empty() {
            continue;
        }
        let case: J = serde_json::from_str(&line).expect("case json");
        run_case(&case, workdir, &mut out, n);
    }
    out.flush().unwrap();
}
