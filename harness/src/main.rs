mod cluster;
mod conc;
mod http;
mod ids;
mod net;
mod node;
mod oplog;
mod pending;
mod s3;
mod seq;
mod stress;

fn main() {
    let args: Vec<String> = std::env::args().collect();
    if args.len() < 2 {
        eprintln!("usage: nunverif <seq|...> args");
        std::process::exit(2);
    }
    let rest = &args[2..];
    match args[1].as_str() {
        "seq" => seq::main(rest),
        "s3" => s3::main(rest),
        "ids" => ids::main(rest),
        "cluster" => cluster::main(rest),
        "pending" => pending::main(rest),
        "oplog" => oplog::main(rest),
        "probe-load" => seq::probe_load(rest),
        "http" => http::main(rest),
        "conc" => conc::main(rest),
        "stress" => stress::main(rest),
        x => {
            eprintln!("unknown subcommand {}", x);
            std::process::exit(2);
        }
    }
}
