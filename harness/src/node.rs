//! One in-process NunDB node: the real `Databases`, driven through `process_request`,
//! with the replication / supervisor queue receivers kept by the harness.
use futures::channel::mpsc::{channel, Receiver, Sender};
use nundb::bo::*;
use nundb::disk_ops;
use nundb::process_request::process_request;
use serde_json::{json, Map, Value as J};
use std::collections::BTreeMap;
use std::panic::{catch_unwind, AssertUnwindSafe};
use std::sync::atomic::{AtomicU64, Ordering};
use std::sync::Arc;

pub static VCLOCK: AtomicU64 = AtomicU64::new(1000);
pub static VCLOCK_STEP: AtomicU64 = AtomicU64::new(1);

/// Installs a virtual, strictly increasing clock for operation ids (small numbers, so that
/// they fit TLC's 32-bit integers and runs are reproducible).
pub fn install_virtual_clock() {
    nundb::verif::set_clock_hook(Some(Arc::new(|| {
        let step = VCLOCK_STEP.load(Ordering::SeqCst);
        Some(VCLOCK.fetch_add(step, Ordering::SeqCst) + step)
    })));
}

pub fn silence_panics() {
    if std::env::var("NUNVERIF_SHOW_PANICS").is_ok() {
        return;
    }
    std::panic::set_hook(Box::new(|_| {}));
}

pub struct Sess {
    pub client: Client,
    pub rx: Receiver<String>,
}

pub struct Node {
    pub name: String,
    pub dir: String,
    pub user: String,
    pub pwd: String,
    pub dbs: Arc<Databases>,
    pub repl_rx: Receiver<String>,
    pub sup_rx: Receiver<String>,
    pub sessions: BTreeMap<String, Sess>,
    // real transport (C17, C10): sessions are sockets
    pub transport: String,
    pub port: u16,
    pub conns: BTreeMap<String, crate::net::Conn>,
    pub net_inbox: BTreeMap<String, Vec<String>>,
    pub barrier_no: u64,
    // connections that were sent raw bytes: what state the server's side is in (half a line, half a message) is
    // not known, so no barrier line is put on them any more
    pub tainted: std::collections::BTreeSet<String>,
}

pub fn drain(rx: &mut Receiver<String>) -> Vec<String> {
    let mut out = vec![];
    loop {
        match rx.try_next() {
            Ok(Some(m)) => out.push(m),
            _ => break,
        }
    }
    out
}

fn strategy_name(s: ConsensuStrategy) -> &'static str {
    match s {
        ConsensuStrategy::Arbiter => "arbiter",
        ConsensuStrategy::Newer => "newer",
        ConsensuStrategy::None => "none",
    }
}

fn state_name(s: ValueStatus) -> &'static str {
    match s {
        ValueStatus::Ok => "Ok",
        ValueStatus::Deleted => "Deleted",
        ValueStatus::Updated => "Updated",
        ValueStatus::New => "New",
    }
}

pub fn panic_msg(e: Box<dyn std::any::Any + Send>) -> String {
    if let Some(s) = e.downcast_ref::<&str>() {
        s.to_string()
    } else if let Some(s) = e.downcast_ref::<String>() {
        s.clone()
    } else {
        "panic".to_string()
    }
}

impl Node {
    /// Start-up exactly as `main.rs::start_db` does it (minus sockets and timers).
    pub fn start(name: &str, dir: &str, user: &str, pwd: &str, role: ClusterRole) -> Result<Node, String> {
        std::fs::create_dir_all(dir).map_err(|e| e.to_string())?;
        nundb::verif::set_data_dir(Some(dir.to_string()));
        let (repl_tx, repl_rx): (Sender<String>, Receiver<String>) = channel(10000);
        let (sup_tx, sup_rx): (Sender<String>, Receiver<String>) = channel(10000);
        let name_s = name.to_string();
        let (user_s, pwd_s) = (user.to_string(), pwd.to_string());
        let res = catch_unwind(AssertUnwindSafe(move || {
            let keys_map = disk_ops::load_keys_map_from_disk();
            let is_oplog_valid = disk_ops::is_oplog_valid();
            if !is_oplog_valid {
                disk_ops::Oplog::clean_op_log_metadata_files();
            }
            let dbs = nundb::db_ops::create_init_dbs(
                user_s,
                pwd_s,
                name_s.clone(),
                name_s,
                sup_tx,
                repl_tx,
                keys_map,
                is_oplog_valid,
            );
            Databases::load_all_dbs(&dbs);
            dbs
        }));
        match res {
            Ok(dbs) => {
                dbs.node_state.swap(role as usize, Ordering::SeqCst);
                Ok(Node {
                    name: name.to_string(),
                    dir: dir.to_string(),
                    user: user.to_string(),
                    pwd: pwd.to_string(),
                    dbs,
                    repl_rx,
                    sup_rx,
                    sessions: BTreeMap::new(),
                    transport: "direct".to_string(),
                    port: 0,
                    conns: BTreeMap::new(),
                    net_inbox: BTreeMap::new(), barrier_no: 0, tainted: std::collections::BTreeSet::new(),
                })
            }
            Err(e) => Err(panic_msg(e)),
        }
    }

    /// Serves the node on a loopback port with the real TCP / WebSocket server code.
    pub fn set_transport(&mut self, t: &str) {
        self.transport = t.to_string();
        // the server's threads are not the harness thread: they find the data directory through the
        // process-wide override (one node is served at a time)
        if t != "direct" {
            nundb::verif::set_global_data_dir(Some(self.dir.clone()));
        }
        if t == "tcp" || t == "ws" {
            // the server is up when a connection to its port is accepted (the WebSocket server allocates its
            // connection table first, which takes seconds on a loaded machine); a port that somebody else took
            // between choosing it and binding it is given up for another one.  A server that cannot be started is a
            // failure of the harness, never a verdict.
            for attempt in 0..4 {
                self.port = if t == "tcp" { crate::net::start_tcp(self.dbs.clone()) } else { crate::net::start_ws(self.dbs.clone()) };
                let deadline = std::time::Instant::now() + std::time::Duration::from_secs(20);
                while std::time::Instant::now() < deadline {
                    if std::net::TcpStream::connect(("127.0.0.1", self.port)).is_ok() {
                        // (the probe connection is closed at once: the server sees a client that went away)
                        std::thread::sleep(std::time::Duration::from_millis(20));
                        return;
                    }
                    std::thread::sleep(std::time::Duration::from_millis(10));
                }
                eprintln!("transport {} did not come up on port {} (attempt {})", t, self.port, attempt);
            }
            eprintln!("cannot start the {} server", t);
            std::process::exit(3);
        }
    }

    fn net_exec(&mut self, c: &str, line: &str) -> J {
        if !self.conns.contains_key(c) {
            let conn = if self.transport == "tcp" { crate::net::Conn::tcp(self.port) } else { crate::net::Conn::ws(self.port) };
            match conn {
                Ok(k) => {
                    self.conns.insert(c.to_string(), k);
                }
                Err(e) => return json!({"cls":"closed","msg":e}),
            }
        }
        let mut pushed = vec![];
        let r = self.conns.get_mut(c).unwrap().command(line, &mut pushed);
        self.net_inbox.entry(c.to_string()).or_insert(vec![]).extend(pushed);
        r
    }

    /// Raw bytes on a socket session (C10): no answer is awaited; whatever comes back within 40 ms is kept
    /// as pushed lines.
    pub fn raw(&mut self, c: &str, opcode: u8, fin: bool, bytes: &[u8]) -> J {
        if self.transport == "direct" {
            return json!({"cls":"ok"});
        }
        if !self.conns.contains_key(c) {
            let conn = if self.transport == "tcp" { crate::net::Conn::tcp(self.port) } else { crate::net::Conn::ws(self.port) };
            match conn {
                Ok(k) => {
                    self.conns.insert(c.to_string(), k);
                }
                Err(e) => return json!({"cls":"closed","msg":e}),
            }
        }
        self.tainted.insert(c.to_string());
        let k = self.conns.get_mut(c).unwrap();
        let r = match k.send_raw(opcode, fin, bytes) {
            Ok(_) => json!({"cls":"ok"}),
            Err(e) => json!({"cls":"closed","msg":e}),
        };
        let got = k.collect_until_quiet(std::time::Duration::from_millis(40));
        self.net_inbox.entry(c.to_string()).or_insert(vec![]).extend(got);
        self.settle();
        r
    }

    /// Waits until the server threads have nothing left to do: the projection of the node does not
    /// change for 40 ms (handlers poll their sockets every 2 ms).
    fn settle(&self) {
        let mut last = self.dump().to_string();
        let mut stable_since = std::time::Instant::now();
        let deadline = std::time::Instant::now() + std::time::Duration::from_millis(1500);
        while std::time::Instant::now() < deadline {
            std::thread::sleep(std::time::Duration::from_millis(8));
            let now = self.dump().to_string();
            if now != last {
                last = now;
                stable_since = std::time::Instant::now();
            } else if stable_since.elapsed() > std::time::Duration::from_millis(40) {
                break;
            }
        }
    }

    pub fn session(&mut self, c: &str) -> &mut Sess {
        if !self.sessions.contains_key(c) {
            let (client, rx) = Client::new_empty_and_receiver();
            self.sessions.insert(c.to_string(), Sess { client, rx });
        }
        self.sessions.get_mut(c).unwrap()
    }

    /// Runs one command line on session `c`; returns (class, detail).
    pub fn exec(&mut self, c: &str, line: &str) -> J {
        nundb::verif::set_data_dir(Some(self.dir.clone()));
        if self.transport != "direct" {
            let r = self.net_exec(c, line);
            self.settle();
            return r;
        }
        let dbs = self.dbs.clone();
        let sess = self.session(c);
        let client = &mut sess.client;
        let r = catch_unwind(AssertUnwindSafe(|| process_request(line, &dbs, client)));
        match r {
            Ok(Response::Ok {}) => json!({"cls":"ok"}),
            Ok(Response::Set { key, value }) => json!({"cls":"ok","set_key":key,"set_val":value}),
            Ok(Response::Value { key, value, version }) => {
                json!({"cls":"value","key":key,"val":value,"ver":version})
            }
            Ok(Response::Error { msg }) => json!({"cls":"error","msg":msg}),
            Ok(Response::VersionError { msg, old_version, version, .. }) => {
                json!({"cls":"verr","msg":msg,"old_version":old_version,"version":version})
            }
            Err(e) => json!({"cls":"panic","msg":panic_msg(e)}),
        }
    }

    /// A write through `db_ops::set_key_value`, where the `Response::Set` that names the
    /// stored value is still visible (process_request turns it into a bare ok).
    pub fn direct_set(&mut self, db: &str, key: &str, value: &str, version: i32) -> J {
        nundb::verif::set_data_dir(Some(self.dir.clone()));
        let dbs = self.dbs.clone();
        let r = catch_unwind(AssertUnwindSafe(|| {
            let map = dbs.map.read().unwrap();
            match map.get(db) {
                Some(d) => nundb::db_ops::set_key_value(key.to_string(), value.to_string(), version, d, &dbs),
                None => Response::Error { msg: "no db".to_string() },
            }
        }));
        match r {
            Ok(Response::Ok {}) => json!({"cls":"ok"}),
            Ok(Response::Set { key, value }) => json!({"cls":"ok","set_key":key,"set_val":value}),
            Ok(Response::Value { key, value, version }) => json!({"cls":"value","key":key,"val":value,"ver":version}),
            Ok(Response::Error { msg }) => json!({"cls":"error","msg":msg}),
            Ok(Response::VersionError { msg, .. }) => json!({"cls":"verr","msg":msg}),
            Err(e) => json!({"cls":"panic","msg":panic_msg(e)}),
        }
    }

    /// The client's socket is dropped abruptly (no close frame, no half-close).
    pub fn forget(&mut self, c: &str) {
        self.conns.remove(c);
        self.net_inbox.remove(c);
        self.settle();
    }

    /// A connection that does not end with the client's orderly close (socket transports; in process it is
    /// the ordinary close).  `badline`: bytes that are not UTF-8 (TCP) / a binary frame that is not UTF-8
    /// (WebSocket), then the orderly close.  `rst`: commands are sent, their answers are left unread and the
    /// socket is dropped -- the kernel resets the connection.  `drop`: the socket is dropped without a
    /// half-close / close frame.  The positive signal that the server is done with the connection is the end of
    /// the thread it keeps per connection (threads of this process, 3 s at most).
    pub fn close_abrupt(&mut self, c: &str, how: &str) -> J {
        nundb::verif::set_data_dir(Some(self.dir.clone()));
        if self.transport == "direct" {
            return self.close(c);
        }
        let threads = || std::fs::read_dir("/proc/self/task").map(|d| d.count()).unwrap_or(0);
        if let Some(mut k) = self.conns.remove(c) {
            let before = threads();
            match how {
                "badline" => {
                    let _ = if k.is_tcp() { k.send_raw(0, true, b"\xff\xfe\xfd\n") } else { k.send_raw(2, true, b"\xff\xfe\xfd") };
                    let _ = k.collect_until_quiet(std::time::Duration::from_millis(30));
                    k.close();
                }
                "rst" => {
                    for _ in 0..3 {
                        let _ = k.send("keys zzz-no-such-key");
                    }
                    // the answers reach this socket's receive queue and stay unread
                    std::thread::sleep(std::time::Duration::from_millis(50));
                    drop(k);
                }
                _ => drop(k),
            }
            let deadline = std::time::Instant::now() + std::time::Duration::from_millis(10000);
            while threads() >= before && std::time::Instant::now() < deadline {
                std::thread::sleep(std::time::Duration::from_millis(5));
            }
            self.settle();
        }
        self.net_inbox.remove(c);
        json!({"cls":"ok"})
    }

    /// What the transports do when a connection ends.
    pub fn close(&mut self, c: &str) -> J {
        nundb::verif::set_data_dir(Some(self.dir.clone()));
        if self.transport != "direct" {
            if let Some(k) = self.conns.remove(c) {
                k.close();
                self.settle();
            }
            self.net_inbox.remove(c);
            return json!({"cls":"ok"});
        }
        let dbs = self.dbs.clone();
        let r = if let Some(sess) = self.sessions.get_mut(c) {
            let client = &mut sess.client;
            let r = catch_unwind(AssertUnwindSafe(|| {
                process_request("unwatch-all", &dbs, client);
                client.left(&dbs);
            }));
            match r {
                Ok(_) => json!({"cls":"ok"}),
                Err(e) => json!({"cls":"panic","msg":panic_msg(e)}),
            }
        } else {
            json!({"cls":"ok"})
        };
        self.sessions.remove(c);
        r
    }

    pub fn tick(&mut self) -> J {
        nundb::verif::set_data_dir(Some(self.dir.clone()));
        let dbs = self.dbs.clone();
        match catch_unwind(AssertUnwindSafe(|| disk_ops::snapshot_all_pendding_dbs(&dbs))) {
            Ok(_) => json!({"cls":"ok"}),
            Err(e) => json!({"cls":"panic","msg":panic_msg(e)}),
        }
    }

    /// Lines waiting on every session's channel, per session (drained).
    pub fn drain_all(&mut self) -> Map<String, J> {
        let mut m = Map::new();
        if self.transport != "direct" {
            // TCP: a barrier line per connection (its answer travels behind every line queued for the connection
            // before it).  WebSocket: pushed lines and answers take different routes, so every connection is read
            // until none of them has delivered anything for 60 ms.
            self.barrier_no += 1;
            let tag = format!("{}", self.barrier_no);
            // (a WebSocket session's answers and the lines pushed to it travel through the same channel of the
            // session -- on_message answers with client.sender, which is also what watch registers -- so the barrier
            // line works there as well; the silence rule below stays as a second line of defence)
            let mut any_ws = false;
            for (c, k) in self.conns.iter_mut() {
                if self.tainted.contains(c) {
                    let got = k.poll(std::time::Duration::from_millis(2));
                    if !got.is_empty() {
                        self.net_inbox.entry(c.clone()).or_insert(vec![]).extend(got);
                    }
                    continue;
                }
                let got = k.barrier(&tag);
                if !got.is_empty() {
                    self.net_inbox.entry(c.clone()).or_insert(vec![]).extend(got);
                }
                if !k.is_tcp() {
                    any_ws = true;
                }
            }
            if any_ws {
                let mut last = std::time::Instant::now();
                let deadline = last + std::time::Duration::from_millis(10000);
                while last.elapsed() < std::time::Duration::from_millis(60) && std::time::Instant::now() < deadline {
                    for (c, k) in self.conns.iter_mut() {
                        let got = k.poll(std::time::Duration::from_millis(2));
                        if !got.is_empty() {
                            last = std::time::Instant::now();
                            self.net_inbox.entry(c.clone()).or_insert(vec![]).extend(got);
                        }
                    }
                }
            }
            for (c, lines) in self.net_inbox.iter_mut() {
                if !lines.is_empty() {
                    m.insert(c.clone(), json!(lines.clone()));
                    lines.clear();
                }
            }
            return m;
        }
        for (c, s) in self.sessions.iter_mut() {
            let lines = drain(&mut s.rx);
            if !lines.is_empty() {
                m.insert(c.clone(), json!(lines));
            }
        }
        m
    }

    /// Projection of the node state: every database with metadata and every key
    /// (value, version, persistence state); a poisoned lock is reported as such.
    pub fn dump(&self) -> J {
        let r = catch_unwind(AssertUnwindSafe(|| {
            let mut out = Map::new();
            let dbs = match self.dbs.map.read() {
                Ok(d) => d,
                Err(_) => return json!({"#poisoned":"dbs.map"}),
            };
            let mut names: Vec<&String> = dbs.keys().collect();
            names.sort();
            for name in names {
                let db = dbs.get(name).unwrap();
                let mut keys = Map::new();
                match db.map.read() {
                    Ok(map) => {
                        let mut ks: Vec<&String> = map.keys().collect();
                        ks.sort();
                        for k in ks {
                            let v = map.get(k).unwrap();
                            keys.insert(k.clone(), json!([v.value, v.version, state_name(v.state)]));
                        }
                    }
                    Err(_) => {
                        keys.insert("#poisoned".to_string(), json!(["db.map", 0, "Poisoned"]));
                    }
                }
                let conns = match db.connections.read() {
                    Ok(c) => c.load(Ordering::SeqCst) as i64,
                    Err(_) => -1,
                };
                let watchers: J = match db.watchers.map.read() {
                    Ok(w) => {
                        let mut m = Map::new();
                        let mut ks: Vec<&String> = w.keys().collect();
                        ks.sort();
                        for k in ks {
                            m.insert(k.clone(), json!(w.get(k).unwrap().len()));
                        }
                        J::Object(m)
                    }
                    Err(_) => json!({"#poisoned":1}),
                };
                out.insert(
                    name.clone(),
                    json!({"id": db.metadata.id, "strategy": strategy_name(db.metadata.consensus_strategy),
                           "conns": conns, "keys": keys, "watchers": watchers}),
                );
            }
            J::Object(out)
        }));
        match r {
            Ok(j) => j,
            Err(e) => json!({"#panic": panic_msg(e)}),
        }
    }

    pub fn side_state(&mut self) -> J {
        let repl = drain(&mut self.repl_rx);
        let sup = drain(&mut self.sup_rx);
        let snapq: Vec<J> = match self.dbs.to_snapshot.read() {
            Ok(q) => q.iter().map(|(n, r)| json!([n, r])).collect(),
            Err(_) => vec![json!(["#poisoned", false])],
        };
        let pending = match self.dbs.pending_opps.read() {
            Ok(p) => p.len() as i64,
            Err(_) => -1,
        };
        let members: Vec<String> = {
            let cs = self.dbs.cluster_state.lock();
            match cs {
                Ok(cs) => {
                    let m = cs.members.lock().unwrap();
                    let mut v: Vec<String> = m.values().map(|x| format!("{}:{}", x.name, x.role)).collect();
                    v.sort();
                    v
                }
                Err(_) => vec!["#poisoned".to_string()],
            }
        };
        json!({"repl": repl, "sup": sup, "snapq": snapq, "pending": pending,
               "members": members, "role": format!("{}", self.dbs.get_role())})
    }
}
