//! Cluster simulator: 2-3 real `Databases` in one process, each with its own data
//! directory, its real replication loop and replication supervisor (polled by the
//! simulator one queued message at a time), and simulated links in place of the TCP
//! dial of `start_replication` (hook H6): one FIFO of request lines and one FIFO of
//! reply lines per dialled connection.  Every step of the system is one scheduler step:
//!   client(i)     the next client command of the case
//!   repl(n)       node n's replication loop handles one queued entry
//!   sup(n)        node n's supervisor handles one command
//!   deliver(l)    the head request line of link l is processed by the peer's session
//!   reply(l)      the head reply line of link l is processed by the dialling node
//!   tick(t)       one iteration of a suspended election wait loop (only when nothing
//!                 else is enabled: messages are faster than the election timeout)
//!   kill(n)       node n dies: its connections are closed
use crate::node::*;
use futures::channel::mpsc::{channel, Receiver, Sender};
use nundb::bo::*;
use nundb::process_request::process_request;
use nundb::verif::LinkStart;
use serde_json::{json, Value as J};
use std::cell::Cell;
use std::collections::{BTreeMap, VecDeque};
use std::future::Future;
use std::io::{BufRead, BufWriter, Write};
use std::panic::{catch_unwind, AssertUnwindSafe};
use std::pin::Pin;
use std::sync::{Arc, Condvar, Mutex};
use std::task::{Context, Poll};
use std::time::Duration;

// ---------------------------------------------------------------------------
// tasks: a handler that may block in an election wait loop runs on its own thread and
// parks at the election yield points

thread_local! {
    static TASK: Cell<Option<usize>> = Cell::new(None);
    // tasks that run a step of the replication loop / supervisor with lock yields on park before every
    // acquisition of the cluster-state lock
    static LOCK_PARK: Cell<bool> = Cell::new(false);
}

struct SendPtr(*mut Pin<Box<dyn Future<Output = ()>>>);
unsafe impl Send for SendPtr {}

struct TaskSt {
    current: Option<usize>,
    parked: BTreeMap<usize, String>,   // task -> site
    finished: BTreeMap<usize, J>,
    tags: Vec<(String, String)>,
}

struct Baton {
    m: Mutex<TaskSt>,
    cv: Condvar,
}

static NEXT_TASK: std::sync::atomic::AtomicUsize = std::sync::atomic::AtomicUsize::new(1);

lazy_static::lazy_static! {
    static ref BATON: Baton = Baton {
        m: Mutex::new(TaskSt { current: None, parked: BTreeMap::new(), finished: BTreeMap::new(), tags: vec![] }),
        cv: Condvar::new(),
    };
    static ref NEW_LINKS: Mutex<Vec<(LinkStart, Arc<(Mutex<bool>, Condvar)>)>> = Mutex::new(vec![]);
}

fn on_yield(site: &str) {
    if site.starts_with("cluster_state.") {
        if !LOCK_PARK.with(|c| c.get()) {
            return;
        }
    } else if !site.starts_with("election.") {
        return;
    }
    let tid = match TASK.with(|t| t.get()) {
        Some(t) => t,
        None => return,
    };
    let mut st = BATON.m.lock().unwrap();
    st.parked.insert(tid, site.to_string());
    st.current = None;
    BATON.cv.notify_all();
    while st.current != Some(tid) {
        st = BATON.cv.wait(st).unwrap();
    }
    st.parked.remove(&tid);
}

/// Runs `f` as task `tid` until it finishes or parks. Returns Some(result) if finished.
fn run_task<F: FnOnce() -> J + Send + 'static>(tid: usize, dir: String, f: F) -> Result<Option<J>, String> {
    {
        let mut st = BATON.m.lock().unwrap();
        st.current = Some(tid);
    }
    std::thread::spawn(move || {
        TASK.with(|t| t.set(Some(tid)));
        nundb::verif::set_data_dir(Some(dir));
        let r = match catch_unwind(AssertUnwindSafe(f)) {
            Ok(j) => j,
            Err(e) => json!({"cls":"panic","msg":panic_msg(e)}),
        };
        let mut st = BATON.m.lock().unwrap();
        st.finished.insert(tid, r);
        st.current = None;
        BATON.cv.notify_all();
    });
    wait_task(tid)
}

fn resume_task(tid: usize) -> Result<Option<J>, String> {
    {
        let mut st = BATON.m.lock().unwrap();
        st.current = Some(tid);
        BATON.cv.notify_all();
    }
    wait_task(tid)
}

fn wait_task(tid: usize) -> Result<Option<J>, String> {
    let mut st = BATON.m.lock().unwrap();
    let mut waited = 0;
    while st.current.is_some() {
        let (g, to) = BATON.cv.wait_timeout(st, Duration::from_millis(500)).unwrap();
        st = g;
        if to.timed_out() {
            waited += 1;
            if waited > 40 {
                return Err(format!("task {} neither parked nor finished in 20 s", tid));
            }
        }
    }
    Ok(st.finished.remove(&tid))
}

fn resp_json(r: Response) -> J {
    match r {
        Response::Ok {} => json!({"cls":"ok"}),
        Response::Set { key, value } => json!({"cls":"ok","set_key":key,"set_val":value}),
        Response::Value { key, value, version } => json!({"cls":"value","key":key,"val":value,"ver":version}),
        Response::Error { msg } => json!({"cls":"error","msg":msg}),
        Response::VersionError { msg, .. } => json!({"cls":"verr","msg":msg}),
    }
}

// ---------------------------------------------------------------------------

struct SimNode {
    name: String,
    node: Node,
    pid: u128,
    alive: bool,
    repl_q: VecDeque<String>,
    sup_q: VecDeque<String>,
    repl_tx: Sender<String>,
    sup_tx: Sender<String>,
    repl_fut: Pin<Box<dyn Future<Output = ()>>>,
    sup_fut: Pin<Box<dyn Future<Output = ()>>>,
    // lock yields: the task that is in the middle of a step of this node's loop / supervisor
    repl_busy: Option<usize>,
    sup_busy: Option<usize>,
}

struct Link {
    id: usize,
    from: String,
    to: String,
    open: bool,
    dead: bool,    // the peer process ended: nothing is delivered any more, the dialling side may still hold the sender
    handshake: VecDeque<String>,
    cmd_rx: Receiver<String>,
    req: VecDeque<String>,
    rsp: VecDeque<String>,
    // server side (on `to`): what tcp handle_client keeps per connection
    ysess: Option<Arc<Mutex<Sess>>>,
    // client side (on `from`): the authenticated link client of start_replication
    xclient: Arc<Mutex<Client>>,
    ybusy: Option<usize>,
    xbusy: Option<usize>,
    release: Arc<(Mutex<bool>, Condvar)>,
}

enum TaskKind {
    Deliver(usize),
    Reply(usize),
    ClientCmd(usize),
    Disconnect(String, String),
    Sup(String),
    Repl(String),
}

/// What is recorded around a step of the supervisor: the command, and for the catch-up builder its inputs
/// (taken when the step last got the processor: with lock yields on, at its last resume) and the number of
/// lines that were on the connection then.
struct SupCtx {
    msg: String,
    catchup: Option<(String, u64, J, usize, Option<bool>)>,
}

struct Sim {
    nodes: Vec<SimNode>,
    links: Vec<Link>,
    tasks: BTreeMap<usize, TaskKind>,
    next_task: usize,
    out: Vec<J>,
    run: String,
    sent: usize,
    user: String,
    pwd: String,
    schedule: Vec<String>,
    sched_pos: usize,
    drift: usize,
    trace_state: bool,
    trace_data: bool,
    sup_dead: BTreeMap<String, bool>,
    lock_yields: bool,
    disruptive: std::collections::BTreeSet<usize>,
    sup_ctx: BTreeMap<usize, SupCtx>,
    repl_ctx: BTreeMap<usize, String>,
}

fn strip_id(line: &str) -> String {
    // "rp <id> <inner>" -> "rp <inner>", "ack <id> <node>" -> "ack <node>"
    let t = line.trim();
    let mut p = t.splitn(3, ' ');
    match p.next() {
        Some("rp") => {
            let _ = p.next();
            format!("rp {}", p.next().unwrap_or("").trim())
        }
        Some("ack") => {
            let _ = p.next();
            format!("ack {}", p.next().unwrap_or("").trim())
        }
        _ => t.to_string(),
    }
}

fn poll_once(f: &mut Pin<Box<dyn Future<Output = ()>>>) {
    let waker = futures::task::noop_waker();
    let mut cx = Context::from_waker(&waker);
    match f.as_mut().poll(&mut cx) {
        Poll::Ready(_) => {}
        Poll::Pending => {}
    }
}

impl Sim {
    fn idx(&self, name: &str) -> Option<usize> {
        self.nodes.iter().position(|n| n.name == name)
    }

    fn emit(&mut self, mut ev: J) {
        let tags: Vec<(String, String)> = { BATON.m.lock().unwrap().tags.drain(..).collect() };
        for (k, v) in tags {
            self.out.push(json!({"ev":"tag","run":self.run,"name":k,"value":v}));
        }
        ev["run"] = json!(self.run);
        self.out.push(ev);
    }

    fn start_node(&mut self, name: &str, dir: &str, pid: u128) -> Result<(), String> {
        let mut node = Node::start(name, dir, &self.user.clone(), &self.pwd.clone(), ClusterRole::StartingUp)?;
        // Databases.process_id is the start time in ms: distinct, ordered start times are given
        // by the case (the node with the smallest pid is the longest-running one)
        let dbs_ptr = Arc::as_ptr(&node.dbs) as *mut Databases;
        unsafe {
            (*dbs_ptr).process_id = pid;
        }
        let (repl_tx, repl_rx2): (Sender<String>, Receiver<String>) = channel(1000);
        let (sup_tx, sup_rx2): (Sender<String>, Receiver<String>) = channel(1000);
        nundb::verif::set_data_dir(Some(dir.to_string()));
        let mut repl_fut: Pin<Box<dyn Future<Output = ()>>> =
            Box::pin(nundb::replication_ops::start_replication_thread(repl_rx2, node.dbs.clone()));
        let mut sup_fut: Pin<Box<dyn Future<Output = ()>>> = Box::pin(
            nundb::replication_ops::start_replication_supervisor(sup_rx2, node.dbs.clone(), Arc::new(name.to_string())),
        );
        poll_once(&mut repl_fut); // opens the oplog files in this node's directory
        poll_once(&mut sup_fut);
        let _ = &mut node;
        self.nodes.push(SimNode {
            name: name.to_string(),
            node,
            pid,
            alive: true,
            repl_q: VecDeque::new(),
            sup_q: VecDeque::new(),
            repl_tx,
            sup_tx,
            repl_fut,
            sup_fut,
            repl_busy: None,
            sup_busy: None,
        });
        Ok(())
    }

    /// Moves what the real code queued into the simulator's FIFOs (observation only).
    fn collect(&mut self) {
        for n in self.nodes.iter_mut() {
            for m in drain(&mut n.node.repl_rx) {
                n.repl_q.push_back(m);
            }
            for m in drain(&mut n.node.sup_rx) {
                n.sup_q.push_back(m);
            }
        }
        for l in self.links.iter_mut() {
            loop {
                match l.cmd_rx.try_next() {
                    Ok(Some(m)) => l.req.push_back(m),
                    Ok(None) => {
                        // every sender is gone: the member was removed
                        l.dead = false;
                        if l.open && l.req.is_empty() && l.handshake.is_empty() {
                            l.open = false;
                            let (m, cv) = &*l.release;
                            *m.lock().unwrap() = true;
                            cv.notify_all();
                            // the connection's thread now leaves start_replication and, for a connection a
                            // primary dialled, removes the member entry of that name (whatever it is by
                            // then): let it do so now, not at some later step
                            std::thread::sleep(Duration::from_millis(25));
                        }
                        break;
                    }
                    Err(_) => break,
                }
            }
        }
        // `ok' reply lines are skipped by the dialling side (start_replication: "Ignoring ok message"):
        // they are consumed here, without a scheduler step of their own
        for l in self.links.iter_mut() {
            while l.rsp.front().map(|m| m.trim() == "ok").unwrap_or(false) {
                l.rsp.pop_front();
            }
        }
        // links the real code opened since the last step
        let mut fresh = NEW_LINKS.lock().unwrap();
        for (ls, release) in fresh.drain(..) {
            let id = self.links.len();
            let (mut client, _rx) = Client::new_empty_and_receiver();
            client.auth.store(true, std::sync::atomic::Ordering::Relaxed);
            *client.cluster_member.lock().unwrap() = Some(ClusterMember {
                name: ls.tcp_addr.clone(),
                role: ClusterRole::Secoundary,
                sender: None,
            });
            let mut hs = VecDeque::new();
            hs.push_back(format!("auth {} {}", self.user, self.pwd));
            if ls.is_primary {
                hs.push_back(format!("set-primary {}", ls.tcp_addr));
            } else {
                hs.push_back(format!("set-secoundary {}", ls.tcp_addr));
                let dir = self.nodes.iter().find(|n| n.name == ls.tcp_addr).map(|n| n.node.dir.clone());
                nundb::verif::set_data_dir(dir);
                let t = nundb::disk_ops::Oplog::last_op_time();
                hs.push_back(format!("replicate-since {} {}", ls.tcp_addr, t));
            }
            let ev = json!({"ev":"link","id":id,"from":ls.tcp_addr,"to":ls.peer,"as_primary":ls.is_primary});
            self.links.push(Link {
                id,
                from: ls.tcp_addr.clone(),
                to: ls.peer.clone(),
                open: true,
                dead: false,
                handshake: hs,
                cmd_rx: ls.command_receiver,
                req: VecDeque::new(),
                rsp: VecDeque::new(),
                ysess: None,
                xclient: Arc::new(Mutex::new(client)),
                ybusy: None,
                xbusy: None,
                release,
            });
            drop(ls.dbs);
            self.emit(ev);
        }
    }

    /// Waits until every cluster member with a sender has its link registered.
    fn settle_links(&mut self) -> Result<(), String> {
        for _ in 0..400 {
            self.collect();
            let mut expected = 0;
            for n in self.nodes.iter().filter(|n| n.alive) {
                if let Ok(cs) = n.node.dbs.cluster_state.lock() {
                    if let Ok(members) = cs.members.lock() {
                        expected += members.values().filter(|m| m.sender.is_some()).count();
                    }
                }
            }
            let have = self.links.iter().filter(|l| l.open || l.dead).count();
            if have >= expected {
                return Ok(());
            }
            std::thread::sleep(Duration::from_millis(5));
        }
        Err("links did not register".to_string())
    }

    fn enabled(&mut self, next_client: Option<usize>, allow_client: bool) -> Vec<String> {
        self.collect();
        let mut v = vec![];
        for n in self.nodes.iter().filter(|n| n.alive) {
            if !n.repl_q.is_empty() && n.repl_busy.is_none() {
                v.push(format!("repl:{}", n.name));
            }
            if !n.sup_q.is_empty() && n.sup_busy.is_none() {
                v.push(format!("sup:{}", n.name));
            }
        }
        // steps of a loop / supervisor parked before the cluster-state lock go on at any time
        let lock_parked = self.lock_parked();
        for t in lock_parked.iter() {
            v.push(format!("resume:{}", t));
        }
        for l in self.links.iter() {
            let to_alive = self.nodes.iter().any(|n| n.name == l.to && n.alive);
            let from_alive = self.nodes.iter().any(|n| n.name == l.from && n.alive);
            if l.open && to_alive && l.ybusy.is_none() && (!l.handshake.is_empty() || !l.req.is_empty()) {
                v.push(format!("deliver:{}", l.id));
            }
            if l.open && from_alive && l.xbusy.is_none() && !l.rsp.is_empty() {
                v.push(format!("reply:{}", l.id));
            }
        }
        if allow_client && lock_parked.is_empty() {
            if let Some(i) = next_client {
                v.push(format!("client:{}", i));
            }
        } else if allow_client {
            // (a node is not killed / restarted in the middle of a parked step: its futures are in use)
            if let Some(i) = next_client {
                if !self.disruptive.contains(&i) {
                    v.push(format!("client:{}", i));
                }
            }
        }
        v
    }

    fn lock_parked(&self) -> Vec<usize> {
        let st = BATON.m.lock().unwrap();
        st.parked.iter().filter(|(t, site)| site.starts_with("cluster_state.") && self.tasks.contains_key(t)).map(|(t, _)| *t).collect()
    }

    /// Maps a model step ("repl:n1", "deliver:n1>n2", "reply:n1>n2") to an enabled simulator step.
    fn resolve(&self, want: &str, enabled: &Vec<String>) -> Option<String> {
        let (kind, arg) = want.split_once(':')?;
        if kind == "repl" || kind == "sup" || kind == "client" {
            return enabled.iter().find(|e| *e == want).cloned();
        }
        if kind == "tick" {
            for t in self.suspended() {
                if self.origin(t) == arg {
                    return Some(format!("tick:{}", t));
                }
            }
            return None;
        }
        let (x, y) = arg.split_once('>')?;
        for e in enabled.iter() {
            if let Some((k, id)) = e.split_once(':') {
                if k == kind {
                    if let Ok(i) = id.parse::<usize>() {
                        if self.links[i].from == x && self.links[i].to == y {
                            return Some(e.clone());
                        }
                    }
                }
            }
        }
        None
    }

    /// Model-level name of a task (who is running the blocked call).
    fn origin(&self, tid: usize) -> String {
        match self.tasks.get(&tid) {
            Some(TaskKind::Deliver(lid)) => format!("L:{}>{}", self.links[*lid].from, self.links[*lid].to),
            Some(TaskKind::Reply(lid)) => format!("R:{}>{}", self.links[*lid].from, self.links[*lid].to),
            Some(TaskKind::ClientCmd(i)) => format!("client:{}", i),
            Some(TaskKind::Sup(n)) => format!("sup:{}", n),
            Some(TaskKind::Repl(n)) => format!("repl:{}", n),
            Some(TaskKind::Disconnect(node, peer)) => {
                if let Some(x) = peer.strip_prefix("join-from-") {
                    format!("join:{}>{}", x, node)
                } else if peer == "initial-election" {
                    format!("init:{}", node)
                } else {
                    format!("disc:{}<{}", node, peer)
                }
            }
            None => format!("task:{}", tid),
        }
    }

    /// Model-level label of a simulator step (links by end points, tasks by origin).
    fn label(&self, s: &str) -> String {
        let (kind, arg) = s.split_once(':').unwrap_or((s, ""));
        match kind {
            "deliver" | "reply" => match arg.parse::<usize>() {
                Ok(i) => format!("{}:{}>{}", kind, self.links[i].from, self.links[i].to),
                Err(_) => s.to_string(),
            },
            "tick" => match arg.parse::<usize>() {
                Ok(t) => format!("tick:{}", self.origin(t)),
                Err(_) => s.to_string(),
            },
            "resume" => match arg.parse::<usize>() {
                Ok(t) => format!("resume:{}", self.origin(t)),
                Err(_) => s.to_string(),
            },
            _ => s.to_string(),
        }
    }

    /// Projection of the control-plane state compared with the NunElect model after every step.
    fn proj(&mut self) -> J {
        self.collect();
        let mut nodes = serde_json::Map::new();
        for n in self.nodes.iter() {
            let (mem, poisoned) = match n.node.dbs.cluster_state.lock() {
                Ok(cs) => match cs.members.lock() {
                    Ok(m) => {
                        let mut v: Vec<(String, String, bool)> = m.values()
                            .map(|x| (x.name.clone(), if x.role == ClusterRole::Primary { "P".to_string() } else { "S".to_string() }, x.sender.is_some()))
                            .collect();
                        v.sort();
                        (v, false)
                    }
                    Err(_) => (vec![], true),
                },
                Err(_) => (vec![], true),
            };
            let mut pend: Vec<(u64, J)> = match n.node.dbs.pending_opps.read() {
                Ok(p) => p.values().map(|m| {
                    let mut reps: Vec<(String, bool)> = m.replications.lock().map(|r| r.iter().map(|(k, v)| (k.clone(), *v)).collect()).unwrap_or_default();
                    reps.sort();
                    (m.opp_id, json!({"rc": m.replicate_count.load(std::sync::atomic::Ordering::Relaxed),
                                      "ac": m.ack_count.load(std::sync::atomic::Ordering::Relaxed),
                                      "reps": reps.iter().map(|(k, v)| json!([k, v])).collect::<Vec<J>>()}))
                }).collect(),
                Err(_) => vec![],
            };
            pend.sort_by_key(|x| x.0);
            nodes.insert(n.name.clone(), json!({
                "alive": n.alive,
                "role": format!("{}", n.node.dbs.get_role()),
                "mem": mem.iter().map(|(a, b, c)| json!([a, b, c])).collect::<Vec<J>>(),
                "poisoned": poisoned,
                "pend": pend.into_iter().map(|x| x.1).collect::<Vec<J>>(),
                "replq": n.repl_q.iter().map(|m| strip_id(m)).collect::<Vec<String>>(),
                "supq": n.sup_q.iter().cloned().collect::<Vec<String>>(),
                "supdead": self.sup_dead.get(&n.name).cloned().unwrap_or(false),
                "data": if self.trace_data { n.node.dump() } else { json!({}) },
                "snapq": n.node.dbs.to_snapshot.read().map(|q| q.iter().map(|(d, r)| json!([d, r])).collect::<Vec<J>>()).unwrap_or_default(),
            }));
        }
        let mut links = vec![];
        for l in self.links.iter() {
            let tag: J = match &l.ysess {
                Some(s) => match s.try_lock() {
                    Ok(s) => match s.client.cluster_member.try_lock() {
                        Ok(m) => match &*m {
                            Some(m) => json!([m.name, if m.role == ClusterRole::Primary { "P" } else { "S" }]),
                            None => json!([]),
                        },
                        Err(_) => json!(["?"]),
                    },
                    Err(_) => json!(["busy"]),
                },
                None => json!([]),
            };
            let mut q: Vec<String> = l.handshake.iter().map(|m| strip_id(m)).collect();
            q.extend(l.req.iter().map(|m| strip_id(m)));
            links.push(json!({"from": l.from, "to": l.to, "open": l.open, "q": q,
                              "rsp": l.rsp.iter().map(|m| strip_id(m)).collect::<Vec<String>>(),
                              "tag": tag, "busy": l.ybusy.is_some(), "sess": l.ysess.is_some()}));
        }
        let parked: Vec<J> = {
            let st = BATON.m.lock().unwrap();
            let mut v: Vec<(String, String)> = st.parked.iter().map(|(t, site)| (self.origin(*t), site.clone())).collect();
            v.sort();
            v.iter().map(|(a, b)| json!([a, b])).collect()
        };
        json!({"nodes": nodes, "links": links, "parked": parked})
    }

    fn emit_state(&mut self, label: &str) {
        if self.trace_state {
            let p = self.proj();
            self.emit(json!({"ev":"st","step":label,"st":p}));
        }
    }

    fn suspended(&self) -> Vec<usize> {
        let st = BATON.m.lock().unwrap();
        st.parked.iter().filter(|(_, site)| !site.starts_with("cluster_state.")).map(|(t, _)| *t).collect()
    }

    /// Inputs of the catch-up builder as they are right now (raw operation log, identifier maps, databases) and
    /// the number of lines on the connection to the target.
    fn catchup_ctx(&mut self, i: usize, m: &str) -> Option<(String, u64, J, usize, Option<bool>)> {
        let rest = m.strip_prefix("replicate-since-to ")?;
        let mut p = rest.splitn(2, ' ');
        let target = p.next().unwrap_or("").to_string();
        let since: u64 = p.next().unwrap_or("0").trim().parse().unwrap_or(0);
        self.collect();
        let before = self.links.iter().rev().find(|l| l.from == self.nodes[i].name && l.to == target)
            .map(|l| l.handshake.len() + l.req.len()).unwrap_or(0);
        let dir = self.nodes[i].node.dir.clone();
        let oplog: Vec<J> = crate::ids::read_records(&dir).iter()
            .map(|(t, k, d, o)| json!({"t": t, "k": k, "d": d, "op": o})).collect();
        let dbs = &self.nodes[i].node.dbs;
        let mut idk: Vec<(u64, String)> = dbs.id_keys_map.read().map(|m| m.iter().map(|(a, b)| (*a, b.clone())).collect()).unwrap_or_default();
        let mut idd: Vec<(u64, String)> = dbs.id_name_db_map.read().map(|m| m.iter().map(|(a, b)| (*a, b.clone())).collect()).unwrap_or_default();
        idk.sort();
        idd.sort();
        let inputs = json!({"oplog": oplog, "idk": idk.iter().map(|(a, b)| json!([a, b])).collect::<Vec<J>>(),
                            "idd": idd.iter().map(|(a, b)| json!([a, b])).collect::<Vec<J>>(),
                            "store": self.nodes[i].node.dump()});
        // (read before the call: a panic inside it poisons the lock)
        let member = self.nodes[i].node.dbs.cluster_state.lock().ok()
            .and_then(|cs| cs.members.lock().ok().map(|m| m.get(&target).map(|x| x.sender.is_some())))
            .flatten();
        Some((target, since, inputs, before, member))
    }

    /// What a finished supervisor step is recorded as.
    fn sup_done(&mut self, name: &str, ctx: SupCtx, panicked: bool) -> Result<(), String> {
        if panicked {
            self.sup_dead.insert(name.to_string(), true);
        }
        if let Some((target, since, inputs, before, member)) = ctx.catchup {
            self.settle_links()?;
            let lines: Vec<String> = self.links.iter().rev().find(|l| l.from == name && l.to == target)
                .map(|l| l.handshake.iter().chain(l.req.iter()).skip(before).cloned().collect()).unwrap_or_default();
            self.emit(json!({"ev":"catchup","node":name,"target":target,"since":since,"inputs":inputs,
                             "lines":lines,"panic":panicked,
                             "member": match member { Some(true) => "sender", Some(false) => "nosender", None => "none" }}));
        }
        self.emit(json!({"ev":"sup","node":name,"msg":ctx.msg,"panic":panicked}));
        self.settle_links()
    }

    fn finish_task(&mut self, tid: usize, r: J) {
        let kind = self.tasks.remove(&tid);
        match kind {
            Some(TaskKind::Deliver(lid)) => {
                self.links[lid].ybusy = None;
                // what handle_client does after process_request: ok / error line, then
                // everything pushed on the session channel goes out in order
                let sess = self.links[lid].ysess.clone().unwrap();
                let mut s = sess.lock().unwrap();
                let line = if r["cls"] == "error" { format!("error {} \n", r["msg"].as_str().unwrap_or("")) } else { "ok \n".to_string() };
                let _ = s.client.sender.try_send(line);
                let lines = drain(&mut s.rx);
                drop(s);
                for ln in lines {
                    self.links[lid].rsp.push_back(ln);
                }
                self.emit(json!({"ev":"delivered","link":lid,"r":r,"task":tid}));
            }
            Some(TaskKind::Reply(lid)) => {
                self.links[lid].xbusy = None;
                self.emit(json!({"ev":"replied","link":lid,"r":r,"task":tid}));
            }
            Some(TaskKind::ClientCmd(i)) => {
                self.emit(json!({"ev":"client_ret","i":i,"r":r,"task":tid}));
            }
            Some(TaskKind::Disconnect(node, peer)) => {
                self.emit(json!({"ev":"disconnected","node":node,"peer":peer,"r":r,"task":tid}));
            }
            Some(TaskKind::Sup(name)) => {
                if let Some(i) = self.idx(&name) {
                    self.nodes[i].sup_busy = None;
                }
                if let Some(ctx) = self.sup_ctx.remove(&tid) {
                    if let Err(e) = self.sup_done(&name, ctx, r["cls"] == "panic") {
                        self.emit(json!({"ev":"error","msg":e}));
                    }
                }
            }
            Some(TaskKind::Repl(name)) => {
                let mut role = "-".to_string();
                if let Some(i) = self.idx(&name) {
                    self.nodes[i].repl_busy = None;
                    role = format!("{}", self.nodes[i].node.dbs.get_role());
                }
                let m = self.repl_ctx.remove(&tid).unwrap_or_default();
                self.emit(json!({"ev":"repl","node":name,"msg":m,"role":role,"panic":r["cls"] == "panic","task":tid}));
            }
            None => {}
        }
    }

    fn new_task(&mut self, kind: TaskKind) -> usize {
        // task ids are unique over the whole process: a thread left parked by a run that ended
        // without going quiet must never be mistaken for a task of a later run
        let t = NEXT_TASK.fetch_add(1, std::sync::atomic::Ordering::SeqCst);
        self.next_task = t + 1;
        self.tasks.insert(t, kind);
        t
    }

    fn step(&mut self, s: &str, case: &J) -> Result<(), String> {
        let (kind, arg) = s.split_once(':').unwrap_or((s, ""));
        match kind {
            "repl" => {
                let i = self.idx(arg).ok_or("node")?;
                let m = self.nodes[i].repl_q.pop_front().ok_or("empty repl")?;
                nundb::verif::set_data_dir(Some(self.nodes[i].node.dir.clone()));
                if self.nodes[i].repl_tx.try_send(m.clone()).is_err() {
                    let name = self.nodes[i].name.clone();
                    self.emit(json!({"ev":"repl","node":name,"msg":m,"panic":false,"dead":true,"role":"-"}));
                    return Ok(());
                }
                if self.lock_yields {
                    // the step runs as a task: it parks before every acquisition of the cluster-state lock
                    let name = self.nodes[i].name.clone();
                    let dir = self.nodes[i].node.dir.clone();
                    let tid = self.new_task(TaskKind::Repl(name.clone()));
                    self.nodes[i].repl_busy = Some(tid);
                    self.repl_ctx.insert(tid, m.clone());
                    let ptr = SendPtr(&mut self.nodes[i].repl_fut as *mut _);
                    let r = run_task(tid, dir, move || {
                        LOCK_PARK.with(|c| c.set(true));
                        let p = ptr;
                        unsafe { poll_once(&mut *p.0) };
                        json!({"cls":"ok"})
                    })?;
                    if let Some(r) = r {
                        self.finish_task(tid, r);
                    } else {
                        self.emit(json!({"ev":"parked","task":tid,"step":format!("repl:{}", name),"msg":m}));
                    }
                    return Ok(());
                }
                let f = &mut self.nodes[i].repl_fut;
                let r = catch_unwind(AssertUnwindSafe(|| poll_once(f)));
                let name = self.nodes[i].name.clone();
                let role = format!("{}", self.nodes[i].node.dbs.get_role());
                self.emit(json!({"ev":"repl","node":name,"msg":m,"role":role,"panic":r.is_err()}));
            }
            "sup" => {
                let i = self.idx(arg).ok_or("node")?;
                let m = self.nodes[i].sup_q.pop_front().ok_or("empty sup")?;
                nundb::verif::set_data_dir(Some(self.nodes[i].node.dir.clone()));
                if self.nodes[i].sup_tx.try_send(m.clone()).is_err() {
                    // the supervisor loop ended earlier (it panicked): the command is lost
                    let name = self.nodes[i].name.clone();
                    self.sup_dead.insert(name.clone(), true);
                    self.emit(json!({"ev":"sup","node":name,"msg":m,"panic":false,"dead":true}));
                    return Ok(());
                }
                // the catch-up builder: its inputs are recorded before the call (raw operation log read
                // from the files, identifier maps, databases), its output (the lines put on the joining
                // node's connection) after it
                let catchup = self.catchup_ctx(i, &m);
                let name = self.nodes[i].name.clone();
                if self.lock_yields {
                    let dir = self.nodes[i].node.dir.clone();
                    let tid = self.new_task(TaskKind::Sup(name.clone()));
                    self.nodes[i].sup_busy = Some(tid);
                    self.sup_ctx.insert(tid, SupCtx { msg: m.clone(), catchup });
                    let ptr = SendPtr(&mut self.nodes[i].sup_fut as *mut _);
                    let r = run_task(tid, dir, move || {
                        LOCK_PARK.with(|c| c.set(true));
                        let p = ptr;
                        unsafe { poll_once(&mut *p.0) };
                        json!({"cls":"ok"})
                    })?;
                    if let Some(r) = r {
                        self.finish_task(tid, r);
                    } else {
                        self.emit(json!({"ev":"parked","task":tid,"step":format!("sup:{}", name),"msg":m}));
                    }
                    return Ok(());
                }
                let f = &mut self.nodes[i].sup_fut;
                let r = catch_unwind(AssertUnwindSafe(|| poll_once(f)));
                self.sup_done(&name, SupCtx { msg: m.clone(), catchup }, r.is_err())?;
            }
            "resume" => {
                let tid: usize = arg.parse().map_err(|_| "task id")?;
                let site = { BATON.m.lock().unwrap().parked.get(&tid).cloned().unwrap_or_default() };
                // the catch-up builder runs from here on: its inputs are what the node holds now
                let sup_of = match self.tasks.get(&tid) {
                    Some(TaskKind::Sup(name)) => self.idx(name),
                    _ => None,
                };
                if let Some(i) = sup_of {
                    let m = self.sup_ctx.get(&tid).map(|c| c.msg.clone()).unwrap_or_default();
                    let fresh = self.catchup_ctx(i, &m);
                    if let Some(c) = self.sup_ctx.get_mut(&tid) {
                        c.catchup = fresh;
                    }
                }
                self.emit(json!({"ev":"resume","task":tid,"site":site}));
                if let Some(r) = resume_task(tid)? {
                    self.finish_task(tid, r);
                }
            }
            "deliver" => {
                let lid: usize = arg.parse().map_err(|_| "link id")?;
                let line = match self.links[lid].handshake.pop_front() {
                    Some(l) => l,
                    None => self.links[lid].req.pop_front().ok_or("empty link")?,
                };
                let (from, to) = (self.links[lid].from.clone(), self.links[lid].to.clone());
                let yi = self.idx(&to).ok_or("peer")?;
                if self.links[lid].ysess.is_none() {
                    let (client, rx) = Client::new_empty_and_receiver();
                    self.links[lid].ysess = Some(Arc::new(Mutex::new(Sess { client, rx })));
                }
                self.sent += 1;
                let from_role = self.idx(&from).map(|i| format!("{}", self.nodes[i].node.dbs.get_role())).unwrap_or_default();
                let sess = self.links[lid].ysess.clone().unwrap();
                // what the receiving side knows when it handles the line: its own role, whether the session was
                // tagged as the primary's (set-primary seen on it), whether it is authenticated
                let (sess_primary, sess_auth) = match sess.try_lock() {
                    Ok(s) => (s.client.is_primary(), s.client.auth.load(std::sync::atomic::Ordering::SeqCst)),
                    Err(_) => (false, false),
                };
                let to_role = format!("{}", self.nodes[yi].node.dbs.get_role());
                self.emit(json!({"ev":"deliver","link":lid,"from":from,"to":to,"line":line,"from_role":from_role,
                                 "to_role":to_role,"sess_primary":sess_primary,"sess_auth":sess_auth}));
                let dbs = self.nodes[yi].node.dbs.clone();
                let dir = self.nodes[yi].node.dir.clone();
                let tid = self.new_task(TaskKind::Deliver(lid));
                self.links[lid].ybusy = Some(tid);
                let r = run_task(tid, dir, move || {
                    let mut s = sess.lock().unwrap();
                    resp_json(process_request(&line, &dbs, &mut s.client))
                })?;
                if let Some(r) = r {
                    self.finish_task(tid, r);
                } else {
                    self.emit(json!({"ev":"suspended","task":tid}));
                }
            }
            "reply" => {
                let lid: usize = arg.parse().map_err(|_| "link id")?;
                let line = self.links[lid].rsp.pop_front().ok_or("empty rsp")?;
                let (from, to) = (self.links[lid].from.clone(), self.links[lid].to.clone());
                let xi = self.idx(&from).ok_or("node")?;
                let msg = line.trim().to_string();
                self.emit(json!({"ev":"reply","link":lid,"from":to,"to":from,"line":msg}));
                if msg == "ok" {
                    return Ok(());
                }
                self.sent += 1;
                let client = self.links[lid].xclient.clone();
                let dbs = self.nodes[xi].node.dbs.clone();
                let dir = self.nodes[xi].node.dir.clone();
                let tid = self.new_task(TaskKind::Reply(lid));
                self.links[lid].xbusy = Some(tid);
                let r = run_task(tid, dir, move || {
                    let mut c = client.lock().unwrap();
                    resp_json(process_request(&msg, &dbs, &mut c))
                })?;
                if let Some(r) = r {
                    self.finish_task(tid, r);
                } else {
                    self.emit(json!({"ev":"suspended","task":tid}));
                }
            }
            "client" => {
                let i: usize = arg.parse().map_err(|_| "client idx")?;
                let op = &case["ops"][i];
                let node = op["node"].as_str().unwrap_or("n1").to_string();
                let c = op["c"].as_str().unwrap_or("c1").to_string();
                let ni = self.idx(&node).ok_or("node")?;
                if let Some(k) = op.get("kill").and_then(|k| k.as_str()) {
                    self.kill(k)?;
                    return Ok(());
                }
                if let Some(k) = op.get("tick").and_then(|k| k.as_str()) {
                    // declutter timer of that node
                    let ti = self.idx(k).ok_or("node")?;
                    let r = self.nodes[ti].node.tick();
                    self.emit(json!({"ev":"tick_node","node":k,"r":r}));
                    return Ok(());
                }
                if let Some(k) = op.get("restart").and_then(|k| k.as_str()) {
                    // the node process ends (if it still runs) and is started again on its directory
                    let ti = self.idx(k).ok_or("node")?;
                    if self.nodes[ti].alive {
                        self.kill(k)?;
                    }
                    // threads of the old process that are parked in a wait loop are gone with it: they are
                    // never resumed, and the connections they served are no longer busy
                    let dead: Vec<usize> = self.tasks.iter().filter(|(_, kind)| match kind {
                        TaskKind::Deliver(lid) => self.links[*lid].to == k,
                        TaskKind::Reply(lid) => self.links[*lid].from == k,
                        TaskKind::ClientCmd(j) => case["ops"][*j]["node"].as_str() == Some(k),
                        TaskKind::Disconnect(node, _) => node == k,
                        TaskKind::Sup(node) | TaskKind::Repl(node) => node == k,
                    }).map(|(t, _)| *t).collect();
                    for t in dead.iter() {
                        self.tasks.remove(t);
                        BATON.m.lock().unwrap().parked.remove(t);
                        for l in self.links.iter_mut() {
                            if l.ybusy == Some(*t) {
                                l.ybusy = None;
                            }
                            if l.xbusy == Some(*t) {
                                l.xbusy = None;
                            }
                        }
                    }
                    // connections other nodes had dialled to the old process ended with it
                    for l in self.links.iter_mut() {
                        if l.to == k && l.open {
                            l.open = false;
                            l.dead = true;
                        }
                    }
                    let dir = self.nodes[ti].node.dir.clone();
                    let pid = op["pid"].as_u64().map(|p| p as u128).unwrap_or(self.nodes[ti].pid + 1000);
                    if op["wipe"].as_bool() == Some(true) {
                        let _ = std::fs::remove_dir_all(&dir);
                    }
                    let old = self.nodes.remove(ti);
                    drop(old);
                    let before = self.nodes.len();
                    let started = self.start_node(k, &dir, pid);
                    if let Err(e) = started {
                        self.emit(json!({"ev":"restart_failed","node":k,"msg":e}));
                        return Err(format!("node {} does not start again: restart_failed", k));
                    }
                    let fresh = self.nodes.remove(before);
                    self.nodes.insert(ti, fresh);
                    let dump = self.nodes[ti].node.dump();
                    self.emit(json!({"ev":"restarted","node":k,"wipe":op["wipe"].as_bool() == Some(true),"dump":dump,
                                     "oplog_valid": self.nodes[ti].node.dbs.is_oplog_valid.load(std::sync::atomic::Ordering::SeqCst)}));
                    // it asks every other live node to let it join (auth; join self)
                    let others: Vec<String> = self.nodes.iter().filter(|n| n.alive && n.name != k).map(|n| n.name.clone()).collect();
                    for y in others {
                        let yi = self.idx(&y).unwrap();
                        let (mut c, _rx) = Client::new_empty_and_receiver();
                        let dbs = self.nodes[yi].node.dbs.clone();
                        let dir = self.nodes[yi].node.dir.clone();
                        let (u, p, xn) = (self.user.clone(), self.pwd.clone(), k.to_string());
                        let tid = self.new_task(TaskKind::Disconnect(y.clone(), format!("join-from-{}", k)));
                        self.emit(json!({"ev":"ask_join","from":k,"to":y}));
                        let r = run_task(tid, dir, move || {
                            process_request(&format!("auth {} {}", u, p), &dbs, &mut c);
                            resp_json(process_request(&format!("join {}", xn), &dbs, &mut c))
                        })?;
                        if let Some(r) = r {
                            self.finish_task(tid, r);
                        } else {
                            self.emit(json!({"ev":"suspended","task":tid}));
                        }
                        self.settle_links()?;
                    }
                    return Ok(());
                }
                let line = op["line"].as_str().unwrap_or("").to_string();
                self.emit(json!({"ev":"client","i":i,"node":node,"c":c,"line":line,"op":op.get("op").cloned().unwrap_or(json!({}))}));
                // sessions live in the node; the command itself may block (elections)
                let key = format!("{}", c);
                if !self.nodes[ni].node.sessions.contains_key(&key) {
                    let (client, rx) = Client::new_empty_and_receiver();
                    self.nodes[ni].node.sessions.insert(key.clone(), Sess { client, rx });
                }
                let sess = self.nodes[ni].node.sessions.remove(&key).unwrap();
                let shared = Arc::new(Mutex::new(Some(sess)));
                let shared2 = shared.clone();
                let dbs = self.nodes[ni].node.dbs.clone();
                let dir = self.nodes[ni].node.dir.clone();
                let tid = self.new_task(TaskKind::ClientCmd(i));
                let r = run_task(tid, dir, move || {
                    let mut g = shared2.lock().unwrap();
                    let s = g.as_mut().unwrap();
                    resp_json(process_request(&line, &dbs, &mut s.client))
                })?;
                // (a client command that suspends keeps its session until it finishes; not used by the cases)
                if let Ok(mut g) = shared.try_lock() {
                    if let Some(s) = g.take() {
                        self.nodes[ni].node.sessions.insert(key, s);
                    }
                }
                if let Some(r) = r {
                    self.finish_task(tid, r);
                } else {
                    self.emit(json!({"ev":"suspended","task":tid}));
                }
            }
            "tick" => {
                let tid: usize = arg.parse().map_err(|_| "task id")?;
                let site = { BATON.m.lock().unwrap().parked.get(&tid).cloned().unwrap_or_default() };
                self.emit(json!({"ev":"tick","task":tid,"site":site}));
                if let Some(r) = resume_task(tid)? {
                    self.finish_task(tid, r);
                }
            }
            _ => return Err(format!("unknown step {}", s)),
        }
        Ok(())
    }

    fn kill(&mut self, name: &str) -> Result<(), String> {
        let i = self.idx(name).ok_or("node")?;
        self.nodes[i].alive = false;
        self.emit(json!({"ev":"kill","node":name}));
        // connections dialled by the dead node: the peers' server sides see EOF
        let mut glue = vec![];
        for l in self.links.iter_mut() {
            if l.from == name && l.open {
                l.open = false;
                if let Some(s) = l.ysess.clone() {
                    glue.push((l.to.clone(), s));
                }
            }
            if l.to == name && l.open {
                // the dialling side's reader ends; its writer keeps the member until a leave
                l.rsp.clear();
                l.req.clear();
                l.handshake.clear();
            }
        }
        for (peer, sess) in glue {
            let yi = match self.idx(&peer) {
                Some(i) if self.nodes[i].alive => i,
                _ => continue,
            };
            let dbs = self.nodes[yi].node.dbs.clone();
            let dir = self.nodes[yi].node.dir.clone();
            let tid = self.new_task(TaskKind::Disconnect(peer.clone(), name.to_string()));
            // tcp_ops::handle_client on end of stream
            let r = run_task(tid, dir, move || {
                let mut s = sess.lock().unwrap();
                process_request("unwatch-all", &dbs, &mut s.client);
                let member = { s.client.cluster_member.lock().unwrap().clone() };
                let mut out = json!({"cls":"ok"});
                if let Some(m) = member {
                    let (mut fake, _) = Client::new_empty_and_receiver();
                    fake.auth.store(true, std::sync::atomic::Ordering::Relaxed);
                    let msg = match m.role {
                        ClusterRole::Primary => format!("leave {}", m.name),
                        _ => format!("replicate-leave {}", m.name),
                    };
                    out = resp_json(process_request(&msg, &dbs, &mut fake));
                    out["glue"] = json!(msg);
                }
                s.client.left(&dbs);
                out
            })?;
            if let Some(r) = r {
                self.finish_task(tid, r);
            } else {
                self.emit(json!({"ev":"suspended","task":tid}));
            }
        }
        Ok(())
    }

    fn snapshot_state(&mut self) -> J {
        let mut nodes = serde_json::Map::new();
        for n in self.nodes.iter_mut() {
            if !n.alive {
                nodes.insert(n.name.clone(), json!({"alive": false}));
                continue;
            }
            let members: Vec<J> = match n.node.dbs.cluster_state.lock() {
                Ok(cs) => match cs.members.lock() {
                    Ok(m) => {
                        let mut v: Vec<J> = m.values().map(|x| json!([x.name, format!("{}", x.role), x.sender.is_some()])).collect();
                        v.sort_by(|a, b| a.to_string().cmp(&b.to_string()));
                        v
                    }
                    Err(_) => vec![json!(["#poisoned", "-", false])],
                },
                Err(_) => vec![json!(["#poisoned", "-", false])],
            };
            let pending = n.node.dbs.pending_opps.read().map(|p| p.len() as i64).unwrap_or(-1);
            let mut inbox = serde_json::Map::new();
            for (c, lines) in n.node.drain_all() {
                inbox.insert(c, lines);
            }
            nodes.insert(n.name.clone(), json!({"alive": true, "pid": n.pid as u64, "role": format!("{}", n.node.dbs.get_role()),
                "members": members, "pending": pending, "dump": n.node.dump(), "inbox": inbox,
                "oplog_valid": n.node.dbs.is_oplog_valid.load(std::sync::atomic::Ordering::SeqCst)}));
        }
        J::Object(nodes)
    }
}

fn link_hook(ls: LinkStart) {
    // called on the thread the supervisor spawned for this connection: register and stay
    // until the simulator closes the link (as start_replication does until the socket ends)
    let release = Arc::new((Mutex::new(false), Condvar::new()));
    NEW_LINKS.lock().unwrap().push((ls, release.clone()));
    let (m, cv) = &*release;
    let mut closed = m.lock().unwrap();
    while !*closed {
        let (g, _) = cv.wait_timeout(closed, Duration::from_millis(200)).unwrap();
        closed = g;
    }
}

struct Rng(u64);
impl Rng {
    fn next(&mut self) -> u64 {
        let mut x = self.0;
        x ^= x << 13;
        x ^= x >> 7;
        x ^= x << 17;
        self.0 = x;
        x
    }
}

pub fn run_case(case: &J, workdir: &str, out: &mut dyn Write, n: usize) -> Result<(), String> {
    let id = case["id"].as_str().unwrap_or("?").to_string();
    VCLOCK.store(1000, std::sync::atomic::Ordering::SeqCst);
    {
        let mut st = BATON.m.lock().unwrap();
        st.current = None;
        st.parked.clear();
        st.finished.clear();
        st.tags.clear();
    }
    NEW_LINKS.lock().unwrap().clear();
    let mut sim = Sim { nodes: vec![], links: vec![], tasks: BTreeMap::new(), next_task: 1, out: vec![], run: id.clone(),
                        sent: 0, user: "admin".to_string(), pwd: "adminpwd".to_string(),
                        schedule: vec![], sched_pos: 0, drift: 0,
                        trace_state: case["trace_state"].as_bool() == Some(true),
                        trace_data: case["trace_data"].as_bool() == Some(true), sup_dead: BTreeMap::new(),
                        lock_yields: case["lock_yields"].as_bool() == Some(true),
                        disruptive: case["ops"].as_array().map(|a| a.iter().enumerate()
                            .filter(|(_, o)| o.get("kill").is_some() || o.get("restart").is_some()).map(|(i, _)| i).collect()).unwrap_or_default(),
                        sup_ctx: BTreeMap::new(),
                        repl_ctx: BTreeMap::new() };
    let empty = vec![];
    let names: Vec<String> = case["nodes"].as_array().unwrap_or(&empty).iter().map(|x| x.as_str().unwrap().to_string()).collect();
    let base = format!("{}/cl-{}-{}", workdir, std::process::id(), n);
    let _ = std::fs::remove_dir_all(&base);
    for (i, name) in names.iter().enumerate() {
        let pid = case["pids"][i].as_u64().unwrap_or(100 + i as u64) as u128;
        sim.start_node(name, &format!("{}/{}", base, name), pid)?;
    }
    sim.emit(json!({"ev":"reset","nodes":names,"meta":case.get("meta").cloned().unwrap_or(json!({}))}));
    let mut rng = Rng(case["seed"].as_u64().unwrap_or(1).wrapping_mul(0x9E3779B97F4A7C15).max(1));
    let budget = case["budget"].as_u64().unwrap_or(3000) as usize;

    // ---- formation: roles and links established through the real supervisor / link messages
    let form = case["formation"].as_str().unwrap_or("direct").to_string();
    if form == "direct" {
        // n[0] is the primary: what winning an election and accepting joins leave behind
        let p = names[0].clone();
        let pi = sim.idx(&p).unwrap();
        sim.nodes[pi].node.dbs.node_state.swap(ClusterRole::Primary as usize, std::sync::atomic::Ordering::SeqCst);
        sim.nodes[pi].sup_q.push_back("election-win self".to_string());
        for s in names.iter().skip(1) {
            sim.nodes[pi].sup_q.push_back(format!("secoundary {}", s));
        }
    } else if form == "join" {
        // every node asks every configured peer to join (auth; join self) as main.rs does
        for x in names.iter() {
            for y in names.iter() {
                if x != y {
                    let yi = sim.idx(y).unwrap();
                    let (mut c, _rx) = Client::new_empty_and_receiver();
                    let dbs = sim.nodes[yi].node.dbs.clone();
                    let dir = sim.nodes[yi].node.dir.clone();
                    let (u, p, xn) = (sim.user.clone(), sim.pwd.clone(), x.clone());
                    let tid = sim.new_task(TaskKind::Disconnect(y.clone(), format!("join-from-{}", x)));
                    sim.emit(json!({"ev":"ask_join","from":x,"to":y}));
                    let r = run_task(tid, dir, move || {
                        process_request(&format!("auth {} {}", u, p), &dbs, &mut c);
                        resp_json(process_request(&format!("join {}", xn), &dbs, &mut c))
                    })?;
                    if let Some(r) = r {
                        sim.finish_task(tid, r);
                    } else {
                        sim.emit(json!({"ev":"suspended","task":tid}));
                    }
                    sim.settle_links()?;
                    sim.emit_state(&format!("join:{}>{}", x, y));
                }
            }
        }
    }
    let mut steps = 0;
    let run_until_quiet = |sim: &mut Sim, rng: &mut Rng, policy: &str, steps: &mut usize, next_client: &mut usize, nops: usize, case: &J, interleave: bool| -> Result<bool, String> {
        loop {
            if *steps >= budget {
                return Ok(false);
            }
            // a runaway exchange whose lines keep growing is cut like an exhausted step budget (not quiet)
            let big = sim.links.iter().any(|l| l.req.iter().chain(l.rsp.iter()).any(|x| x.len() > 100_000))
                || sim.nodes.iter().any(|n| n.repl_q.iter().any(|x| x.len() > 100_000));
            if big {
                sim.emit(json!({"ev":"runaway","limit":100000}));
                return Ok(false);
            }
            let nc = if *next_client < nops { Some(*next_client) } else { None };
            let en = sim.enabled(nc, interleave);
            // a TLC-generated schedule names steps by node / link end points
            let mut from_schedule: Option<String> = None;
            while !en.is_empty() && from_schedule.is_none() && sim.sched_pos < sim.schedule.len() {
                let want = sim.schedule[sim.sched_pos].clone();
                if want.starts_with("client:") && !en.contains(&want) {
                    // the model issues the next command only at quiescence: the simulator still has
                    // something to deliver that the model did not expect
                    sim.drift += 1;
                    break;
                }
                if want.starts_with("tick:") {
                    // the model lets a timer fire only when nothing can be delivered
                    sim.drift += 1;
                    sim.sched_pos += 1;
                    continue;
                }
                sim.sched_pos += 1;
                let resolved = sim.resolve(&want, &en);
                match resolved {
                    Some(s) => from_schedule = Some(s),
                    None => sim.drift += 1,
                }
            }
            let pick = if let Some(s) = from_schedule {
                s
            } else if !en.is_empty() {
                if policy == "random" { en[(rng.next() % en.len() as u64) as usize].clone() } else { en[0].clone() }
            } else {
                // nothing can be delivered: timers may fire
                let sus = sim.suspended();
                if sus.is_empty() {
                    return Ok(true);
                }
                let mut from_sched: Option<String> = None;
                if sim.sched_pos < sim.schedule.len() && sim.schedule[sim.sched_pos].starts_with("tick:") {
                    let want = sim.schedule[sim.sched_pos].clone();
                    sim.sched_pos += 1;
                    from_sched = sim.resolve(&want, &vec![]);
                    if from_sched.is_none() {
                        sim.drift += 1;
                    }
                }
                match from_sched {
                    Some(s) => s,
                    None => {
                        let t = if policy == "random" { sus[(rng.next() % sus.len() as u64) as usize] } else { sus[0] };
                        format!("tick:{}", t)
                    }
                }
            };
            if pick.starts_with("client:") {
                *next_client += 1;
            }
            let label = sim.label(&pick);
            sim.step(&pick, case)?;
            sim.emit_state(&label);
            *steps += 1;
        }
    };
    let ops = case["ops"].as_array().unwrap_or(&empty);
    let policy = case["policy"].as_str().unwrap_or("fifo").to_string();
    let form_policy = case["formation_policy"].as_str().unwrap_or("fifo").to_string();
    let mut next_client = ops.len(); // no client command during formation
    sim.schedule = case["form_schedule"].as_array().unwrap_or(&empty).iter().map(|s| s.as_str().unwrap_or("").to_string()).collect();
    sim.sched_pos = 0;
    let mut quiet = run_until_quiet(&mut sim, &mut rng, &form_policy, &mut steps, &mut next_client, ops.len(), case, false)?;
    if form == "join" && quiet {
        // start_inital_election: one second after start-up a node that is still eligible runs an election
        for name in names.iter() {
            let i = sim.idx(name).unwrap();
            if sim.nodes[i].node.dbs.is_eligible() {
                let dbs = sim.nodes[i].node.dbs.clone();
                let dir = sim.nodes[i].node.dir.clone();
                let tid = sim.new_task(TaskKind::Disconnect(name.clone(), "initial-election".to_string()));
                if sim.sched_pos < sim.schedule.len() && sim.schedule[sim.sched_pos] == format!("init:{}", name) {
                    sim.sched_pos += 1;
                }
                sim.emit(json!({"ev":"initial_election","node":name}));
                let r = run_task(tid, dir, move || {
                    nundb::election_ops::start_election(&dbs);
                    json!({"cls":"ok"})
                })?;
                if let Some(r) = r {
                    sim.finish_task(tid, r);
                } else {
                    sim.emit(json!({"ev":"suspended","task":tid}));
                }
                sim.emit_state(&format!("init:{}", name));
                let mut nc = ops.len();
                quiet = run_until_quiet(&mut sim, &mut rng, &form_policy, &mut steps, &mut nc, ops.len(), case, false)?;
            }
        }
    }
    let st = sim.snapshot_state();
    let sent0 = sim.sent;
    let (fdrift, fused) = (sim.drift, sim.sched_pos);
    sim.schedule = vec![];
    sim.emit(json!({"ev":"formed","quiet":quiet,"state":st,"steps":steps,"drift":fdrift,"schedule_used":fused}));
    // ---- the explored part
    next_client = 0;
    let schedule: Vec<String> = case["schedule"].as_array().unwrap_or(&empty).iter().map(|s| s.as_str().unwrap_or("").to_string()).collect();
    let schedule_from = case["schedule_from"].as_u64().unwrap_or(0) as usize;
    if schedule_from == 0 {
        sim.schedule = schedule.clone();
    }
    sim.sched_pos = 0;
    let interleave = case["interleave"].as_bool().unwrap_or(true);
    let mut all_quiet = true;
    let seq_prefix = if interleave { case["sequential_prefix"].as_u64().unwrap_or(0) as usize } else { ops.len() };
    {
        while next_client < ops.len().min(seq_prefix) {
            let i = next_client;
            next_client += 1;
            if i == schedule_from && schedule_from > 0 {
                sim.schedule = schedule.clone();
                sim.sched_pos = 0;
            }
            let before = sim.sent;
            if sim.sched_pos < sim.schedule.len() && sim.schedule[sim.sched_pos].starts_with("client:") {
                sim.sched_pos += 1;
            }
            sim.step(&format!("client:{}", i), case)?;
            sim.emit_state(&format!("client:{}", i));
            steps += 1;
            let mut nc = ops.len();
            let mut q = run_until_quiet(&mut sim, &mut rng, &policy, &mut steps, &mut nc, ops.len(), case, false)?;
            // start_inital_election of a restarted node: one second after its start a node that is
            // still eligible runs an election
            if let Some(k) = ops[i].get("restart").and_then(|k| k.as_str()) {
                if let Some(ki) = sim.idx(k) {
                    if q && sim.nodes[ki].alive && sim.nodes[ki].node.dbs.is_eligible() {
                        let dbs = sim.nodes[ki].node.dbs.clone();
                        let dir = sim.nodes[ki].node.dir.clone();
                        let tid = sim.new_task(TaskKind::Disconnect(k.to_string(), "initial-election".to_string()));
                        if sim.sched_pos < sim.schedule.len() && sim.schedule[sim.sched_pos] == format!("init:{}", k) {
                            sim.sched_pos += 1;
                        }
                        sim.emit(json!({"ev":"initial_election","node":k}));
                        let r = run_task(tid, dir, move || {
                            nundb::election_ops::start_election(&dbs);
                            json!({"cls":"ok"})
                        })?;
                        if let Some(r) = r {
                            sim.finish_task(tid, r);
                        } else {
                            sim.emit(json!({"ev":"suspended","task":tid}));
                        }
                        sim.emit_state(&format!("init:{}", k));
                        let mut nc2 = ops.len();
                        q = run_until_quiet(&mut sim, &mut rng, &policy, &mut steps, &mut nc2, ops.len(), case, false)?;
                    }
                }
            }
            all_quiet = all_quiet && q;
            let st = sim.snapshot_state();
            let sent = sim.sent - before;
            sim.emit(json!({"ev":"quiesce","after":i,"quiet":q,"messages":sent,"state":st}));
            if !q {
                break;
            }
        }
    }
    if interleave && all_quiet {
        let q = run_until_quiet(&mut sim, &mut rng, &policy, &mut steps, &mut next_client, ops.len(), case, true)?;
        all_quiet = q;
    }
    let st = sim.snapshot_state();
    let total = sim.sent - sent0;
    let (drift, used) = (sim.drift, sim.sched_pos);
    sim.emit(json!({"ev":"end","quiet":all_quiet,"messages":total,"steps":steps,"state":st,"drift":drift,"schedule_used":used}));
    for ev in sim.out.iter() {
        writeln!(out, "{}", ev).map_err(|e| e.to_string())?;
    }
    // release every hooked thread
    for l in sim.links.iter() {
        let (m, cv) = &*l.release;
        *m.lock().unwrap() = true;
        cv.notify_all();
    }
    let _ = std::fs::remove_dir_all(&base);
    Ok(())
}

/// nunverif cluster <cases.ndjson> <trace.ndjson> <workdir>
pub fn main(args: &[String]) {
    let cases = std::fs::File::open(&args[0]).expect("cases file");
    let mut out = BufWriter::new(std::fs::File::create(&args[1]).expect("trace file"));
    let workdir = &args[2];
    std::fs::create_dir_all(workdir).unwrap();
    install_virtual_clock();
    silence_panics();
    nundb::verif::set_yield_hook(Some(Arc::new(|site: &str| on_yield(site))));
    nundb::verif::set_link_hook(Some(Arc::new(|ls: LinkStart| link_hook(ls))));
    nundb::verif::set_tag_hook(Some(Arc::new(|name: &str, value: &str| {
        BATON.m.lock().unwrap().tags.push((name.to_string(), value.to_string()));
    })));
    for (n, line) in std::io::BufReader::new(cases).lines().enumerate() {
        let line = line.unwrap();
        if line.trim().is_empty() {
            continue;
        }
        let case: J = serde_json::from_str(&line).expect("case json");
        if let Err(e) = run_case(&case, workdir, &mut out, n) {
            let id = case["id"].as_str().unwrap_or("?");
            writeln!(out, "{}", json!({"ev":"tool_error","run":id,"msg":e})).unwrap();
        }
    }
    out.flush().unwrap();
    std::process::exit(0);
}
