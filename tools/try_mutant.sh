#!/bin/sh
# usage: tools/try_mutant.sh <patch-file> <PROP> [<PROP>...]   applies to /repo, runs quick checks, reverts
P="$1"; shift
git -C /repo apply "$P" || { echo "patch does not apply"; exit 2; }
for prop in "$@"; do
  ./check "$prop" --tier quick > "/tmp/mut_$prop.out" 2>/tmp/mut_$prop.err; rc=$?
  echo "$prop rc=$rc $(grep -c VIOLATION /tmp/mut_$prop.out) violations; $(grep -E 'TOOL-ERROR' /tmp/mut_$prop.err | head -1 | cut -c1-300)"
done
git -C /repo checkout -- . 
