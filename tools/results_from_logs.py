#!/usr/bin/env python3
"""Merges `== <seed>` / `<PROP> rc=.. N violations` chain logs (tools/try_mutant.sh output) into seeded/RESULTS.md.
usage: tools/results_from_logs.py log [log ...]   (later logs win)"""
import os, re, sys
os.chdir("/verif")
rows = {}
if os.path.exists("seeded/RESULTS.md"):
    for line in open("seeded/RESULTS.md"):
        m = re.match(r"\| (C\d\d(?:_\d)?) \| (.*?) \| (\d+|-) \|", line)
        if m:
            rows[m.group(1)] = (m.group(2), m.group(3))
for lg in sys.argv[1:]:
    cur = None
    for line in open(lg):
        line = line.strip()
        if line.startswith("== "):
            cur = line[3:].strip()
            rows.pop(cur, None) if re.match(r"C\d\d", cur) else None
            got = []
        elif cur and re.match(r"C\d\d rc=", line) and re.match(r"C\d\d", cur):
            got.append(line.split(";")[0])
            rows[cur] = ("; ".join(got), "-")
seeds = sorted(d for d in os.listdir("seeded") if os.path.isdir("seeded/" + d) and d.startswith("C"))
with open("seeded/RESULTS.md", "w") as f:
    f.write("| seed | quick checks run against it (rc=1: violation reported) | seconds |\n|---|---|---|\n")
    for s in seeds:
        r = rows.get(s, ("(not re-run)", "-"))
        f.write("| %s | %s | %s |\n" % (s, r[0], r[1]))
print(len(seeds), "seeds;", sum(1 for s in seeds if s not in rows), "without a result")
