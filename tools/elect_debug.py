#!/usr/bin/env python3
"""usage: tools/elect_debug.py <workdir> <run>   re-validates one run of a NunElect conformance pass with diagnostics"""
import json, os, subprocess, sys
sys.path.insert(0, '/verif/pylib')
import elect
wd, run = sys.argv[1], sys.argv[2]
nd = os.path.join(wd, "norm-elect" if os.path.isdir(os.path.join(wd, "norm-elect")) else "norm")
for f in sorted(os.listdir(nd)):
    lines = open(os.path.join(nd, f)).readlines()
    mine, on = [], False
    for ln in lines:
        e = json.loads(ln)
        if e["ev"] == "reset":
            on = e["run"] == run
        if on:
            mine.append(ln)
    if mine:
        break
else:
    sys.exit("run not found")
cases = {}
for cf in os.listdir(wd):
    if cf.startswith("cases-"):
        for ln in open(os.path.join(wd, cf)):
            c = json.loads(ln)
            cases[c["id"]] = c
cfg = elect.config_of(cases[run])
cfg["devs"] = ["Dev_ElectionStaleView", "Dev_ElectionNoPrimary", "Dev_ElectionWrongPrimary"]
open("/tmp/ed_trace.ndjson", "w").writelines(mine)
json.dump(cfg, open("/tmp/ed_cfg.json", "w"))
env = dict(os.environ, TRACE="/tmp/ed_trace.ndjson", CFG="/tmp/ed_cfg.json", DEBUG="1",
           JAVA_TOOL_OPTIONS="-Xss1g -Xmx3g -Dtlc2.tool.queue.IStateQueue=StateDeque")
p = subprocess.run(["tlc", "-workers", "1", "-metadir", "/tmp/ed_meta", "-cleanup", "-noGenerateSpecTE", "-config", "Trace_Elect.cfg",
                    "Trace_Elect.tla"], cwd="/verif/spec", env=env, stdout=subprocess.PIPE, stderr=subprocess.STDOUT)
out = p.stdout.decode(errors="replace")
for ln in out.splitlines():
    if ln.startswith("<<") or "Error" in ln or "error" in ln:
        print(ln[:6000])
rej = [ln for ln in out.splitlines() if "REJECTED" in ln]
if rej:
    k = int(rej[0].split(",")[1])
    print("--- recorded event", k)
    e = json.loads(mine[k - 1])
    print(json.dumps(e, indent=None)[:6000])
    if k >= 2:
        print("--- previous event"); print(mine[k - 2][:3000])
