#!/usr/bin/env python3
"""Applies every seeded change in turn, runs the checks recorded as detecting it, reverts; writes seeded/RESULTS.md.
usage: tools/run_seeds.py [seed ...]"""
import json, os, subprocess, sys, time
os.chdir("/verif")
seeds = sys.argv[1:] or sorted(d for d in os.listdir("seeded") if os.path.isdir("seeded/" + d) and d.startswith("C"))
rows = []
for sid in seeds:
    meta = json.load(open("seeded/%s/meta.json" % sid))
    checks = meta.get("checks_run_against_it", {}).get("detected_by") or [sid.split("_")[0]]
    t0 = time.time()
    p = subprocess.run(["tools/try_mutant.sh", "/verif/seeded/%s/patch.diff" % sid] + checks, stdout=subprocess.PIPE,
                       stderr=subprocess.STDOUT)
    out = p.stdout.decode()
    res = []
    for c in checks:
        line = [l for l in out.splitlines() if l.startswith(c + " rc=")]
        res.append(line[0].split(";")[0] if line else c + " ?")
    rows.append((sid, "; ".join(res), int(time.time() - t0)))
    print(rows[-1], flush=True)
subprocess.run(["git", "-C", "/repo", "checkout", "--", "."])
subprocess.run(["./setup.sh"], stdout=subprocess.DEVNULL, stderr=subprocess.DEVNULL)
if not sys.argv[1:]:
    with open("seeded/RESULTS.md", "w") as f:
        f.write("| seed | quick checks run against it (rc=1: violation reported) | seconds |\n|---|---|---|\n")
        for r in rows:
            f.write("| %s | %s | %d |\n" % r)
