#!/usr/bin/env python3
"""tools/crash_debug.py <norm.ndjson> [dev ...]: validates a normalized C11 trace with the named deviations enabled
and prints the FOLLOW lines (images / images following NunDiskBytes) and the first rejection."""
import json, os, re, sys
sys.path.insert(0, os.path.join(os.path.dirname(os.path.abspath(__file__)), "..", "pylib"))
import tlc
path = os.path.abspath(sys.argv[1]); devs = sys.argv[2:]
wd = os.path.dirname(path)
cfgp = os.path.join(wd, "dbg-cfg.json")
json.dump({"checks": [], "devs": devs}, open(cfgp, "w"))
rc, out, secs = tlc.run_tlc("Trace_Crash.tla", "Trace_Crash.cfg", env={"TRACE": path, "CFG": cfgp, "TABLES": "/dev/null"},
                            java_opts="-Xss1g -Dtlc2.tool.queue.IStateQueue=StateDeque", heap="4g", timeout=1200)
for line in out.splitlines():
    if line.startswith('<<"') or "rror" in line:
        print(line[:400])
print("secs", round(secs, 1))
