#!/usr/bin/env python3
"""usage: finalize_seed2.py <seed dir name> <worktree name> <detected_by comma list> [note]"""
import json, os, subprocess, sys
sid, wt, detected = sys.argv[1], sys.argv[2], sys.argv[3].split(",")
note = sys.argv[4] if len(sys.argv) > 4 else ""
d = "/verif/seeded/%s" % sid
meta = json.load(open(d + "/meta.json"))
conf = open(d + "/confirm.txt").read() if os.path.exists(d + "/confirm.txt") else ""
meta.update({"breaks_property": sid.split("_")[0],
             "confirmed_here": {"worktree": "/tmp/wt/%s (git worktree of /repo HEAD at the time, removed afterwards)" % wt,
                                "commands": ["cargo test --offline --lib (with the change)",
                                             "cargo test --offline --test seed_demo (with the change: fails)",
                                             "git apply -R patch; cargo test --offline --test seed_demo (passes)"],
                                "output": conf, "note": note},
             "checks_run_against_it": {"command": "tools/try_mutant.sh /verif/seeded/%s/patch.diff %s" % (sid, " ".join(detected)),
                                       "detected_by": detected}})
json.dump(meta, open(d + "/meta.json", "w"), indent=1)
if os.path.isdir("/tmp/wt/" + wt):
    subprocess.call(["git", "-C", "/repo", "worktree", "remove", "--force", "/tmp/wt/" + wt])
print("finalized", sid)
