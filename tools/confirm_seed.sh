#!/bin/sh
# usage: tools/confirm_seed.sh <ID> <worktree>   (worktree has the change applied and tests/seed_demo.rs)
# confirms: unit tests pass with the change (except the s3 ones), demo fails with it, demo passes without it
ID="$1"; WT="$2"; OUT="/verif/seeded/$ID/confirm.txt"
cd "$WT" || exit 2
{
echo "== with change: cargo test --offline --lib"
cargo test --offline --lib -j 8 -- --test-threads 1 2>&1 | grep -E "^test result|FAILED" | grep -v "s3" | head -5
echo "== with change: demo (expected to FAIL)"
cargo test --offline --test seed_demo -j 8 2>&1 | grep -E "^test result|panicked" | head -3
git diff -- src > /tmp/seed_$ID.diff
git apply -R /tmp/seed_$ID.diff
echo "== without change: demo (expected to PASS)"
cargo test --offline --test seed_demo -j 8 2>&1 | grep -E "^test result|panicked" | head -3
git apply /tmp/seed_$ID.diff
} > "$OUT" 2>&1
cat "$OUT"
