#!/usr/bin/env python3
"""usage: tools/dp_debug.py <workdir> <run>   re-validates one run of a data-path conformance pass with diagnostics"""
import json, os, subprocess, sys
wd, run = sys.argv[1], sys.argv[2]
nd = os.path.join(wd, "norm")
mine = []
for f in sorted(os.listdir(nd)):
    on = False
    for ln in open(os.path.join(nd, f)):
        e = json.loads(ln)
        if e["ev"] == "reset":
            on = e["run"] == run
        if on:
            mine.append(ln)
    if mine:
        lines = [json.loads(x) for x in open(os.path.join(nd, f))]
        break
nodes = sorted(json.loads(mine[1])["st"]["nodes"]) if len(mine) > 1 else ["n1", "n2"]
keys = set()
for ln in mine:
    e = json.loads(ln)
    if "st" in e:
        for v in e["st"]["nodes"].values():
            keys.update(v["data"].keys())
    if e.get("op", {}).get("k"):
        keys.add(e["op"]["k"])
open("/tmp/dd_trace.ndjson", "w").writelines(mine)
json.dump({"nodes": nodes, "keys": sorted(keys), "strategy": (sys.argv[3] if len(sys.argv) > 3 else "none")}, open("/tmp/dd_cfg.json", "w"))
env = dict(os.environ, TRACE="/tmp/dd_trace.ndjson", CFG="/tmp/dd_cfg.json", DEBUG="1",
           JAVA_TOOL_OPTIONS="-Xss1g -Xmx3g -Dtlc2.tool.queue.IStateQueue=StateDeque")
p = subprocess.run(["tlc", "-workers", "1", "-metadir", "/tmp/dd_meta", "-cleanup", "-noGenerateSpecTE", "-config",
                    "Trace_DataPath.cfg", "Trace_DataPath.tla"], cwd="/verif/spec", env=env, stdout=subprocess.PIPE,
                   stderr=subprocess.STDOUT)
out = p.stdout.decode(errors="replace")
show = False
for ln in out.splitlines():
    if ln.startswith("<<") or "Error" in ln:
        print(ln[:3000])
rej = [ln for ln in out.splitlines() if "REJECTED" in ln]
if rej:
    k = int(rej[0].split(",")[1])
    e = json.loads(mine[k - 1])
    print("--- recorded event", k, e.get("kind"), e.get("a"), e.get("b"))
    print(json.dumps(e["st"])[:3000])
    print("--- previous"); print(json.dumps(json.loads(mine[k - 2]).get("st"))[:2500])
