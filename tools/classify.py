#!/usr/bin/env python3
import json,glob,collections,sys
prop=sys.argv[1]
cnt=collections.Counter(); ex={}
for f in glob.glob('/verif/work/%s/violations/*.json'%prop):
    d=json.load(open(f)); e=d['rejected_event'] or {}
    key=(e.get('ev'),e.get('op'),e.get('cls'),e.get('msg','')[:40], e.get('k'))
    cnt[key]+=1; ex.setdefault(key,(f.split('/')[-1],e.get('line'),d['rejected_event_index']))
for k,v in cnt.most_common(40): print(v,k,ex[k])
