import json,glob,collections
cnt=collections.Counter(); ex={}
for f in glob.glob('/verif/work/C10/violations/*.json'):
    d=json.load(open(f)); e=d['rejected_event'] or {}
    key=(e.get('op'),e.get('cls'),e.get('msg','')[:70],e.get('poisoned'), tuple(e.get('abs',[])[:2]))
    cnt[key]+=1; ex.setdefault(key,(f.split('/')[-1],e.get('line','')[:60],e.get('c')))
for k,v in cnt.most_common(40): print(v,k,ex[k])
