#!/usr/bin/env python3
"""Vacuity report for the relational reference NunKV: runs TLC with -coverage 1 over the trace shards the last
quick runs left in work/<ID>/val and lists the expressions of NunKV.tla that no validation ever evaluated.
usage: tools/ref_coverage.py [max shards per property]"""
import glob, json, os, re, subprocess, sys
from concurrent.futures import ThreadPoolExecutor
os.chdir("/verif/spec")
maxs = int(sys.argv[1]) if len(sys.argv) > 1 else 4
props = [p for p in sorted(os.listdir("/verif/work")) if os.path.exists("/verif/work/%s/val/cfg.json" % p) and os.path.exists("/verif/pylib/props/%s.py" % p.lower())]
jobs = []
for p in props:
    src = open("/verif/pylib/props/%s.py" % p.lower()).read()
    if '"Trace_KV.tla"' not in src:
        continue
    tab = "/verif/work/%s/tables.json" % p
    for sh in sorted(glob.glob("/verif/work/%s/val/shard-*.ndjson" % p))[:maxs]:
        jobs.append((p, sh, tab if os.path.exists(tab) else "/dev/null"))
pat = re.compile(r"line (\d+), col (\d+) to line (\d+), col (\d+) of module NunKV: (\d+)")

def one(job):
    p, sh, tab = job
    env = dict(os.environ, TRACE=sh, CFG="/verif/work/%s/val/cfg.json" % p, TABLES=tab,
               JAVA_TOOL_OPTIONS="-Xss1g -Xmx3g -Dtlc2.tool.queue.IStateQueue=StateDeque")
    out = subprocess.run(["timeout", "900", "tlc", "-workers", "1", "-coverage", "1", "-metadir",
                          "/tmp/tlcmeta_cov_%s_%s" % (p, os.path.basename(sh)), "-cleanup", "-noGenerateSpecTE",
                          "-config", "Trace_KV.cfg", "Trace_KV.tla"], env=env, stdout=subprocess.PIPE,
                         stderr=subprocess.STDOUT).stdout.decode(errors="replace")
    cov = {}
    for m in pat.finditer(out):
        key = tuple(int(x) for x in m.groups()[:4])
        cov[key] = max(cov.get(key, 0), int(m.group(5)))
    return p, cov

total = {}
with ThreadPoolExecutor(max_workers=8) as ex:
    for p, cov in ex.map(one, jobs):
        for k, v in cov.items():
            total[k] = total.get(k, 0) + v
src = open("/verif/spec/NunKV.tla").read().splitlines()
never = sorted(k for k, v in total.items() if v == 0)
print("properties:", sorted({j[0] for j in jobs}), "shards:", len(jobs))
print("expressions of NunKV seen by the coverage report:", len(total), "never evaluated:", len(never))
shown = set()
for (l1, c1, l2, c2) in never:
    if l1 in shown:
        continue
    shown.add(l1)
    print("%4d: %s" % (l1, src[l1 - 1].strip()[:130]))
