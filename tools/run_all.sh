#!/bin/sh
# runs every registered quick check once; prints one line per property
cd "$(dirname "$0")/.."
./setup.sh >/dev/null 2>&1
for p in $(python3 -c "import json; print(' '.join(c['property_id'] for c in json.load(open('MANIFEST.json'))['checks']))"); do
  s=$(date +%s)
  ./check $p --tier quick --no-build > /tmp/runall_$p.out 2>/tmp/runall_$p.err; rc=$?
  echo "$p rc=$rc $(( $(date +%s)-s ))s $(grep -c KNOWN-FINDING /tmp/runall_$p.out) known; $(grep -c VIOLATION /tmp/runall_$p.out) viol; $(head -c 200 /tmp/runall_$p.err | tr '\n' ' ')"
done
