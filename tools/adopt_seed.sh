#!/bin/sh
# usage: tools/adopt_seed.sh <ID>   confirms the change left in /tmp/wt/<ID>, stores patch + demo under seeded/<ID>, removes the worktree
ID="$1"; WT="/tmp/wt/$ID"
mkdir -p "/verif/seeded/$ID"
/verif/tools/confirm_seed.sh "$ID" "$WT" > /dev/null 2>&1
(cd "$WT" && git diff -- src > "/verif/seeded/$ID/patch.diff"; cp tests/seed_demo.rs "/verif/seeded/$ID/seed_demo.rs")
cat "/verif/seeded/$ID/confirm.txt"
git -C /repo worktree remove --force "$WT"
