#!/bin/sh
# runs every registered thorough check once (sequentially); one line per property
cd "$(dirname "$0")/.."
./setup.sh >/dev/null 2>&1
for p in ${1:-$(python3 -c "import json; print(' '.join(c['property_id'] for c in json.load(open('MANIFEST.json'))['checks']))")}; do
  s=$(date +%s)
  timeout 5400 ./check $p --tier thorough --no-build > /tmp/thor_$p.out 2>/tmp/thor_$p.err; rc=$?
  echo "$p rc=$rc $(( $(date +%s)-s ))s $(grep -c KNOWN-FINDING /tmp/thor_$p.out) known; $(grep -c VIOLATION /tmp/thor_$p.out) viol; $(tail -c 300 /tmp/thor_$p.err | tr '\n' ' ')"
done
