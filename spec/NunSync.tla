------------------------------- MODULE NunSync -------------------------------
(***************************************************************************)
(* Catch-up of a (re)joining secondary racing with live replication, at    *)
(* the granularity of the cluster-state lock (C05: "writes accepted by the *)
(* primary during the synchronisation are not lost").                      *)
(*                                                                         *)
(* Three threads of the primary touch the connection to the joining node:  *)
(*   client handler   applies a write to the store and queues it for the   *)
(*                    replication loop (no cluster-state lock)             *)
(*   replication loop takes a queued write, appends it to the operation    *)
(*                    log, then -- under the cluster-state lock -- sends   *)
(*                    `rp id replicate ...' to every member with a sender  *)
(*                    (replicate_message_to_secoundary)                    *)
(*   supervisor       `replicate-since-to node t': under the cluster-state *)
(*                    lock reads the log since t, reads the CURRENT value  *)
(*                    of every key found there and puts one `replicate'    *)
(*                    line per key on the connection                       *)
(* Catch-up lines and plain client writes both carry version -1 (forced),  *)
(* so on the joining node the line delivered last wins.  The lock makes    *)
(* "read the values + queue the lines" atomic with respect to the loop's   *)
(* sends: whatever the loop sends afterwards is at least as new as what    *)
(* the catch-up carried.                                                   *)
(*                                                                         *)
(* One key; values are the write numbers 0 (what the node had when it      *)
(* left), 1.. (writes while it was away: logged before the join), and the  *)
(* live writes issued during the synchronisation.                          *)
(*                                                                         *)
(* Variant = "locked"   the pinned code                                    *)
(*         = "unlocked" the builder runs before the lock is taken (a lock  *)
(*                      scope "optimisation"): TLC finds the lost write    *)
(* Steps are named as the cluster simulator names them (lock yields on):   *)
(* sup / resume-sup, repl / resume-repl, client, deliver.                  *)
(***************************************************************************)
EXTENDS Integers, Sequences, FiniteSets, TLC

CONSTANTS Away,      \* writes logged while the node was away (0 = nothing to catch up)
          Live,      \* writes issued during the synchronisation
          Variant

VARIABLES store,     \* value the primary holds
          logged,    \* write numbers in the operation log
          replq,     \* writes queued for the replication loop
          link,      \* lines on the connection to the joining node: <<kind, value>>
          sec,       \* value on the joining node
          sup,       \* "queued" | "parked" | "built" | "done"
          built,     \* what the builder read (only "unlocked")
          repl,      \* 0 = idle, n = write n logged, about to send
          issued     \* live writes issued so far

vars == <<store, logged, replq, link, sec, sup, built, repl, issued>>

Init ==
  /\ store = Away
  /\ logged = 1..Away
  /\ replq = <<>>
  /\ link = <<>>
  /\ sec = 0
  /\ sup = "queued"
  /\ built = <<>>
  /\ repl = 0
  /\ issued = 0

(* the catch-up for `since' = the time the node left: one line if the log has a record of the key *)
CatchUp == IF logged # {} THEN << <<"catchup", store>> >> ELSE <<>>

ClientWrite ==
  /\ issued < Live
  /\ issued' = issued + 1
  /\ store' = Away + issued + 1
  /\ replq' = Append(replq, Away + issued + 1)
  /\ UNCHANGED <<logged, link, sec, sup, built, repl>>

(* replication loop: take + log (parks before the lock) *)
ReplLog ==
  /\ repl = 0 /\ replq # <<>>
  /\ repl' = Head(replq) /\ replq' = Tail(replq)
  /\ logged' = logged \cup {Head(replq)}
  /\ UNCHANGED <<store, link, sec, sup, built, issued>>

(* ... lock, send to the member, unlock *)
ReplSend ==
  /\ repl # 0
  /\ link' = Append(link, <<"rp", repl>>)
  /\ repl' = 0
  /\ UNCHANGED <<store, logged, replq, sec, sup, built, issued>>

(* supervisor: the command is taken (parks before the lock; "unlocked": after having built) *)
SupStart ==
  /\ sup = "queued"
  /\ IF Variant = "locked" THEN sup' = "parked" /\ UNCHANGED built
                            ELSE sup' = "built" /\ built' = CatchUp
  /\ UNCHANGED <<store, logged, replq, link, sec, repl, issued>>

SupSync ==
  /\ \/ sup = "parked" /\ link' = link \o CatchUp
     \/ sup = "built" /\ link' = link \o built
  /\ sup' = "done"
  /\ UNCHANGED <<store, logged, replq, sec, built, repl, issued>>

Deliver ==
  /\ link # <<>>
  /\ sec' = Head(link)[2]
  /\ link' = Tail(link)
  /\ UNCHANGED <<store, logged, replq, sup, built, repl, issued>>

Next == ClientWrite \/ ReplLog \/ ReplSend \/ SupStart \/ SupSync \/ Deliver
Spec == Init /\ [][Next]_vars /\ WF_vars(Next)

Quiet == issued = Live /\ replq = <<>> /\ repl = 0 /\ sup = "done" /\ link = <<>>

(* C05 *)
NoLostWrite == Quiet => sec = store
(* the joining node never goes back behind a live write it already applied and stays there *)
EventuallyEqual == <>[](sec = store)
=============================================================================
