------------------------------ MODULE NunCluster ------------------------------
(***************************************************************************)
(* Implementation-shaped model of the replication data path of a NunDB     *)
(* cluster with established roles (one primary P, secondaries), at the     *)
(* granularity of the cluster simulator's steps:                           *)
(*   Client(i)      the i-th client command runs at its node                *)
(*                  (process_request: local apply by role, forward to the   *)
(*                  primary, re-emission to the node's replication queue)   *)
(*   Repl(n)        n's replication loop takes one queued entry and, if n   *)
(*                  is the primary, registers it as pending and sends a     *)
(*                  copy `rp id msg' to every secondary                      *)
(*   Deliver(x,y)   the head request line of link x->y is processed by y    *)
(*                  (`rp': ack first, then the inner command; a forward is  *)
(*                  applied by the primary and re-emitted)                  *)
(*   Reply(x,y)     the head reply line of link x->y is processed by x      *)
(*                  (`ack' counted; `ok' lines are not modelled)            *)
(* Each link is FIFO in both directions.  One database, keys with value and *)
(* version, the version rule of set_value, tombstones, increment.           *)
(*                                                                         *)
(* TLC checks at quiescence: Converged (every node equals the primary),     *)
(* NothingPending, and the message budget of C14 -- with the recorded       *)
(* deviations of the code as ghost flags -- and prints complete schedules   *)
(* that the simulator replays on the real nodes.                            *)
(***************************************************************************)
EXTENDS Integers, Sequences, FiniteSets, TLC, Json

CONSTANTS Nodes,     \* e.g. {"n1","n2","n3"}
          P,         \* the primary
          Ops,       \* sequence of client commands [node, op, k, v, ver, n]
          InitStore, \* [key -> <<val, ver>>] present on every node at the start
          Strategy   \* conflict strategy of the database: "none" | "newer"

Secs == Nodes \ {P}
Absent == <<"-", -1, FALSE>>     \* <<value, version, live>>

VARIABLES store,    \* [Nodes -> [Keys -> <<val, ver, live>>]]
          replq,    \* [Nodes -> Seq(message)]
          req,      \* [Nodes \X Nodes -> Seq(line)]      x->y request lines
          rsp,      \* [Nodes \X Nodes -> Seq(line)]      replies travelling y->x on link x->y
          pend,     \* set of <<id, node>> awaiting an ack (on the primary)
          next,     \* index of the next client command
          clock,    \* operation id source
          sent,     \* message counters of the current operation [forward, copy, ack]
          ghost,    \* deviations of the code that this behaviour exercised
          sched,    \* steps taken (history)
          disk,     \* [Nodes -> SUBSET Keys]: keys an incremental snapshot of the node has written (live or removed)
          snapq     \* nodes with a snapshot of the database queued for their declutter timer

vars == <<store, replq, req, rsp, pend, next, clock, sent, ghost, sched, disk, snapq>>

Keys == DOMAIN InitStore \cup {Ops[i].k : i \in DOMAIN Ops}
Links == {<<x, y>> \in Nodes \X Nodes : x # y /\ (x = P \/ y = P)}

Init ==
  /\ store = [n \in Nodes |-> [k \in Keys |-> IF k \in DOMAIN InitStore
                                              THEN <<InitStore[k][1], InitStore[k][2], TRUE>> ELSE Absent]]
  /\ replq = [n \in Nodes |-> <<>>]
  /\ req = [l \in Links |-> <<>>]
  /\ rsp = [l \in Links |-> <<>>]
  /\ pend = {}
  /\ next = 1
  /\ clock = 1
  /\ sent = [forward |-> 0, copy |-> 0, ack |-> 0]
  /\ ghost = {}
  /\ sched = <<>>
  /\ disk = [n \in Nodes |-> {}]
  /\ snapq = {}

(* ---------------- the version rule of Database::set_value ---------------- *)
Exists(e) == e[2] # -1
NewVer(e, ver) == IF ~Exists(e) THEN ver + 1 ELSE IF ver = -1 THEN e[2] + 1 ELSE ver + 1
Refuses(e, ver) == Exists(e) /\ NewVer(e, ver) <= e[2]

ApplySet(n, k, v, ver) ==      \* returns <<new store of n, accepted?, answer: "ok" | "verr" | "error">>
  LET e == store[n][k] IN
  IF Refuses(e, ver)
  THEN IF Strategy = "newer"
       \* try_resolve_conflict_response: the incoming change carries the younger operation id (ids come
       \* from one increasing clock and a change gets its id when it is built), so it wins: it is stored
       \* with the stored version advanced by one and the request counts as processed
       THEN <<[store[n] EXCEPT ![k] = <<v, e[2] + 1, TRUE>>], TRUE, "ok">>
       ELSE <<store[n], FALSE, "verr">>
  ELSE <<[store[n] EXCEPT ![k] = <<v, NewVer(e, ver), TRUE>>], TRUE, "ok">>

(* remove_value: an entry that never reached the disk (state New) is dropped; one that a snapshot has written *)
(* (live, or already a tombstone) becomes / stays a tombstone with its version advanced                       *)
ApplyRemove(n, k) ==
  LET e == store[n][k] IN
  IF k \in disk[n] /\ Exists(e) THEN [store[n] EXCEPT ![k] = <<"<Empty>", e[2] + 1, FALSE>>]
  ELSE [store[n] EXCEPT ![k] = Absent]

IntRange == -150..150
IsInt(v) == \E i \in IntRange : ToString(i) = v
ToInt(v) == CHOOSE i \in IntRange : ToString(i) = v
ApplyInc(n, k, d) ==            \* returns <<store, accepted?, answer>>
  LET e == store[n][k] IN
  IF e[3] /\ ~IsInt(e[1]) THEN <<store[n], FALSE, "error">>          \* "Key is not numeric"
  ELSE LET old == IF e[3] THEN ToInt(e[1]) ELSE 0 IN
       <<[store[n] EXCEPT ![k] = <<ToString(old + d), (IF Exists(e) THEN e[2] + 1 ELSE 1), TRUE>>], TRUE, "ok">>

Msg(kind, k, v, ver, d) == [kind |-> kind, k |-> k, v |-> v, ver |-> ver, d |-> d]
Enq(n, m) == [replq EXCEPT ![n] = Append(@, m @@ [id |-> clock])]

Step(s) == sched' = Append(sched, s)

(* ---------------- client commands ---------------- *)
ClientOp(o) ==
     LET n == o.node IN
     /\ clock' = clock + 1
     /\ sent' = [forward |-> 0, copy |-> 0, ack |-> 0]
     /\ UNCHANGED <<rsp, pend>>
     \* `snapshot false <db>' queues the database for the node's declutter timer; the timer (`tick') writes every
     \* entry the node holds -- live ones and tombstones -- and leaves the entries in memory
     /\ snapq' = IF o.op = "snapshot" THEN snapq \cup {n} ELSE IF o.op = "tick" THEN snapq \ {n} ELSE snapq
     /\ disk' = IF o.op = "tick" /\ n \in snapq
                THEN [disk EXCEPT ![n] = @ \cup {k \in Keys : Exists(store[n][k])}] ELSE disk
     /\ CASE o.op = "set" ->
               LET r == ApplySet(n, o.k, o.v, o.ver) IN
               /\ store' = [store EXCEPT ![n] = r[1]]
               \* a non-primary forwards the write to the primary whatever the local outcome
               /\ req' = IF n # P THEN [req EXCEPT ![<<n, P>>] = Append(@, Msg("replicate", o.k, o.v, o.ver, 0))] ELSE req
               /\ replq' = IF r[2] THEN Enq(n, Msg("replicate", o.k, o.v, o.ver, 0)) ELSE replq
               /\ ghost' = IF n # P THEN ghost \cup {"SecondaryWriteAppliedLocally"} ELSE ghost
          [] o.op = "remove" ->
               /\ store' = [store EXCEPT ![n] = ApplyRemove(n, o.k)]
               /\ replq' = Enq(n, Msg("replicate-remove", o.k, "", 0, 0))
               \* (repaired: before, a remove issued on a secondary was never forwarded)
               /\ req' = IF n # P THEN [req EXCEPT ![<<n, P>>] = Append(@, Msg("replicate-remove", o.k, "", 0, 0))] ELSE req
               \* a secondary applies its own remove at once and again when the primary's copy comes back: the
               \* tombstone of a key that is on its disk ends one version ahead (same mechanism as for writes)
               /\ ghost' = IF n # P /\ o.k \in disk[n] /\ Exists(store[n][o.k])
                           THEN ghost \cup {"SecondaryWriteAppliedLocally"} ELSE ghost
          \* `snapshot false <db>': queued for the snapshot timer locally, re-emitted for the replicas
          [] o.op = "snapshot" ->
               /\ replq' = Enq(n, Msg("replicate-snapshot", "", "", 0, 0))
               /\ UNCHANGED <<store, req, ghost>>
          \* reads, subscriptions, database selection: nothing is stored (but a node-local counter) or sent
          [] o.op = "noop" -> UNCHANGED <<store, replq, req, ghost>>
          [] o.op = "tick" -> UNCHANGED <<store, replq, req, ghost>>
          [] o.op = "increment" ->
               IF n = P
               THEN LET r == ApplyInc(n, o.k, o.n) IN
                    /\ store' = [store EXCEPT ![n] = r[1]]
                    /\ replq' = IF r[2] THEN Enq(n, Msg("replicate-increment", o.k, "", 0, o.n)) ELSE replq
                    /\ UNCHANGED <<req, ghost>>
               ELSE \* not applied locally: forwarded, and re-emitted to the local queue
                    /\ req' = [req EXCEPT ![<<n, P>>] = Append(@, Msg("replicate-increment", o.k, "", 0, o.n))]
                    /\ replq' = Enq(n, Msg("replicate-increment", o.k, "", 0, o.n))
                    /\ UNCHANGED <<store, ghost>>

Client ==
  /\ next <= Len(Ops)
  /\ Step("client:" \o ToString(next - 1))
  /\ next' = next + 1
  /\ ClientOp(Ops[next])

(* ---------------- replication loop ---------------- *)
Repl(n) ==
  /\ replq[n] # <<>>
  /\ Step("repl:" \o n)
  /\ LET m == Head(replq[n]) IN
     /\ replq' = [replq EXCEPT ![n] = Tail(@)]
     /\ IF n = P
        THEN /\ req' = [l \in Links |-> IF l[1] = P THEN Append(req[l], m @@ [rp |-> TRUE]) ELSE req[l]]
             /\ pend' = pend \cup {<<m.id, s>> : s \in Secs}
             /\ sent' = [sent EXCEPT !.copy = @ + Cardinality(Secs)]
        ELSE UNCHANGED <<req, pend, sent>>     \* a secondary's loop sends nothing
  /\ UNCHANGED <<store, rsp, next, clock, ghost, disk, snapq>>

(* ---------------- a request line reaches the peer ---------------- *)
ApplyMsg(y, m) ==   \* returns <<store of y, accepted?>>
  CASE m.kind = "replicate" -> ApplySet(y, m.k, m.v, m.ver)
    [] m.kind = "replicate-remove" -> <<ApplyRemove(y, m.k), TRUE, "ok">>
    [] m.kind = "replicate-increment" -> ApplyInc(y, m.k, m.d)
    [] m.kind = "replicate-snapshot" -> <<store[y], TRUE, "ok">>

Deliver(x, y) ==
  /\ req[<<x, y>>] # <<>>
  /\ Step("deliver:" \o x \o ">" \o y)
  /\ LET m == Head(req[<<x, y>>])
         isrp == "rp" \in DOMAIN m
         r == ApplyMsg(y, m)
     IN /\ req' = [req EXCEPT ![<<x, y>>] = Tail(@)]
        /\ store' = [store EXCEPT ![y] = r[1]]
        \* the session answers: ack (for rp), then ok / error -- the `ok' line is left out: the dialling
        \* side skips it without any effect (the simulator consumes it without a step of its own)
        \* an `error ...' answer travels back as a line the dialling side cannot parse (no effect)
        /\ rsp' = [rsp EXCEPT ![<<x, y>>] = @ \o (IF isrp THEN <<[ack |-> m.id, from |-> y]>> ELSE <<>>)
                                               \o (IF r[3] = "error" THEN <<[ack |-> -1, from |-> y]>> ELSE <<>>)]
        \* a successfully processed request is re-emitted to the receiver's replication queue
        /\ replq' = IF r[2] THEN Enq(y, [kind |-> m.kind, k |-> m.k, v |-> m.v, ver |-> m.ver, d |-> m.d]) ELSE replq
        /\ clock' = clock + 1
        /\ sent' = IF isrp THEN sent ELSE [sent EXCEPT !.forward = @ + 1]
        /\ snapq' = IF m.kind = "replicate-snapshot" THEN snapq \cup {y} ELSE snapq
  /\ UNCHANGED <<pend, next, ghost, disk>>

(* ---------------- a reply line reaches the dialling node ---------------- *)
Reply(x, y) ==
  /\ rsp[<<x, y>>] # <<>>
  /\ Step("reply:" \o x \o ">" \o y)
  /\ LET a == Head(rsp[<<x, y>>]) IN
     /\ rsp' = [rsp EXCEPT ![<<x, y>>] = Tail(@)]
     /\ IF a.ack > 0
        THEN pend' = pend \ {<<a.ack, a.from>>} /\ sent' = [sent EXCEPT !.ack = @ + 1]
        ELSE UNCHANGED <<pend, sent>>
  /\ UNCHANGED <<store, replq, req, next, clock, ghost, disk, snapq>>

Quiet == /\ \A n \in Nodes : replq[n] = <<>>
         /\ \A l \in Links : req[l] = <<>> /\ rsp[l] = <<>>

(* commands are issued one after the other, each after the cluster went quiet *)
Next ==
  \/ Quiet /\ Client
  \/ \E n \in Nodes : Repl(n)
  \/ \E l \in Links : Deliver(l[1], l[2]) \/ Reply(l[1], l[2])

Spec == Init /\ [][Next]_vars /\ WF_vars(Next)

(* ---------------- properties ---------------- *)
Converged == \A n \in Nodes : \A k \in Keys :
               /\ store[n][k][3] = store[P][k][3]
               /\ store[n][k][3] => (store[n][k][1] = store[P][k][1] /\ store[n][k][2] = store[P][k][2])
(* "the same removed/live status and the same version": a removed key that the nodes still hold as a tombstone *)
(* carries the same version everywhere (the next versioned write is judged against it)                        *)
TombstonesAgree == \A n \in Nodes : \A k \in Keys :
               (Exists(store[n][k]) /\ Exists(store[P][k]) /\ ~store[P][k][3]) => store[n][k][2] = store[P][k][2]

(* C04, with the recorded deviations of the code *)
ConvergedAtQuiescence == Quiet => ((Converged /\ TombstonesAgree) \/ ghost # {})
ConvergedStrict == Quiet => Converged
(* C15 end to end *)
NothingPendingAtQuiescence == Quiet => pend = {}
(* C14 *)
Budget == /\ sent.forward <= 1
          /\ sent.copy <= Cardinality(Secs)
          /\ sent.ack <= sent.copy
(* C14: every behaviour goes quiet *)
EventuallyQuiet == <>[](Quiet /\ next > Len(Ops))

(* state view without the history: used when only the properties are checked *)
View == <<store, replq, req, rsp, pend, next, sent, ghost, disk, snapq>>

Done == Quiet /\ next > Len(Ops)
EmitSchedule == Done => PrintT(<<"CASE", ToJson(sched)>>)
=============================================================================
