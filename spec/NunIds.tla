-------------------------------- MODULE NunIds --------------------------------
(***************************************************************************)
(* C16, key identifiers.  The operation log refers to keys by identifier;   *)
(* the identifiers live in a key map in memory that reaches the disk only   *)
(* with a snapshot (or a clean shutdown); a one-byte flag file says whether *)
(* the key map on disk still explains the log.  Implementation-shaped model *)
(* of that protocol, one action per file-system step of                     *)
(*   generate_key_id / invalidate_oplog / try_write_op_log (replication     *)
(*   loop, first write of a new key),                                       *)
(*   snapshot_keys / write_keys_map_to_disk / mark_op_log_as_valid,         *)
(*   start-up (load_keys_map_from_disk, is_oplog_valid,                     *)
(*   clean_op_log_metadata_files, the loop's open of the flag file),        *)
(* with a kill possible between any two steps.                              *)
(*                                                                         *)
(* Invariant Decodes: after every start-up the log was discarded or every   *)
(* record decodes, through the identifier map the node loaded, to the key   *)
(* it was written for; identifiers in use are distinct.                     *)
(* With Fixed = FALSE the model is the code before repair 8f131d2           *)
(* (invalidate_oplog wrote the mark only if the flag in memory was true):   *)
(* TLC then finds the history  new key, kill, start (log discarded, flag    *)
(* file removed, flag in memory false), new key (no mark written), kill,    *)
(* start: log kept, record undecodable.                                     *)
(***************************************************************************)
EXTENDS Integers, Sequences, FiniteSets, TLC, Json

CONSTANTS Keys,      \* key names
          MaxLen,    \* bound on the number of steps
          Fixed      \* TRUE: the repaired invalidate_oplog

VARIABLES memKeys,   \* key map in memory: function key -> id (over the registered keys)
          diskKeys,  \* key map file
          memValid,  \* Databases.is_oplog_valid
          flag,      \* flag file: "none" (missing or empty: reads as valid), "0", "1"
          log,       \* operation log on disk: sequence of [id, key] (key = what the record was written for)
          up,        \* the process runs
          pc,        \* step of the replication loop inside the first write of a new key: <<>> or <<step, key>>
          spc,       \* step inside snapshot_keys: "idle" | "keys-written"
          hist

vars == <<memKeys, diskKeys, memValid, flag, log, up, pc, spc, hist>>

Ids(f) == {f[k] : k \in DOMAIN f}
Log(s) == hist' = Append(hist, s)

Init == /\ memKeys = <<>> /\ diskKeys = <<>> /\ memValid = TRUE /\ flag = "none" /\ log = <<>>
        /\ up = TRUE /\ pc = <<>> /\ spc = "idle" /\ hist = <<>>

(* ---- first write of a new key: register, invalidate, append ---- *)
Register(k) ==
  /\ up /\ pc = <<>> /\ spc = "idle" /\ k \notin DOMAIN memKeys
  /\ memKeys' = (k :> Cardinality(DOMAIN memKeys)) @@ memKeys          \* id = number of keys so far
  /\ pc' = <<"registered", k>>
  /\ Log("n")
  /\ UNCHANGED <<diskKeys, memValid, flag, log, up, spc>>

Invalidate ==
  /\ up /\ pc # <<>> /\ pc[1] = "registered"
  /\ memValid' = FALSE
  /\ flag' = IF Fixed \/ memValid THEN "0" ELSE flag
  /\ pc' = <<"invalidated", pc[2]>>
  /\ UNCHANGED <<memKeys, diskKeys, log, up, spc, hist>>

Append_ ==
  /\ up /\ pc # <<>> /\ pc[1] = "invalidated"
  /\ log' = Append(log, [id |-> memKeys[pc[2]], key |-> pc[2]])
  /\ pc' = <<>>
  /\ UNCHANGED <<memKeys, diskKeys, memValid, flag, up, spc, hist>>

(* a later write of a known key: only the record *)
Rewrite(k) ==
  /\ up /\ pc = <<>> /\ spc = "idle" /\ k \in DOMAIN memKeys
  /\ log' = Append(log, [id |-> memKeys[k], key |-> k])
  /\ Log("w")
  /\ UNCHANGED <<memKeys, diskKeys, memValid, flag, up, pc, spc>>

(* ---- snapshot_keys (snapshot timer, clean shutdown) ---- *)
SnapKeys ==
  /\ up /\ pc = <<>> /\ spc = "idle" /\ ~memValid
  /\ diskKeys' = memKeys
  /\ spc' = "keys-written"
  /\ Log("s")
  /\ UNCHANGED <<memKeys, memValid, flag, log, up, pc>>

MarkValid ==
  /\ up /\ spc = "keys-written"
  /\ memValid' = TRUE /\ flag' = "1" /\ spc' = "idle"
  /\ UNCHANGED <<memKeys, diskKeys, log, up, pc, hist>>

(* ---- kill at any instant, start-up ---- *)
Kill ==
  /\ up /\ up' = FALSE /\ pc' = <<>> /\ spc' = "idle"
  /\ Log("k")
  /\ UNCHANGED <<memKeys, diskKeys, memValid, flag, log>>

Start ==
  /\ ~up /\ up' = TRUE
  /\ memKeys' = diskKeys
  /\ LET valid == flag # "0" IN
     /\ memValid' = valid
     /\ log' = IF valid THEN log ELSE <<>>            \* clean_op_log_metadata_files
     /\ flag' = IF valid THEN flag ELSE "none"        \* file removed; the loop re-creates it empty
  /\ Log("r")
  /\ UNCHANGED <<diskKeys, pc, spc>>

Next ==
  /\ Len(hist) < MaxLen
  /\ \/ \E k \in Keys : Register(k) \/ Rewrite(k)
     \/ Invalidate \/ Append_ \/ SnapKeys \/ MarkValid \/ Kill \/ Start

Spec == Init /\ [][Next]_vars

(* ---------------- C16 ---------------- *)
Injective(f) == \A a, b \in DOMAIN f : a # b => f[a] # f[b]
DecodesRec(r) == \E k \in DOMAIN memKeys : memKeys[k] = r.id /\ k = r.key
(* whenever the node is up and outside a registration: the log in use is explained by the map in memory *)
Decodes == (up /\ pc = <<>>) => (Injective(memKeys) /\ \A i \in DOMAIN log : DecodesRec(log[i]))
View == <<memKeys, diskKeys, memValid, flag, log, up, pc, spc>>
=============================================================================
