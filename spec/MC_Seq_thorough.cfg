SPECIFICATION Spec
CONSTANTS
  Keys = {"a", "$$s"}
  MaxLen = 6
  Clients = {"c1", "a"}
  Secure = {"$$s"}
INVARIANT Refines
VIEW View
ACTION_CONSTRAINT Emit
CHECK_DEADLOCK FALSE
