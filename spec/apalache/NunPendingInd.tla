---------------------------- MODULE NunPendingInd ----------------------------
(***************************************************************************)
(* C15 for histories of any length: the pending-operation accounting of    *)
(* NunPending (same actions, without the history and its length bound) and  *)
(* an inductive invariant, discharged by Apalache:                          *)
(*   apalache-mc check --init=Init    --inv=IndInv --length=0               *)
(*   apalache-mc check --init=IndInit --inv=IndInv --length=1               *)
(* IndInv implies Exact (an operation has an entry iff some node it was     *)
(* sent to has not acknowledged), so Exact holds in every reachable state   *)
(* of the unbounded model: re-sends make the counters grow without bound,   *)
(* which is why TLC only covers histories up to a length.                   *)
(***************************************************************************)
EXTENDS Integers, FiniteSets

CONSTANTS
  \* @type: Set(Str);
  Ops,
  \* @type: Set(Str);
  Nodes

VARIABLES
  \* @type: Str -> Set(Str);
  sent,
  \* @type: Str -> Set(Str);
  acked,
  \* @type: Str -> Bool;
  has,        \* the operation has an entry in the pending table
  \* @type: Str -> Int;
  rc,
  \* @type: Str -> Int;
  ac,
  \* @type: Str -> (Str -> Str);
  m           \* per operation: node -> "none" | "sent" | "acked"

ConstInit == Ops = {"o1", "o2"} /\ Nodes = {"n1", "n2", "n3"}

Init ==
  /\ sent = [o \in Ops |-> {}] /\ acked = [o \in Ops |-> {}]
  /\ has = [o \in Ops |-> FALSE] /\ rc = [o \in Ops |-> 0] /\ ac = [o \in Ops |-> 0]
  /\ m = [o \in Ops |-> [n \in Nodes |-> "none"]]

Pending(o) == \E n \in sent[o] : n \notin acked[o]

Register(o, n) ==
  /\ IF Pending(o)
     THEN sent' = [sent EXCEPT ![o] = @ \union {n}] /\ acked' = [acked EXCEPT ![o] = @ \ {n}]
     ELSE sent' = [sent EXCEPT ![o] = {n}] /\ acked' = [acked EXCEPT ![o] = {}]
  /\ has' = [has EXCEPT ![o] = TRUE]
  /\ IF has[o]
     THEN /\ rc' = [rc EXCEPT ![o] = IF m[o][n] = "sent" THEN @ ELSE @ + 1]
          /\ ac' = ac
          /\ m' = [m EXCEPT ![o] = [@ EXCEPT ![n] = "sent"]]
     ELSE /\ rc' = [rc EXCEPT ![o] = 1]
          /\ ac' = [ac EXCEPT ![o] = 0]
          /\ m' = [m EXCEPT ![o] = [x \in Nodes |-> IF x = n THEN "sent" ELSE "none"]]

Ack(o, n) ==
  /\ acked' = [acked EXCEPT ![o] = IF n \in sent[o] THEN @ \union {n} ELSE @]
  /\ sent' = sent
  /\ IF ~has[o] THEN UNCHANGED <<has, rc, ac, m>>
     ELSE IF m[o][n] = "sent"
          THEN /\ m' = [m EXCEPT ![o] = [@ EXCEPT ![n] = "acked"]]
               /\ ac' = [ac EXCEPT ![o] = @ + 1]
               /\ rc' = rc
               /\ has' = [has EXCEPT ![o] = (rc[o] # ac[o] + 1)]       \* entry removed when fully acknowledged
          ELSE /\ m' = [m EXCEPT ![o] = [@ EXCEPT ![n] = "acked"]]
               /\ UNCHANGED <<has, rc, ac>>

Next == \E o \in Ops, n \in Nodes : Register(o, n) \/ Ack(o, n)

(* ---------------- the property and the inductive invariant ---------------- *)
Exact == \A o \in Ops : has[o] <=> Pending(o)

Outstanding(o) == {n \in Nodes : m[o][n] = "sent"}
TypeOK ==
  /\ sent \in [Ops -> SUBSET Nodes] /\ acked \in [Ops -> SUBSET Nodes]
  /\ has \in [Ops -> BOOLEAN]
  /\ rc \in [Ops -> Int] /\ ac \in [Ops -> Int]
  /\ m \in [Ops -> [Nodes -> {"none", "sent", "acked"}]]

IndInv ==
  /\ TypeOK
  /\ Exact
  /\ \A o \in Ops : has[o] =>
        /\ \A n \in Nodes : (m[o][n] = "sent") <=> (n \in sent[o] /\ n \notin acked[o])
        /\ rc[o] - ac[o] = Cardinality(Outstanding(o))
        /\ ac[o] >= 0

IndInit == IndInv
=============================================================================
