----------------------------- MODULE NunSyncInd -----------------------------
(***************************************************************************)
(* C05, "writes accepted by the primary during the synchronisation are not *)
(* lost", for any number of writes: NunSync (pinned lock scope) restated   *)
(* over integers, with an inductive invariant discharged by Apalache:      *)
(*   apalache-mc check --cinit=ConstInit --init=Init    --inv=IndInv --length=0 *)
(*   apalache-mc check --cinit=ConstInit --init=IndInit --inv=IndInv --length=1 *)
(*   apalache-mc check --cinit=ConstInit --init=IndInit --inv=NoLostWrite --length=0 *)
(*                                                                         *)
(* Abstractions (each one only adds behaviours):                           *)
(*  - the replication queue always holds consecutive write numbers, so it  *)
(*    is the interval nextlog..store;                                      *)
(*  - of the lines on the connection only their number and the value of    *)
(*    the last one queued are kept; a delivery that is not the last sets   *)
(*    the joining node's value to anything.                                *)
(* TLC checks NunSync itself (sequences, both lock scopes) for small       *)
(* constants; this module removes the bounds for the pinned scope.         *)
(***************************************************************************)
EXTENDS Integers

CONSTANT
  \* @type: Int;
  Away

VARIABLES
  \* @type: Int;
  store,
  \* @type: Int;
  issued,
  \* @type: Int;
  nextlog,    \* next write number the replication loop will take (writes below it are logged)
  \* @type: Int;
  repl,       \* 0 = idle, n = write n logged, about to be sent under the lock
  \* @type: Bool;
  lg,         \* the operation log has a record of the key
  \* @type: Str;
  sup,        \* "queued" | "parked" | "done"
  \* @type: Int;
  lastq,      \* value of the last line put on the connection
  \* @type: Int;
  qlen,       \* lines on the connection
  \* @type: Int;
  sec         \* value on the joining node

ConstInit == Away \in 0..1000000

Init ==
  /\ store = Away /\ issued = 0 /\ nextlog = Away + 1 /\ repl = 0 /\ lg = (Away > 0)
  /\ sup = "queued" /\ lastq = 0 /\ qlen = 0 /\ sec = 0

ClientWrite ==
  /\ issued' = issued + 1 /\ store' = store + 1
  /\ UNCHANGED <<nextlog, repl, lg, sup, lastq, qlen, sec>>

ReplLog ==
  /\ repl = 0 /\ nextlog <= store
  /\ repl' = nextlog /\ nextlog' = nextlog + 1 /\ lg' = TRUE
  /\ UNCHANGED <<store, issued, sup, lastq, qlen, sec>>

ReplSend ==
  /\ repl # 0
  /\ lastq' = repl /\ qlen' = qlen + 1 /\ repl' = 0
  /\ UNCHANGED <<store, issued, nextlog, lg, sup, sec>>

SupStart ==
  /\ sup = "queued" /\ sup' = "parked"
  /\ UNCHANGED <<store, issued, nextlog, repl, lg, lastq, qlen, sec>>

(* under the lock: read the log and the current value, queue the line *)
SupSync ==
  /\ sup = "parked" /\ sup' = "done"
  /\ IF lg THEN lastq' = store /\ qlen' = qlen + 1 ELSE UNCHANGED <<lastq, qlen>>
  /\ UNCHANGED <<store, issued, nextlog, repl, lg, sec>>

Deliver ==
  /\ qlen > 0 /\ qlen' = qlen - 1
  /\ IF qlen = 1 THEN sec' = lastq ELSE \E v \in Int : sec' = v
  /\ UNCHANGED <<store, issued, nextlog, repl, lg, sup, lastq>>

Next == ClientWrite \/ ReplLog \/ ReplSend \/ SupStart \/ SupSync \/ Deliver

NothingToSend == repl = 0 /\ nextlog > store
Quiet == NothingToSend /\ sup = "done" /\ qlen = 0
NoLostWrite == Quiet => sec = store

Sends == (nextlog - Away - 1) - (IF repl # 0 THEN 1 ELSE 0)   \* `rp' lines queued so far

IndInv ==
  /\ Away >= 0 /\ issued >= 0 /\ store = Away + issued
  /\ nextlog >= Away + 1 /\ nextlog <= store + 1
  /\ (repl = 0 \/ repl = nextlog - 1) /\ (repl # 0 => repl > Away)
  /\ qlen >= 0 /\ sup \in {"queued", "parked", "done"}
  /\ lg = (Away > 0 \/ nextlog > Away + 1)
  \* nothing has been put on the connection before the first send / the catch-up
  /\ (sup # "done" /\ Sends = 0) => (qlen = 0 /\ sec = 0)
  \* once nothing is left to send and the catch-up is queued, the last line (or, after it was delivered, the
  \* joining node) carries the primary's value
  /\ (sup = "done" /\ NothingToSend) => (IF qlen > 0 THEN lastq = store ELSE sec = store)

IndInit ==
  /\ store \in Int /\ issued \in Int /\ nextlog \in Int /\ repl \in Int /\ lg \in BOOLEAN
  /\ sup \in {"queued", "parked", "done"} /\ lastq \in Int /\ qlen \in Int /\ sec \in Int
  /\ IndInv
=============================================================================
