----------------------------- MODULE Trace_Elect -----------------------------
(***************************************************************************)
(* Trace validation of cluster-simulator runs against NunElect: every      *)
(* recorded step names the action the real code took (supervisor command,  *)
(* replication-loop entry, line delivered on a connection, reply line,     *)
(* wait-loop iteration of a parked election thread, client command), and   *)
(* the projection of the real nodes' control-plane state recorded after    *)
(* the step (roles, member maps with sender flags, pending-operation table *)
(* with per-node acknowledgement flags and counters, replication and       *)
(* supervisor queues, every connection's queued request and reply lines,   *)
(* session tags, parked threads and the loop each one waits in) must equal *)
(* the state the model reaches by the same action.                         *)
(*                                                                         *)
(* A run accepted here followed the modelled protocol step by step, so its *)
(* outcome at every quiescence is the outcome the model predicts; the C07  *)
(* judgement is taken on it: good, or one of the recorded findings (only   *)
(* if listed in known_findings.json), anything else is rejected.           *)
(* The constants of NunElect come from the configuration of the shard      *)
(* (runs are grouped by node list, start times, commands and formation).   *)
(***************************************************************************)
EXTENDS NunElect, Json, IOUtils

Rec == ndJsonDeserialize(IOEnv.TRACE)
Cfg == JsonDeserialize(IOEnv.CFG)
Devs == {Cfg.devs[i] : i \in DOMAIN Cfg.devs}

CNodeSeq == Cfg.nodes
CNodes == {Cfg.nodes[i] : i \in DOMAIN Cfg.nodes}
CPid == [n \in CNodes |-> Cfg.pids[n]]
COps == Cfg.ops
CSeqPrefix == Cfg.seqprefix
CTimeout == Cfg.timeout
CFormation == Cfg.formation
NoFormSched == <<>>

VARIABLES l, used
tvars == <<S, phase, initi, next, sched, l, used>>
E == Rec[l]

(* ---------------- projection of the model state, as the simulator records it ---------------- *)
Inner(m) == CASE m.k = "cand" -> "election candidate " \o ToString(m.b) \o " " \o m.a
              [] m.k = "alive" -> "election alive " \o m.a
              [] m.k = "active" -> "election active " \o m.a
              [] m.k = "set-primary" -> "set-primary " \o m.a
              [] m.k = "replicate-leave" -> "replicate-leave " \o m.a
LineStr(m) == CASE m.t = "auth" -> "auth admin adminpwd"
                [] m.t = "set-primary" -> "set-primary " \o m.a
                [] m.t = "set-secoundary" -> "set-secoundary " \o m.a
                [] m.t = "replicate-since" -> "replicate-since " \o m.a \o " 0"
                [] m.t = "replicate-join" -> "replicate-join " \o m.a
                [] m.t = "rp" -> "rp " \o Inner(m)
SupStr(c) == CASE c.c = "election-win" -> "election-win self"
               [] c.c = "replicate-since-to" -> "replicate-since-to " \o c.a \o " 0"
               [] OTHER -> c.c \o " " \o c.a

Elems(sq) == {sq[i] : i \in DOMAIN sq}
IdsOf(f) == SelectSeq([i \in 1..MaxOf(DOMAIN f \cup {0}) |-> i], LAMBDA i : i \in DOMAIN f)

NodeMatches(T, n, J) ==
  /\ J.alive = T.alive[n]
  /\ J.role = T.role[n]
  /\ J.supdead = T.supdead[n]
  /\ Elems(J.mem) = {<<m, T.mem[n][m], m \in T.snd[n]>> : m \in Members(T, n)}
  /\ LET ids == IdsOf(T.pend[n]) IN
     /\ Len(J.pend) = Len(ids)
     /\ \A i \in DOMAIN ids :
          LET p == T.pend[n][ids[i]] IN
          /\ J.pend[i].rc = p.rc /\ J.pend[i].ac = p.ac
          /\ Elems(J.pend[i].reps) = {<<m, p.reps[m] = "a">> : m \in {x \in Nodes : p.reps[x] # "-"}}
  /\ J.replq = [i \in DOMAIN T.replq[n] |-> "rp " \o Inner(T.replq[n][i])]
  /\ J.supq = [i \in DOMAIN T.supq[n] |-> SupStr(T.supq[n][i])]

LinkKey(p) == p[1] \o ">" \o p[2]
LinkMatches(k, J) ==
  /\ J.open = (k.st = "open")
  /\ J.q = [i \in DOMAIN k.q |-> LineStr(k.q[i])]
  /\ J.rsp = [i \in DOMAIN k.rsp |-> IF k.rsp[i].t = "ack" THEN "ack " \o k.rsp[i].a ELSE k.rsp[i].a]
  /\ J.sess = k.sess
  /\ (Len(J.tag) = 1 \/ J.tag = k.tag)           \* one element: the session was busy, tag not readable

Matches(T, J) ==
  /\ \A n \in Nodes : NodeMatches(T, n, J.nodes[n])
  /\ DOMAIN J.links = {LinkKey(p) : p \in {x \in Pairs : T.link[x].st # "none"}}
  /\ \A p \in Pairs : T.link[p].st # "none" =>
        /\ LinkMatches(T.link[p], J.links[LinkKey(p)])
        /\ J.links[LinkKey(p)].busy = Busy(T, p[1], p[2])
  /\ Elems(J.parked) = {<<o, T.thr[o].site>> : o \in DOMAIN T.thr}

(* ---------------- events ---------------- *)
TraceInit == /\ S = InitS /\ phase = "form" /\ initi = 1 /\ next = 1 /\ sched = <<>>
             /\ l = 1 /\ used = {} /\ TLCSet(1, 0)

Reset == /\ E.ev = "reset"
         /\ S' = InitS /\ phase' = "form" /\ initi' = 1 /\ next' = 1 /\ sched' = <<>> /\ used' = {}
         /\ ((used # {}) => PrintT(<<"USED", Rec[l-1].run, used>>))

(* the state after the start-up join requests is the model's initial state *)
Joined == /\ E.ev = "joined" /\ (Matches(S, E.st)) = TRUE
          /\ UNCHANGED <<S, phase, initi, next, sched, used>>

Step ==
  /\ E.ev = "st"
  /\ CASE E.kind = "sup" -> Sup(E.a)
       [] E.kind = "repl" -> Repl(E.a)
       [] E.kind = "deliver" -> Deliver(<<E.a, E.b>>)
       [] E.kind = "reply" -> Reply(<<E.a, E.b>>)
       [] E.kind = "tick" -> Tick(E.a)
       [] E.kind = "client" -> Client /\ next = E.i + 1
       [] E.kind = "init" -> IF phase = "form" THEN InitElect /\ initi' >= 1 /\ NodeSeq[initi' - 1] = E.a
                             ELSE RejoinInit
       [] OTHER -> FALSE
  /\ (Matches(S', E.st)) = TRUE
  /\ UNCHANGED used

FormedEv ==
  /\ E.ev = "formed" /\ E.quiet
  /\ Formed
  /\ UNCHANGED used

(* the run stopped without going quiet (step budget): nothing more is decided on this run *)
ModeDev == CASE Mode = "stale-view" -> "Dev_ElectionStaleView"
             [] Mode = "no-primary" -> "Dev_ElectionNoPrimary"
             [] Mode = "wrong-primary" -> "Dev_ElectionWrongPrimary"
             [] OTHER -> "-"
Outcome ==
  /\ E.ev \in {"quiesce", "end"} /\ E.quiet
  /\ Quiet(S) /\ PendEligible = {}
  /\ \/ Mode = "good" /\ UNCHANGED used
     \/ Mode # "good" /\ ModeDev \in Devs /\ used' = used \cup {ModeDev}
  /\ UNCHANGED <<S, phase, initi, next, sched>>

(* the judgement at `formed' (start-up finished) *)
FormedOutcome ==
  /\ E.ev = "formed_outcome"
  /\ \/ Mode = "good" /\ UNCHANGED used
     \/ Mode # "good" /\ ModeDev \in Devs /\ used' = used \cup {ModeDev}
  /\ UNCHANGED <<S, phase, initi, next, sched>>

(* diagnosis of a rejected step (IOEnv.DEBUG = "1"): which parts of the projection differ, and the model state *)
NodeDiag(T, n, J) ==
  [alive |-> J.alive = T.alive[n], role |-> J.role = T.role[n], supdead |-> J.supdead = T.supdead[n],
   mem |-> Elems(J.mem) = {<<m, T.mem[n][m], m \in T.snd[n]>> : m \in Members(T, n)},
   npend |-> Len(J.pend) = Len(IdsOf(T.pend[n])),
   replq |-> J.replq = [i \in DOMAIN T.replq[n] |-> "rp " \o Inner(T.replq[n][i])],
   supq |-> J.supq = [i \in DOMAIN T.supq[n] |-> SupStr(T.supq[n][i])]]
Diag ==
  /\ "DEBUG" \in DOMAIN IOEnv /\ E.ev = "st"
  /\ CASE E.kind = "sup" -> Sup(E.a)
       [] E.kind = "repl" -> Repl(E.a)
       [] E.kind = "deliver" -> Deliver(<<E.a, E.b>>)
       [] E.kind = "reply" -> Reply(<<E.a, E.b>>)
       [] E.kind = "tick" -> Tick(E.a)
       [] E.kind = "client" -> Client /\ next = E.i + 1
       [] E.kind = "init" -> IF phase = "form" THEN InitElect ELSE RejoinInit
       [] OTHER -> FALSE
  /\ (Matches(S', E.st)) = FALSE
  /\ PrintT(<<"DIAG", l, E.kind, E.a, E.b>>)
  /\ PrintT(<<"DIAG-nodes", [n \in Nodes |-> NodeDiag(S', n, E.st.nodes[n])]>>)
  /\ PrintT(<<"DIAG-linkkeys", DOMAIN E.st.links, {LinkKey(p) : p \in {x \in Pairs : S'.link[x].st # "none"}}>>)
  /\ PrintT(<<"DIAG-links", [p \in {x \in Pairs : S'.link[x].st # "none" /\ LinkKey(x) \in DOMAIN E.st.links} |->
                  <<LinkMatches(S'.link[p], E.st.links[LinkKey(p)]), E.st.links[LinkKey(p)].busy = Busy(S', p[1], p[2])>>]>>)
  /\ PrintT(<<"DIAG-parked", Elems(E.st.parked), {<<o, S'.thr[o].site>> : o \in DOMAIN S'.thr}>>)
  /\ PrintT(<<"DIAG-model", S'>>)
  /\ FALSE /\ UNCHANGED used

TraceNext == l <= Len(Rec) /\ l' = l + 1 /\ (Reset \/ Joined \/ Step \/ FormedEv \/ FormedOutcome \/ Outcome \/ Diag)
TraceSpec == TraceInit /\ [][TraceNext]_tvars

Progress ==
  /\ (l > TLCGet(1)) => TLCSet(1, l)
  /\ (l = Len(Rec) + 1 /\ used # {}) => PrintT(<<"USED", Rec[l-1].run, used>>)
TraceAccepted ==
  IF TLCGet(1) = Len(Rec) + 1
  THEN PrintT(<<"ACCEPTED", Len(Rec)>>)
  ELSE PrintT(<<"REJECTED", TLCGet(1), Rec[TLCGet(1)].run, TLCGet(1)>>) /\ FALSE
=============================================================================
