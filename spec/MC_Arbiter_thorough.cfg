SPECIFICATION Spec
CONSTANTS
  Keys = {"a", "ab"}
  MaxLen = 9
  Switch = 2
  MaxQueue = 3
INVARIANTS QueueBounded HeldMatches
VIEW View
ACTION_CONSTRAINT Emit
CHECK_DEADLOCK FALSE
