----------------------------- MODULE Trace_Crash -----------------------------
(***************************************************************************)
(* C11.  A snapshot is interrupted at one of its file-system calls; the    *)
(* directory as it is at that instant is loaded by the real start-up code. *)
(* Reference: the start succeeds, and every database that had completed an *)
(* earlier snapshot comes back with, for each key, either what was         *)
(* persisted before (P) or what the interrupted snapshot was writing (T):  *)
(* no never-stored value, no missing previously persisted key (unless T    *)
(* removes it), no key that exists in neither, no changed neighbour.       *)
(***************************************************************************)
(*                                                                         *)
(* Every cut is also followed byte by byte against the model of the write  *)
(* plan and of the loader (NunDiskBytes): the files of the image must be   *)
(* the files the modelled sequence of file-system calls leaves at that     *)
(* crash point, and what the real start-up loaded must be what the modelled*)
(* loader reads from them.  A failing image is accepted as the recorded    *)
(* finding only while the run follows that model, i.e. while it is exactly *)
(* the failure the pinned write plan and loader produce; an image of a run *)
(* that left the model is judged with no recorded finding.                 *)
(***************************************************************************)
EXTENDS NunDiskBytes, TLC, Json, IOUtils

Rec == ndJsonDeserialize(IOEnv.TRACE)
Cfg == JsonDeserialize(IOEnv.CFG)
Devs == {Cfg.devs[i] : i \in DOMAIN Cfg.devs}

VARIABLES l, persisted, queue, reclaiming, used,
          cb,        \* index of the crashbegin line of the interrupted snapshot being followed (0: none)
          mw,        \* model: per queued database the writer state (files + the two buffers)
          prog,      \* model: file-system calls still to come, <<[db, ins]>>
          disk,      \* the real files, rebuilt from the recorded patches
          followed,  \* the run has followed the model so far
          cnt        \* <<images, images that follow the model>>
tvars == <<l, persisted, queue, reclaiming, used, cb, mw, prog, disk, followed, cnt>>
mvars == <<cb, mw, prog, disk, followed, cnt>>
E == Rec[l]

Success(cls) == cls \in {"ok", "value"}

Proj(db) == [id |-> db.id, strategy |-> db.strategy,
             keys |-> [k \in {j \in DOMAIN db.keys : db.keys[j][3] # "Deleted"} |->
                         <<db.keys[k][1], db.keys[k][2]>>]]

Safe(P, T, R) ==
  /\ R.id = P.id /\ R.strategy = P.strategy
  /\ \A k \in DOMAIN P.keys :
       \/ k \in DOMAIN R.keys /\ R.keys[k] = P.keys[k]
       \/ k \in DOMAIN T.keys /\ k \in DOMAIN R.keys /\ R.keys[k] = T.keys[k]
       \/ k \notin DOMAIN T.keys /\ k \notin DOMAIN R.keys
  /\ \A k \in DOMAIN R.keys \ DOMAIN P.keys : k \in DOMAIN T.keys /\ R.keys[k] = T.keys[k]

Tgt == IF E.ev = "img" THEN Rec[cb].target ELSE E.target
ImageOK(img) ==
  /\ img.load = "ok"
  /\ \A d \in DOMAIN persisted :
        /\ d \in DOMAIN img.dump
        /\ Safe(persisted[d], Proj(Tgt[d]), Proj(img.dump[d]))

AllImagesOK == \A i \in DOMAIN E.images : ImageOK(E.images[i])

NoModel == /\ cb' = 0 /\ mw' = <<>> /\ prog' = <<>> /\ disk' = <<>> /\ followed' = FALSE /\ cnt' = <<0, 0>>
TraceInit == /\ l = 1 /\ persisted = <<>> /\ queue = {} /\ reclaiming = FALSE /\ used = {} /\ TLCSet(1, 0)
             /\ cb = 0 /\ mw = <<>> /\ prog = <<>> /\ disk = <<>> /\ followed = FALSE /\ cnt = <<0, 0>>

Reset == /\ E.ev = "reset" /\ persisted' = <<>> /\ queue' = {} /\ reclaiming' = FALSE /\ used' = {}
         /\ NoModel
         /\ ((used # {}) => PrintT(<<"USED", Rec[l-1].run, used>>))

(* ---- following the byte-level model ---- *)
Snaps(pre) == pre.snaps
Modelled(pre) == \A i \in DOMAIN pre.snaps : "missing" \notin DOMAIN pre.snaps[i] /\ ~pre.snaps[i].repeated
SnapIns(sn) == LET p == Plan(sn.files, sn.ents, sn.reclaim, sn.id, sn.strategy)
               IN [j \in 1..Len(p.ins) |-> [db |-> sn.db, ins |-> p.ins[j]]]
RECURSIVE AllIns(_, _)
AllIns(sns, i) == IF i > Len(sns) THEN <<>> ELSE SnapIns(sns[i]) \o AllIns(sns, i + 1)
FullProg(pre) == (IF pre.keymap_first THEN <<[db |-> "", ins |-> INop("keymap.write")],
                                              [db |-> "", ins |-> INop("flag.valid.write")]>> ELSE <<>>)
                 \o AllIns(pre.snaps, 1)
SnapDbs(pre) == {pre.snaps[i].db : i \in DOMAIN pre.snaps}
FilesOfDb(pre, d) == (CHOOSE i \in DOMAIN pre.snaps : pre.snaps[i].db = d)

CrashBegin ==
  /\ E.ev = "crashbegin"
  /\ cb' = l /\ cnt' = <<0, 0>>
  /\ IF Modelled(E.pre)
     THEN /\ mw' = [d \in SnapDbs(E.pre) |-> W(E.pre.snaps[FilesOfDb(E.pre, d)].files, <<>>, <<>>)]
          /\ disk' = [d \in SnapDbs(E.pre) |-> E.pre.snaps[FilesOfDb(E.pre, d)].files]
          /\ prog' = FullProg(E.pre)
          /\ followed' = TRUE
     ELSE mw' = <<>> /\ disk' = <<>> /\ prog' = <<>> /\ followed' = FALSE
  /\ UNCHANGED <<persisted, queue, reclaiming, used>>

(* the calls up to and including the next one that is followed by a crash point *)
RECURSIVE RunTo(_, _)
RunTo(m, p) ==
  IF p = <<>> THEN [found |-> FALSE, mw |-> m, rest |-> <<>>, site |-> ""]
  ELSE LET h == Head(p)
           m1 == IF h.db = "" THEN m ELSE [m EXCEPT ![h.db] = Exec(m[h.db], h.ins)]
       IN IF h.ins.site # "" THEN [found |-> TRUE, mw |-> m1, rest |-> Tail(p), site |-> h.ins.site]
          ELSE RunTo(m1, Tail(p))

ApplyPatch(dk, p) ==
  IF p.db \notin DOMAIN dk THEN dk
  ELSE LET fs == dk[p.db] old == fs[p.f].b IN
       [dk EXCEPT ![p.db] = [fs EXCEPT ![p.f] =
          IF p.kind = "gone" THEN NoFile
          ELSE IF p.kind = "created" THEN FileOf(p.ins)
          ELSE FileOf(SubSeq(old, 1, p.off) \o p.ins \o SubSeq(old, p.off + p.del + 1, Len(old)))]]
RECURSIVE ApplyPatches(_, _, _)
ApplyPatches(dk, ps, i) == IF i > Len(ps) THEN dk ELSE ApplyPatches(ApplyPatch(dk, ps[i]), ps, i + 1)

Strs == Rec[cb].strs
StrId(b) == IF \E i \in DOMAIN Strs : Strs[i] = b THEN CHOOSE i \in DOMAIN Strs : Strs[i] = b ELSE 0

(* what the real start-up loaded is what the modelled loader reads from the modelled files *)
LoadConforms(m, img) ==
  LET res == [d \in DOMAIN m |-> LoadDb(m[d].fs, -1)] IN
  IF \E d \in DOMAIN m : res[d].st = "unmodelled" THEN TRUE
  ELSE IF \E d \in DOMAIN m : res[d].st = "fail" THEN img.load = "fail"
  ELSE /\ img.load = "ok"
       /\ \A d \in DOMAIN m :
            IF res[d].st = "absent" THEN img.bload[d].st = "absent"
            ELSE /\ img.bload[d].st = "ok"
                 /\ {img.bload[d].m[i] : i \in DOMAIN img.bload[d].m}
                      = {<<StrId(t[1]), StrId(t[2]), t[3]>> : t \in res[d].m}
                 /\ res[d].id = -1 \/ res[d].id = img.bload[d].id
                 /\ res[d].id = -1 \/ res[d].strategy = img.bload[d].strategy

Follow ==     \* <<mw', prog', disk', followed'>> for the image E
  IF ~followed THEN <<mw, prog, disk, FALSE>>
  ELSE LET r == RunTo(mw, prog)
           dk == ApplyPatches(disk, E.patch, 1)
           ok == /\ r.found /\ r.site = E.site
                 /\ \A d \in DOMAIN dk : dk[d] = r.mw[d].fs
       IN IF ok /\ LoadConforms(r.mw, E) THEN <<r.mw, r.rest, dk, TRUE>> ELSE <<mw, prog, disk, FALSE>>

SnapshotCmd ==
  /\ E.ev = "cmd" /\ E.op = "snapshot" /\ Success(E.cls)
  /\ queue' = queue \cup {E.names[i] : i \in DOMAIN E.names}
  /\ reclaiming' = E.reclaim
  /\ UNCHANGED <<persisted, used>> /\ UNCHANGED mvars

OtherCmd ==
  /\ E.ev \in {"cmd", "close"} /\ ~(E.op = "snapshot" /\ Success(E.cls))
  /\ UNCHANGED <<persisted, queue, reclaiming, used>> /\ UNCHANGED mvars

Completed ==
  persisted' = [d \in DOMAIN persisted \cup (queue \cap DOMAIN E.dbs) |->
                  IF d \in queue THEN Proj(E.dbs[d]) ELSE persisted[d]]

Tick ==
  /\ E.ev = "tick" /\ E.cls = "ok"
  /\ Completed /\ queue' = {} /\ UNCHANGED <<reclaiming, used>> /\ UNCHANGED mvars

(* the end of the interrupted snapshot (it ran to completion in the real node): every image was judged by Img *)
CrashTick ==
  /\ E.ev = "crashtick" /\ E.cls = "ok"
  /\ PrintT(<<"FOLLOW", E.run, cnt[1], cnt[2], followed /\ prog = <<>>>>)
  /\ Completed /\ queue' = {} /\ UNCHANGED <<reclaiming, used>> /\ NoModel

(* Known findings: windows of the write plan in which a kill leaves files the loader     *)
(* mis-reads.  A failing image is accepted only inside its window AND only while the     *)
(* run follows the byte-level model: it is then exactly the damage the pinned write plan *)
(* and the pinned loader produce at that cut.                                            *)

(* incremental snapshot: key records (appended through a 250-byte buffer, or updated in *)
(* place at once) can reach the disk before the value records they point to, and a      *)
(* buffer flush can cut a record; the loader then reads lengths / addresses that are    *)
(* not there.  Window: from the first write of the snapshot to the final values flush.  *)
InWindow(img) == img.site \notin {"snapshot.files_open", "snapshot.values.flush", "meta.write.id",
                                  "meta.write.strategy", "snapshot.done", "keys_old.remove",
                                  "keymap.write", "flag.valid.write"}
(* even inside the window: the node starts and keys the snapshot does not touch are      *)
(* intact.  (A record cut by a buffer flush can also show up as one more key whose name   *)
(* is the zero bytes the loader read past the end of the file.)                           *)
NeighboursIntact(P, T, R) ==
  \A k \in DOMAIN P.keys : (k \in DOMAIN T.keys /\ T.keys[k] = P.keys[k]) =>
                               (k \in DOMAIN R.keys /\ R.keys[k] = P.keys[k])
WindowOK(img) ==
  /\ InWindow(img) /\ img.load = "ok"
  /\ \A d \in DOMAIN persisted :
        d \in DOMAIN img.dump /\ NeighboursIntact(persisted[d], Proj(Tgt[d]), Proj(img.dump[d]))

Img ==
  /\ E.ev = "img" /\ cb # 0
  /\ LET f == Follow
         ok == ImageOK(E)
     IN /\ mw' = f[1] /\ prog' = f[2] /\ disk' = f[3] /\ followed' = f[4]
        /\ cnt' = <<cnt[1] + 1, cnt[2] + (IF f[4] THEN 1 ELSE 0)>>
        /\ cb' = cb
        /\ IF ok THEN used' = used
           ELSE IF f[4] /\ reclaiming /\ "Dev_ReclaimNotAtomic" \in Devs
                THEN used' = used \cup {"Dev_ReclaimNotAtomic"}
           ELSE IF f[4] /\ ~reclaiming /\ "Dev_KeysBeforeValues" \in Devs /\ WindowOK(E)
                THEN used' = used \cup {"Dev_KeysBeforeValues"}
           ELSE FALSE
  /\ UNCHANGED <<persisted, queue, reclaiming>>

TraceNext == l <= Len(Rec) /\ l' = l + 1 /\
             (Reset \/ SnapshotCmd \/ OtherCmd \/ Tick \/ CrashBegin \/ Img \/ CrashTick)
TraceSpec == TraceInit /\ [][TraceNext]_tvars

Progress ==
  /\ (l > TLCGet(1)) => TLCSet(1, l)
  /\ (l = Len(Rec) + 1 /\ used # {}) => PrintT(<<"USED", Rec[l-1].run, used>>)
TraceAccepted ==
  IF TLCGet(1) = Len(Rec) + 1
  THEN PrintT(<<"ACCEPTED", Len(Rec)>>)
  ELSE PrintT(<<"REJECTED", TLCGet(1), Rec[TLCGet(1)].run, Rec[TLCGet(1)].i>>) /\ FALSE
=============================================================================
