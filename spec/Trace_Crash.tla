----------------------------- MODULE Trace_Crash -----------------------------
(***************************************************************************)
(* C11.  A snapshot is interrupted at one of its file-system calls; the    *)
(* directory as it is at that instant is loaded by the real start-up code. *)
(* Reference: the start succeeds, and every database that had completed an *)
(* earlier snapshot comes back with, for each key, either what was         *)
(* persisted before (P) or what the interrupted snapshot was writing (T):  *)
(* no never-stored value, no missing previously persisted key (unless T    *)
(* removes it), no key that exists in neither, no changed neighbour.       *)
(***************************************************************************)
EXTENDS Integers, Sequences, FiniteSets, TLC, Json, IOUtils

Rec == ndJsonDeserialize(IOEnv.TRACE)
Cfg == JsonDeserialize(IOEnv.CFG)
Devs == {Cfg.devs[i] : i \in DOMAIN Cfg.devs}

VARIABLES l, persisted, queue, reclaiming, used
tvars == <<l, persisted, queue, reclaiming, used>>
E == Rec[l]

Success(cls) == cls \in {"ok", "value"}

Proj(db) == [id |-> db.id, strategy |-> db.strategy,
             keys |-> [k \in {j \in DOMAIN db.keys : db.keys[j][3] # "Deleted"} |->
                         <<db.keys[k][1], db.keys[k][2]>>]]

Safe(P, T, R) ==
  /\ R.id = P.id /\ R.strategy = P.strategy
  /\ \A k \in DOMAIN P.keys :
       \/ k \in DOMAIN R.keys /\ R.keys[k] = P.keys[k]
       \/ k \in DOMAIN T.keys /\ k \in DOMAIN R.keys /\ R.keys[k] = T.keys[k]
       \/ k \notin DOMAIN T.keys /\ k \notin DOMAIN R.keys
  /\ \A k \in DOMAIN R.keys \ DOMAIN P.keys : k \in DOMAIN T.keys /\ R.keys[k] = T.keys[k]

ImageOK(img) ==
  /\ img.load = "ok"
  /\ \A d \in DOMAIN persisted :
        /\ d \in DOMAIN img.dump
        /\ Safe(persisted[d], Proj(E.target[d]), Proj(img.dump[d]))

AllImagesOK == \A i \in DOMAIN E.images : ImageOK(E.images[i])

TraceInit == l = 1 /\ persisted = <<>> /\ queue = {} /\ reclaiming = FALSE /\ used = {} /\ TLCSet(1, 0)

Reset == /\ E.ev = "reset" /\ persisted' = <<>> /\ queue' = {} /\ reclaiming' = FALSE /\ used' = {}
         /\ ((used # {}) => PrintT(<<"USED", Rec[l-1].run, used>>))

SnapshotCmd ==
  /\ E.ev = "cmd" /\ E.op = "snapshot" /\ Success(E.cls)
  /\ queue' = queue \cup {E.names[i] : i \in DOMAIN E.names}
  /\ reclaiming' = E.reclaim
  /\ UNCHANGED <<persisted, used>>

OtherCmd ==
  /\ E.ev \in {"cmd", "close"} /\ ~(E.op = "snapshot" /\ Success(E.cls))
  /\ UNCHANGED <<persisted, queue, reclaiming, used>>

Completed ==
  persisted' = [d \in DOMAIN persisted \cup (queue \cap DOMAIN E.dbs) |->
                  IF d \in queue THEN Proj(E.dbs[d]) ELSE persisted[d]]

Tick ==
  /\ E.ev = "tick" /\ E.cls = "ok"
  /\ Completed /\ queue' = {} /\ UNCHANGED <<reclaiming, used>>

CrashTick ==
  /\ E.ev = "crashtick" /\ E.cls = "ok"
  /\ AllImagesOK = TRUE      \* (= TRUE: evaluated as a predicate, not expanded as an action)
  /\ Completed /\ queue' = {} /\ UNCHANGED <<reclaiming, used>>

(* Known findings: windows of the write plan in which a kill leaves files the loader     *)
(* mis-reads.  Each deviation accepts failing images only inside its window.            *)

(* a space-reclaiming snapshot replaces the files in place: the old values file is      *)
(* deleted before the new files are complete, and nothing restores the .old keys file   *)
Dev_ReclaimNotAtomic ==
  /\ "Dev_ReclaimNotAtomic" \in Devs
  /\ E.ev = "crashtick" /\ E.cls = "ok" /\ reclaiming
  /\ AllImagesOK = FALSE
  /\ Completed /\ queue' = {} /\ UNCHANGED reclaiming
  /\ used' = used \cup {"Dev_ReclaimNotAtomic"}

(* incremental snapshot: key records (appended through a 250-byte buffer, or updated in *)
(* place at once) can reach the disk before the value records they point to, and a      *)
(* buffer flush can cut a record; the loader then reads lengths / addresses that are    *)
(* not there.  Window: from the first write of the snapshot to the final values flush.  *)
InWindow(img) == img.site \notin {"snapshot.files_open", "snapshot.values.flush", "meta.write.id",
                                  "meta.write.strategy", "snapshot.done", "keys_old.remove",
                                  "keymap.write", "flag.valid.write"}
(* even inside the window: the node starts and keys the snapshot does not touch are      *)
(* intact.  (A record cut by a buffer flush can also show up as one more key whose name   *)
(* is the zero bytes the loader read past the end of the file: which records are cut      *)
(* depends on the order in which the hash map hands out the keys, so it differs from run  *)
(* to run.)                                                                               *)
NeighboursIntact(P, T, R) ==
  \A k \in DOMAIN P.keys : (k \in DOMAIN T.keys /\ T.keys[k] = P.keys[k]) =>
                               (k \in DOMAIN R.keys /\ R.keys[k] = P.keys[k])
WindowOK(img) ==
  /\ InWindow(img) /\ img.load = "ok"
  /\ \A d \in DOMAIN persisted :
        d \in DOMAIN img.dump /\ NeighboursIntact(persisted[d], Proj(E.target[d]), Proj(img.dump[d]))

Dev_KeysBeforeValues ==
  /\ "Dev_KeysBeforeValues" \in Devs
  /\ E.ev = "crashtick" /\ E.cls = "ok" /\ ~reclaiming
  /\ AllImagesOK = FALSE
  /\ (\A i \in DOMAIN E.images : ~ImageOK(E.images[i]) => WindowOK(E.images[i])) = TRUE
  /\ Completed /\ queue' = {} /\ UNCHANGED reclaiming
  /\ used' = used \cup {"Dev_KeysBeforeValues"}

TraceNext == l <= Len(Rec) /\ l' = l + 1 /\
             (Reset \/ SnapshotCmd \/ OtherCmd \/ Tick \/ CrashTick \/ Dev_ReclaimNotAtomic \/ Dev_KeysBeforeValues)
TraceSpec == TraceInit /\ [][TraceNext]_tvars

Progress ==
  /\ (l > TLCGet(1)) => TLCSet(1, l)
  /\ (l = Len(Rec) + 1 /\ used # {}) => PrintT(<<"USED", Rec[l-1].run, used>>)
TraceAccepted ==
  IF TLCGet(1) = Len(Rec) + 1
  THEN PrintT(<<"ACCEPTED", Len(Rec)>>)
  ELSE PrintT(<<"REJECTED", TLCGet(1), Rec[TLCGet(1)].run, Rec[TLCGet(1)].i>>) /\ FALSE
=============================================================================
