SPECIFICATION Spec
CONSTANTS
  Keys = {"a1", "xb", "mid", "zz", "$$s", "$$token", "$$user_u1", "$$permission_$u1"}
  PermNames = {"r_a", "rw_a_i_b", "x_mid", "rwix_all", "rr_a_ww_mid", "rwr_a_ii_b"}
  MaxLen = 7
INVARIANT TypeOK
VIEW View
ACTION_CONSTRAINT Emit
CHECK_DEADLOCK FALSE
