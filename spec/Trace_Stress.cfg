SPECIFICATION TraceSpec
CONSTRAINT Progress
POSTCONDITION TraceAccepted
CHECK_DEADLOCK FALSE
