------------------------------- MODULE MC_Auth -------------------------------
(***************************************************************************)
(* Generator / design model for the credential rules (C09) and the secure  *)
(* key rules (C08): one session `c' moving through every credential state  *)
(* (nothing, administrator, database token, user token, and combinations), *)
(* an administrator session `a' changing the user's permission list        *)
(* mid-session, and in every such state every command of the command       *)
(* table with matching and non-matching key arguments.                     *)
(***************************************************************************)
EXTENDS Integers, Sequences, FiniteSets, TLC, Json

CONSTANTS Keys,        \* key arguments
          PermNames,   \* names of permission lists (values supplied by the driver)
          MaxLen

VARIABLES cred,   \* credential state of session c
          perm,   \* current permission list of user u1 ("none" = no list)
          over,   \* an authorised cluster command was issued: the case ends
          hist

vars == <<cred, perm, over, hist>>

Init ==
  /\ cred = [admin |-> FALSE, sel |-> "-", user |-> "-"]
  /\ perm = "none"
  /\ over = FALSE
  /\ hist = <<>>

Log(c, rec) == hist' = Append(hist, rec @@ [c |-> c])

(* commands that move the credential state.  A session that selected with a user token   *)
(* does not afterwards select with the plain database token: which of the two identities *)
(* then applies is not fixed by the property (the implementation keeps the user).         *)
AuthGood == Log("c", [op |-> "auth", u |-> "admin", tok |-> "adminpwd"]) /\ cred' = [cred EXCEPT !.admin = TRUE]
(* wrong credentials: unrelated ones, and ones that share a prefix with the right one (shorter, longer, other case) *)
AuthBad  == \E o \in {[u |-> "admin", tok |-> "wrong"], [u |-> "admin", tok |-> "adminpw"], [u |-> "admin", tok |-> "adminpwdx"],
                      [u |-> "admin", tok |-> "ADMINPWD"], [u |-> "admi", tok |-> "adminpwd"], [u |-> "adminx", tok |-> "adminpwd"]} :
               Log("c", o @@ [op |-> "auth"]) /\ UNCHANGED cred
UseGood  == cred.user = "-" /\ Log("c", [op |-> "use-db", d |-> "d", tok |-> "tok", u |-> "-"]) /\ cred' = [cred EXCEPT !.sel = "d", !.user = "-"]
UseBad   == \E o \in {[d |-> "d", tok |-> "bad", u |-> "-"], [d |-> "nodb", tok |-> "tok", u |-> "-"],
                      [d |-> "d", tok |-> "bad", u |-> "u1"], [d |-> "d", tok |-> "ut", u |-> "nouser"],
                      [d |-> "d", tok |-> "to", u |-> "-"], [d |-> "d", tok |-> "tokx", u |-> "-"],
                      [d |-> "d", tok |-> "u", u |-> "u1"], [d |-> "d", tok |-> "utx", u |-> "u1"],
                      [d |-> "d", tok |-> "ut", u |-> "u"], [d |-> "d", tok |-> "d", u |-> "-"]} :
               Log("c", o @@ [op |-> "use-db"]) /\ UNCHANGED cred
UseUser  == Log("c", [op |-> "use-db", d |-> "d", tok |-> "ut", u |-> "u1"]) /\ cred' = [cred EXCEPT !.sel = "d", !.user = "u1"]

CredStep == (AuthGood \/ AuthBad \/ UseGood \/ UseBad \/ UseUser) /\ UNCHANGED <<perm, over>>

(* administrator changes the permission list of u1 while c is connected *)
SetPerm == \E p \in PermNames :
  /\ p # perm
  /\ Log("a", [op |-> "set-permissions", u |-> "u1", pname |-> p])
  /\ perm' = p /\ UNCHANGED <<cred, over>>

DataCmds ==
  {[op |-> o, k |-> k] : o \in {"get", "get-safe", "remove", "watch", "unwatch"}, k \in Keys}
  \cup {[op |-> "set", k |-> k, v |-> "w1"] : k \in Keys}
  \cup {[op |-> "set-safe", k |-> k, v |-> "w2", ver |-> 5] : k \in Keys}
  \cup {[op |-> "increment", k |-> k, n |-> 2] : k \in Keys}
  \cup {[op |-> "resolve", k |-> k, v |-> "rv", ver |-> 3, opid |-> 77, d |-> "d"] : k \in Keys}
  \cup {[op |-> "keys", p |-> p] : p \in {"*", "a*", "$$*", "$$", "*$$s", "$*", "*$*", "$", "*s", "**"}}
  \cup {[op |-> "unwatch-all"], [op |-> "arbiter"]}

AdminCmds ==
  {[op |-> "create-db", d |-> "nd", tok |-> "t2", strategy |-> "none"],
   [op |-> "create-db", d |-> "d", tok |-> "t2", strategy |-> "none"],
   [op |-> "snapshot", reclaim |-> FALSE, names |-> <<>>],
   [op |-> "snapshot", reclaim |-> TRUE, names |-> <<"d">>],
   [op |-> "create-user", u |-> "u2", v |-> "t3"],
   [op |-> "set-permissions", u |-> "u1", pname |-> "rwix_all"],
   [op |-> "cluster-state"], [op |-> "metrics-state"],
   [op |-> "debug", v |-> "list-dbs"], [op |-> "debug", v |-> "pending-ops"],
   [op |-> "list-commands"],
   [op |-> "ack", line |-> "ack 5 other:1"],
   [op |-> "replicate", line |-> "replicate d a1 -1 pwn"],
   [op |-> "replicate-remove", line |-> "replicate-remove d a1"],
   [op |-> "replicate-increment", line |-> "replicate-increment d n1 4"],
   [op |-> "replicate-snapshot", line |-> "replicate-snapshot d false"]}

(* these change the role / cluster view of the node when they are authorised *)
ClusterCmds ==
  {[op |-> "join", line |-> "join other:1"],
   [op |-> "leave", line |-> "leave other:1"],
   [op |-> "set-primary", line |-> "set-primary other:1"],
   [op |-> "set-secoundary", line |-> "set-secoundary other:1"],
   [op |-> "replicate-join", line |-> "replicate-join other:1"],
   [op |-> "replicate-leave", line |-> "replicate-leave other:1"],
   [op |-> "replicate-since", line |-> "replicate-since other:1 0"],
   [op |-> "election-win", line |-> "election win"],
   [op |-> "election-candidate", line |-> "election candidate 5 other:1"],
   [op |-> "election-other", line |-> "election alive other:1"],
   [op |-> "debug", v |-> "force-election"]}

Plain == \E x \in DataCmds \cup AdminCmds : Log("c", x) /\ UNCHANGED <<cred, perm, over>>

Cluster == \E x \in ClusterCmds :
  /\ Log("c", x)
  /\ over' = cred.admin
  /\ UNCHANGED <<cred, perm>>

Next ==
  /\ ~over
  /\ Len(hist) < MaxLen
  /\ (CredStep \/ SetPerm \/ Plain \/ Cluster)

Spec == Init /\ [][Next]_vars

TypeOK == cred.sel \in {"-", "d"} /\ (cred.user # "-" => cred.sel = "d")

View == <<cred, perm, over>>
Emit == PrintT(<<"CASE", ToJson(hist')>>)
=============================================================================
