SPECIFICATION Spec
CONSTANTS
  Cap = 40
  KeySet <- KeySetDef
  ValSet <- ValSetDef
  MaxOps = 2
  MaxSnaps = 3
  Variant = "pinned"
INVARIANTS RestoreExact AddrsValid CrashSafeOrKnown
ACTION_CONSTRAINT EmitCut
CHECK_DEADLOCK FALSE
