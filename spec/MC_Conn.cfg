SPECIFICATION Spec
CONSTANTS
  Sessions = {"s1", "s2", "s3"}
  Dbs = {"d", "e"}
  MaxLen = 6
INVARIANTS Exact NeverNegative
VIEW View
ACTION_CONSTRAINT Emit
CHECK_DEADLOCK FALSE
