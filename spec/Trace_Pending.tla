---------------------------- MODULE Trace_Pending ----------------------------
(***************************************************************************)
(* C15 on the real accounting: after every register / acknowledge call the *)
(* set of operations the primary reports as pending must be the reference  *)
(* one, the counters are sane, and an acknowledgement is reported as       *)
(* counted exactly when it is the first one of a node the operation was    *)
(* sent to.                                                                *)
(***************************************************************************)
EXTENDS Integers, Sequences, FiniteSets, TLC, Json, IOUtils

Rec == ndJsonDeserialize(IOEnv.TRACE)
Cfg == JsonDeserialize(IOEnv.CFG)
Devs == {Cfg.devs[i] : i \in DOMAIN Cfg.devs}

VARIABLES l, sent, acked, stuck, used
tvars == <<l, sent, acked, stuck, used>>
E == Rec[l]

SentOf(o) == IF o \in DOMAIN sent THEN sent[o] ELSE {}
AckedOf(o) == IF o \in DOMAIN acked THEN acked[o] ELSE {}
PendingRef(S, A) == {o \in DOMAIN S : \E n \in S[o] : ~(o \in DOMAIN A /\ n \in A[o])}
Observed == {E.pending[i] : i \in DOMAIN E.pending}

TraceInit == l = 1 /\ sent = <<>> /\ acked = <<>> /\ stuck = {} /\ used = {} /\ TLCSet(1, 0)
Reset == /\ E.ev = "reset" /\ sent' = <<>> /\ acked' = <<>> /\ stuck' = {} /\ used' = {}
         /\ ((used # {}) => PrintT(<<"USED", Rec[l-1].run, used>>))

CountersSane == \A i \in DOMAIN E.counts : E.counts[i][3] >= 0 /\ E.counts[i][3] <= E.counts[i][2]

Upd(f, o, v) == [x \in DOMAIN f \cup {o} |-> IF x = o THEN v ELSE f[x]]

RegisterRef ==
  IF E.op \in PendingRef(sent, acked)
  THEN sent' = Upd(sent, E.op, SentOf(E.op) \cup {E.node}) /\ acked' = Upd(acked, E.op, AckedOf(E.op) \ {E.node})
  ELSE sent' = Upd(sent, E.op, {E.node}) /\ acked' = Upd(acked, E.op, {})

Register ==
  /\ E.ev = "register" /\ E.cls = "ok"
  /\ RegisterRef
  /\ Observed \ stuck = PendingRef(sent', acked') \ stuck
  /\ stuck \subseteq Observed
  /\ CountersSane
  /\ UNCHANGED <<stuck, used>>

Ack ==
  /\ E.ev = "ack" /\ E.cls = "ok"
  /\ acked' = IF E.node \in SentOf(E.op) THEN Upd(acked, E.op, AckedOf(E.op) \cup {E.node}) ELSE acked
  /\ UNCHANGED sent
  /\ (E.op \notin stuck) => (E.ret = (E.node \in SentOf(E.op) /\ E.node \notin AckedOf(E.op)))
  /\ Observed \ stuck = PendingRef(sent', acked') \ stuck
  /\ stuck \subseteq Observed
  /\ CountersSane
  /\ UNCHANGED <<stuck, used>>

(* a member leaves.  The property: an operation still unacknowledged by some node stays pending.  The node that  *)
(* left may either keep its place in the accounting (what the code does) or be taken out of it together with its *)
(* acknowledgement -- in both readings an operation that another node has not acknowledged is still pending, and  *)
(* one that everybody else acknowledged may only stop being pending in the second reading                         *)
Without(f, n) == [o \in DOMAIN f |-> f[o] \ {n}]
Leave ==
  /\ E.ev = "leave" /\ E.cls = "ok"
  /\ \/ UNCHANGED <<sent, acked>>
     \/ sent' = Without(sent, E.node) /\ acked' = Without(acked, E.node)
  /\ Observed \ stuck = PendingRef(sent', acked') \ stuck
  /\ stuck \subseteq Observed
  /\ CountersSane
  /\ UNCHANGED <<stuck, used>>

(* known finding: the same (operation, node) registered twice while pending needs two   *)
(* acknowledgements but only one can be counted: the operation stays pending for ever  *)
Dev_DuplicateRegistration ==
  /\ "Dev_DuplicateRegistration" \in Devs
  /\ E.ev = "register" /\ E.cls = "ok"
  /\ E.op \in PendingRef(sent, acked) /\ E.node \in SentOf(E.op)
  /\ RegisterRef
  /\ stuck' = stuck \cup {E.op}
  /\ stuck' \subseteq Observed
  /\ Observed \ stuck' = PendingRef(sent', acked') \ stuck'
  /\ used' = used \cup {"Dev_DuplicateRegistration"}

TraceNext == l <= Len(Rec) /\ l' = l + 1 /\ (Reset \/ Register \/ Ack \/ Leave \/ Dev_DuplicateRegistration)
TraceSpec == TraceInit /\ [][TraceNext]_tvars

Progress ==
  /\ (l > TLCGet(1)) => TLCSet(1, l)
  /\ (l = Len(Rec) + 1 /\ used # {}) => PrintT(<<"USED", Rec[l-1].run, used>>)
TraceAccepted ==
  IF TLCGet(1) = Len(Rec) + 1
  THEN PrintT(<<"ACCEPTED", Len(Rec)>>)
  ELSE PrintT(<<"REJECTED", TLCGet(1), Rec[TLCGet(1)].run, Rec[TLCGet(1)].i>>) /\ FALSE
=============================================================================
