------------------------------ MODULE NunKVConc ------------------------------
(***************************************************************************)
(* Implementation-shaped model of concurrent clients on one database, at   *)
(* the granularity of the lock regions of bo.rs / db_ops.rs: one action =  *)
(* the code a client thread runs from one lock acquisition to the next     *)
(* (the conformance harness stops the real threads at exactly these        *)
(* points, the `site' names are those of the yield hooks).                 *)
(*                                                                         *)
(*   set / set-safe : perm ; readold ; write ; notify ; repl               *)
(*   increment      : perm ; inc (atomic read-modify-write) ; notify ; repl*)
(*   remove         : perm ; readold ; (drop | write tombstone) ; rmnotify *)
(*   get / get-safe : perm ; getread ; repl                                *)
(*   watch          : perm ; watchw ; repl                                 *)
(*   unwatch        : senders (copy) ; insert (filtered copy) ; repl       *)
(*   unwatch-all    : copy map ; (senders ; insert) per key ; repl         *)
(*   close          : unwatch-all ; three steps of $connections bookkeeping *)
(*                                                                         *)
(* With AtomicSet / AtomicRemove / AtomicUnwatch = TRUE the corresponding  *)
(* read-then-write pairs are one lock region (the repaired code).          *)
(***************************************************************************)
EXTENDS Integers, Sequences, FiniteSets, TLC, Json

CONSTANTS Tasks, Keys,
          Progs,        \* [Tasks -> sequence of commands]
          InitMem,      \* [Keys -> entry]
          InitWat,      \* [Keys -> sequence of tasks]
          Strategy,     \* "none" | "newer"
          AtomicSet, AtomicRemove, AtomicUnwatch

VARIABLES mem, wat, wk, inbox, pc, site, loc, res, clock, sched, bad

vars == <<mem, wat, wk, inbox, pc, site, loc, res, clock, sched, bad>>

Absent == [st |-> "Absent", val |-> "", ver |-> 0, oid |-> 0]
NoLoc == [old |-> Absent, nv |-> 0, nst |-> "New", senders |-> <<>>, keys |-> <<>>, oid |-> 0,
          val |-> "", resolving |-> FALSE]

Init ==
  /\ mem = InitMem
  /\ wat = InitWat
  /\ wk = {k \in Keys : InitWat[k] # <<>>}
  /\ inbox = [t \in Tasks |-> <<>>]
  /\ pc = [t \in Tasks |-> 1]
  /\ site = [t \in Tasks |-> "start"]
  /\ loc = [t \in Tasks |-> NoLoc]
  /\ res = [t \in Tasks |-> <<>>]
  /\ clock = 100
  /\ sched = <<>>
  /\ bad = {}

Cur(t) == Progs[t][pc[t]]
Running(t) == pc[t] <= Len(Progs[t])

IsInt(v) == v \in {"0","1","2","3","4","5","6","7","8","9","10","11","12"}
ToInt(v) == CHOOSE n \in 0..12 : ToString(n) = v

Exists(e) == e.st # "Absent"
LiveE(e) == e.st \notin {"Absent", "Deleted"}
UpdSt(e) == IF e.st = "New" THEN "New" ELSE "Updated"

Finish(t, r) ==
  /\ pc' = [pc EXCEPT ![t] = @ + 1]
  /\ site' = [site EXCEPT ![t] = "start"]
  /\ res' = [res EXCEPT ![t] = Append(@, r)]

Goto(t, s) == site' = [site EXCEPT ![t] = s] /\ UNCHANGED <<pc, res>>

Notify(k, v, ver) ==
  inbox' = [x \in Tasks |->
              inbox[x] \o [i \in 1..Cardinality({j \in DOMAIN wat[k] : wat[k][j] = x}) |->
                             [t |-> "changed", k |-> k, v |-> v, ver |-> ver]]]
NotifyRemoved(k) ==
  inbox' = [x \in Tasks |->
              inbox[x] \o [i \in 1..Cardinality({j \in DOMAIN wat[k] : wat[k][j] = x}) |->
                             [t |-> "removed", k |-> k, v |-> "", ver |-> 0]]]

(* the version rule of Change::next_version for plain / versioned writes *)
NextVer(o, old) == IF o.ver = -1 THEN old.ver + 1 ELSE o.ver + 1

(* decide a write against the entry `old' that was read; returns the local state *)
Decide(t, o, old) ==
  IF ~Exists(old)
  THEN [loc[t] EXCEPT !.old = old, !.nv = o.ver + 1, !.nst = "New", !.val = o.v]
  ELSE [loc[t] EXCEPT !.old = old, !.nst = UpdSt(old), !.val = o.v,
                      !.nv = IF loc[t].resolving THEN old.ver + 1 ELSE NextVer(o, old)]

Refuses(o, old, resolving) == Exists(old) /\ ~resolving /\ NextVer(o, old) <= old.ver

DoWrite(t, k) ==
  /\ mem' = [mem EXCEPT ![k] = [st |-> loc[t].nst, val |-> loc[t].val, ver |-> loc[t].nv,
                                 oid |-> loc[t].oid]]
  \* ghost: the version did not grow over what is stored *now*
  /\ bad' = IF LiveE(mem[k]) /\ loc[t].nv <= mem[k].ver THEN bad \cup {"stale-write"} ELSE bad

KeyOrder == CHOOSE s \in [1..Cardinality(Keys) -> Keys] : \A i, j \in DOMAIN s : i # j => s[i] # s[j]

RECURSIVE FilterSeq(_, _, _)
FilterSeq(ks, S, acc) == IF ks = <<>> THEN acc
                         ELSE FilterSeq(Tail(ks), S, IF Head(ks) \in S THEN Append(acc, Head(ks)) ELSE acc)
(* the order in which unwatch-all walks the watcher map (a hash map: any fixed order) *)
SetToSeqSorted(S) == FilterSeq(KeyOrder, S, <<>>)

Step(t) ==
  /\ Running(t)
  /\ sched' = Append(sched, t)
  /\ LET o == Cur(t) s == site[t] IN
     CASE s = "start" ->
            /\ loc' = [loc EXCEPT ![t] = [NoLoc EXCEPT !.oid = clock + 1]]
            /\ clock' = clock + 1
            /\ Goto(t, CASE o.op \in {"set", "set-safe", "increment", "remove", "get", "get-safe", "watch"} -> "perm"
                         [] o.op = "replicate" -> IF AtomicSet THEN "setatomic" ELSE "readold"
                         [] o.op = "unwatch" -> "senders"
                         [] o.op \in {"unwatch-all", "close"} -> "uacopy")
            /\ UNCHANGED <<mem, wat, wk, inbox, bad>>
       [] s = "perm" ->
            /\ Goto(t, CASE o.op \in {"set", "set-safe"} -> IF AtomicSet THEN "setatomic" ELSE "readold"
                         [] o.op = "remove" -> IF AtomicRemove THEN "rmatomic" ELSE "readold"
                         [] o.op = "increment" -> "inc"
                         [] o.op \in {"get", "get-safe"} -> "getread"
                         [] o.op = "watch" -> "watchw")
            /\ UNCHANGED <<mem, wat, wk, inbox, loc, clock, bad>>
       [] s = "readold" /\ o.op \in {"set", "set-safe", "replicate"} ->
            LET old == mem[o.k] IN
            IF Refuses(o, old, loc[t].resolving)
            THEN IF Strategy = "newer"
                 THEN IF loc[t].oid > old.oid
                      THEN \* resolve in favour of this (more recently issued) change
                           /\ loc' = [loc EXCEPT ![t].resolving = TRUE]
                           /\ Goto(t, "readold")
                           /\ UNCHANGED <<mem, wat, wk, inbox, clock, bad>>
                      ELSE \* superseded: the stored value stays
                           /\ Goto(t, "repl")
                           /\ UNCHANGED <<mem, wat, wk, inbox, loc, clock, bad>>
                 ELSE /\ loc' = [loc EXCEPT ![t].val = "#refused"]
                      /\ Goto(t, "repl")
                      /\ UNCHANGED <<mem, wat, wk, inbox, clock, bad>>
            ELSE /\ loc' = [loc EXCEPT ![t] = Decide(t, o, old)]
                 /\ Goto(t, "write")
                 /\ UNCHANGED <<mem, wat, wk, inbox, clock, bad>>
       [] s = "setatomic" ->
            \* set_value after the repair: version check and write in one lock region
            LET old == mem[o.k] IN
            IF Refuses(o, old, loc[t].resolving)
            THEN IF Strategy = "newer"
                 THEN IF loc[t].oid > old.oid
                      THEN \* resolved in favour of this (more recently issued) change:
                           \* a second set_value, i.e. a second lock region
                           /\ loc' = [loc EXCEPT ![t].resolving = TRUE]
                           /\ Goto(t, "setatomic")
                           /\ UNCHANGED <<mem, wat, wk, inbox, clock, bad>>
                      ELSE /\ Goto(t, "repl")
                           /\ UNCHANGED <<mem, wat, wk, inbox, loc, clock, bad>>
                 ELSE /\ loc' = [loc EXCEPT ![t].val = "#refused"]
                      /\ Goto(t, "repl")
                      /\ UNCHANGED <<mem, wat, wk, inbox, clock, bad>>
            ELSE LET d == Decide(t, o, old) IN
                 /\ loc' = [loc EXCEPT ![t] = d]
                 /\ mem' = [mem EXCEPT ![o.k] = [st |-> d.nst, val |-> o.v, ver |-> d.nv, oid |-> loc[t].oid]]
                 /\ bad' = IF LiveE(old) /\ d.nv <= old.ver THEN bad \cup {"stale-write"} ELSE bad
                 /\ Goto(t, "notify")
                 /\ UNCHANGED <<wat, wk, inbox, clock>>
       [] s = "readold" /\ o.op = "remove" ->
            LET old == mem[o.k] IN
            IF ~Exists(old)
            THEN /\ Goto(t, "rmnotify") /\ UNCHANGED <<mem, wat, wk, inbox, loc, clock, bad>>
            ELSE IF old.st = "New"
            THEN /\ Goto(t, "rmdrop") /\ UNCHANGED <<mem, wat, wk, inbox, loc, clock, bad>>
            ELSE /\ loc' = [loc EXCEPT ![t].old = old, ![t].nv = old.ver + 1, ![t].nst = "Deleted",
                                       ![t].val = "<Empty>", ![t].oid = old.oid]
                 /\ Goto(t, "write")
                 /\ UNCHANGED <<mem, wat, wk, inbox, clock, bad>>
       [] s = "rmatomic" ->
            LET old == mem[o.k] IN
            /\ mem' = [mem EXCEPT ![o.k] =
                         IF ~Exists(old) \/ old.st = "New" THEN Absent
                         ELSE [st |-> "Deleted", val |-> "<Empty>", ver |-> old.ver + 1, oid |-> old.oid]]
            /\ Goto(t, "rmnotify")
            /\ UNCHANGED <<wat, wk, inbox, loc, clock, bad>>
       [] s = "write" ->
            /\ DoWrite(t, o.k)
            /\ Goto(t, IF o.op = "remove" THEN "rmnotify" ELSE "notify")
            /\ UNCHANGED <<wat, wk, inbox, loc, clock>>
       [] s = "rmdrop" ->
            /\ mem' = [mem EXCEPT ![o.k] = Absent]
            /\ Goto(t, "rmnotify")
            /\ UNCHANGED <<wat, wk, inbox, loc, clock, bad>>
       [] s = "inc" ->
            LET old == mem[o.k] IN
            IF ~LiveE(old) \/ IsInt(old.val)
            THEN LET nv == ToString((IF LiveE(old) THEN ToInt(old.val) ELSE 0) + o.n) IN
                 /\ mem' = [mem EXCEPT ![o.k] = IF Exists(old)
                                                   THEN [st |-> UpdSt(old), val |-> nv, ver |-> old.ver + 1, oid |-> clock + 1]
                                                   ELSE [st |-> "New", val |-> nv, ver |-> 1, oid |-> clock + 1]]
                 /\ clock' = clock + 1
                 /\ loc' = [loc EXCEPT ![t].val = nv, ![t].nv = -1]
                 /\ Goto(t, "notify")
                 /\ UNCHANGED <<wat, wk, inbox, bad>>
            ELSE /\ loc' = [loc EXCEPT ![t].val = "#refused"]
                 /\ Goto(t, "repl")
                 /\ UNCHANGED <<mem, wat, wk, inbox, clock, bad>>
       [] s = "notify" ->
            /\ Notify(o.k, loc[t].val, loc[t].nv)
            /\ Goto(t, "repl")
            /\ UNCHANGED <<mem, wat, wk, loc, clock, bad>>
       [] s = "rmnotify" ->
            /\ NotifyRemoved(o.k)
            /\ Goto(t, "repl")
            /\ UNCHANGED <<mem, wat, wk, loc, clock, bad>>
       [] s = "getread" ->
            /\ loc' = [loc EXCEPT ![t].val = IF LiveE(mem[o.k]) THEN mem[o.k].val ELSE "<Empty>"]
            /\ Goto(t, "repl")
            /\ UNCHANGED <<mem, wat, wk, inbox, clock, bad>>
       [] s = "watchw" ->
            /\ wat' = [wat EXCEPT ![o.k] = Append(@, t)]
            /\ wk' = wk \cup {o.k}
            /\ Goto(t, "repl")
            /\ UNCHANGED <<mem, inbox, loc, clock, bad>>
       [] s = "uacopy" ->
            LET ks == SetToSeqSorted(wk) IN
            /\ loc' = [loc EXCEPT ![t].keys = ks]
            /\ Goto(t, IF ks = <<>> THEN "repl" ELSE "senders")
            /\ UNCHANGED <<mem, wat, wk, inbox, clock, bad>>
       [] s = "senders" ->
            LET k == IF o.op = "unwatch" THEN o.k ELSE Head(loc[t].keys) IN
            IF AtomicUnwatch
            THEN /\ wat' = [wat EXCEPT ![k] = SelectSeq(@, LAMBDA x : x # t)]
                 /\ wk' = wk \cup {k}
                 /\ loc' = [loc EXCEPT ![t].keys = IF o.op = "unwatch" THEN <<>> ELSE Tail(@)]
                 /\ Goto(t, IF o.op # "unwatch" /\ Len(loc[t].keys) > 1 THEN "senders" ELSE "repl")
                 /\ UNCHANGED <<mem, inbox, clock, bad>>
            ELSE /\ loc' = [loc EXCEPT ![t].senders = wat[k]]
                 /\ Goto(t, "insert")
                 /\ UNCHANGED <<mem, wat, wk, inbox, clock, bad>>
       [] s = "insert" ->
            LET k == IF o.op = "unwatch" THEN o.k ELSE Head(loc[t].keys)
                new == SelectSeq(loc[t].senders, LAMBDA x : x # t) IN
            /\ wat' = [wat EXCEPT ![k] = new]
            /\ wk' = wk \cup {k}
            \* ghost: a registration made since the copy is dropped
            /\ bad' = IF \E x \in Tasks \ {t} :
                           Cardinality({j \in DOMAIN wat[k] : wat[k][j] = x}) >
                           Cardinality({j \in DOMAIN new : new[j] = x})
                      THEN bad \cup {"lost-subscription"} ELSE bad
            /\ loc' = [loc EXCEPT ![t].keys = IF o.op = "unwatch" THEN <<>> ELSE Tail(@)]
            /\ Goto(t, IF o.op # "unwatch" /\ Len(loc[t].keys) > 1 THEN "senders" ELSE "repl")
            /\ UNCHANGED <<mem, inbox, clock>>
       [] s = "repl" ->
            IF o.op = "close"
            THEN /\ Goto(t, "c1") /\ UNCHANGED <<mem, wat, wk, inbox, loc, clock, bad>>
            ELSE /\ Finish(t, [op |-> o.op, val |-> loc[t].val])
                 /\ UNCHANGED <<mem, wat, wk, inbox, loc, clock, bad>>
       [] s = "c1" -> Goto(t, "c2") /\ UNCHANGED <<mem, wat, wk, inbox, loc, clock, bad>>
       [] s = "c2" -> Goto(t, "c3") /\ UNCHANGED <<mem, wat, wk, inbox, loc, clock, bad>>
       [] s = "c3" -> Finish(t, [op |-> o.op, val |-> ""]) /\ UNCHANGED <<mem, wat, wk, inbox, loc, clock, bad>>

Next == \E t \in Tasks : Step(t)

Spec == Init /\ [][Next]_vars

AllDone == \A t \in Tasks : ~Running(t)

(* Design-level properties (C02, C03) *)
NoStaleWrite == "stale-write" \notin bad
NoLostSubscription == "lost-subscription" \notin bad

(* one line per complete behaviour *)
EmitSchedule == AllDone => PrintT(<<"CASE", ToJson(sched)>>)
=============================================================================
