---------------------------- MODULE NunDiskBytes ----------------------------
(***************************************************************************)
(* Byte-level vocabulary of the disk storage strategy (storage/disk.rs):   *)
(* record encodings, std::io::BufWriter's buffering rule, the snapshot     *)
(* write plan of storage_data_disk compiled into the sequence of its       *)
(* file-system calls (one instruction per call, labelled with the          *)
(* crash_point that follows it in the code), the effect of an instruction  *)
(* on the files, and the loader create_db_from_file_name on arbitrary      *)
(* (torn) files, including its short-read behaviour: every read result is  *)
(* ignored, the length / version / address buffers keep what an earlier    *)
(* read left in them, the value length is read into the buffer that held   *)
(* the key length.                                                         *)
(*                                                                         *)
(* A file is [ex |-> BOOLEAN, b |-> sequence of bytes 0..255].             *)
(* Files of one database: K (.keys), KO (.keys.old), V (.values),          *)
(* VO (.values.old), M (.madadata).                                        *)
(***************************************************************************)
EXTENDS Integers, Sequences, FiniteSets

CONSTANT Cap            \* capacity of the two append BufWriters (OP_RECORD_SIZE * 10 = 250)

Min(a, b) == IF a < b THEN a ELSE b
Zeros(n) == [i \in 1..n |-> 0]
Huge == -7              \* a decoded unsigned number that does not fit TLC's integers
MaxModelAlloc == 200000 \* the loader model does not follow allocations above this

(* ---------- encodings ---------- *)
LE8(n) == <<n % 256, (n \div 256) % 256, (n \div 65536) % 256, (n \div 16777216) % 256, 0, 0, 0, 0>>
LE4(v) == IF v >= 0 THEN <<v % 256, (v \div 256) % 256, (v \div 65536) % 256, (v \div 16777216) % 256>>
          ELSE LET w == (v + 2147483647) + 1 IN      \* v + 2^31, two's complement
               <<w % 256, (w \div 256) % 256, (w \div 65536) % 256, ((w \div 16777216) % 256) + 128>>
DecU64(b) == IF b[5] = 0 /\ b[6] = 0 /\ b[7] = 0 /\ b[8] = 0 /\ b[4] < 128
             THEN b[1] + 256 * b[2] + 65536 * b[3] + 16777216 * b[4] ELSE Huge
TopBit64(b) == b[8] >= 128
DecI32(b) == IF b[4] < 128 THEN b[1] + 256 * b[2] + 65536 * b[3] + 16777216 * b[4]
             ELSE ((b[1] + 256 * b[2] + 65536 * b[3] + 16777216 * (b[4] - 128)) - 2147483647) - 1

ValueRec(v) == LE8(Len(v)) \o v \o LE4(0)                 \* ValueStatus::Ok = 0
KeyRec(k, ver, va) == LE8(Len(k)) \o k \o LE4(ver) \o LE8(va)
KeyRecSize(k) == 20 + Len(k)
ValueRecSize(v) == 12 + Len(v)

(* ---------- UTF-8 validity (str::from_utf8) ---------- *)
(* Stated position by position (no recursion over the bytes): every lead byte is followed by   *)
(* its continuation bytes (with the restricted range of the first one after E0, ED, F0, F4),   *)
(* every continuation byte belongs to a lead byte at most three positions before it, and no    *)
(* byte is one that never occurs (C0, C1, F5..FF).                                             *)
IsCont(s, j) == j >= 1 /\ j <= Len(s) /\ s[j] >= 128 /\ s[j] < 192
LeadLen(b) == IF b < 128 THEN 1 ELSE IF b >= 194 /\ b <= 223 THEN 2 ELSE IF b >= 224 /\ b <= 239 THEN 3
              ELSE IF b >= 240 /\ b <= 244 THEN 4 ELSE 0        \* 0: continuation or invalid byte
ValidUtf8(s) ==
  \/ \A i \in 1..Len(s) : s[i] < 128
  \/ \A i \in 1..Len(s) :
        LET b == s[i] n == LeadLen(b) IN
        IF n = 1 THEN TRUE
        ELSE IF n = 0
        THEN /\ b >= 128 /\ b < 192
             /\ \E d \in 1..3 : /\ i - d >= 1 /\ LeadLen(s[i - d]) > d
                                /\ \A m \in 1..(d - 1) : IsCont(s, i - d + m)
        ELSE /\ \A m \in 1..(n - 1) : IsCont(s, i + m)
             /\ (b = 224 => s[i + 1] >= 160) /\ (b = 237 => s[i + 1] < 160)
             /\ (b = 240 => s[i + 1] >= 144) /\ (b = 244 => s[i + 1] < 144)

(* ---------- files ---------- *)
NoFile == [ex |-> FALSE, b |-> <<>>]
FileOf(bytes) == [ex |-> TRUE, b |-> bytes]
FNames == {"K", "KO", "V", "VO", "M"}
NoFiles == [f \in FNames |-> NoFile]
Size(fs, f) == IF fs[f].ex THEN Len(fs[f].b) ELSE 0

AppendTo(fs, f, bytes) == [fs EXCEPT ![f] = FileOf(fs[f].b \o bytes)]
(* pwrite: bytes at offset off (0-based); a hole is filled with zeros *)
WriteAt(fs, f, off, bytes) ==
  LET old == fs[f].b
      n == IF Len(old) > off + Len(bytes) THEN Len(old) ELSE off + Len(bytes)
  IN [fs EXCEPT ![f] = FileOf([i \in 1..n |->
         IF i > off /\ i <= off + Len(bytes) THEN bytes[i - off]
         ELSE IF i <= Len(old) THEN old[i] ELSE 0])]

(* ---------- instructions ---------- *)
(* [op, site, f, f2, off, bytes]; site "" = no crash_point follows this call in the code *)
I(op, site, f, f2, off, bytes) == [op |-> op, site |-> site, f |-> f, f2 |-> f2, off |-> off, bytes |-> bytes]
IRen(site, f, f2) == I("ren", site, f, f2, 0, <<>>)
IRm(site, f) == I("rm", site, f, "", 0, <<>>)
IOpen(f) == I("open", "", f, "", 0, <<>>)                \* open(create): creates an empty file if missing
IBw(site, f, bytes) == I("bw", site, f, "", 0, bytes)    \* write through the BufWriter of f
IWat(site, off, bytes) == I("wat", site, "K", "", off, bytes) \* write_at on the keys file
IFlush(site, f) == I("flush", site, f, "", 0, <<>>)
IMeta(site, off, bytes) == I("meta", site, "M", "", off, bytes)
INop(site) == I("nop", site, "", "", 0, <<>>)

(* state of the writer: files + the two buffers *)
W(fs, kb, vb) == [fs |-> fs, kb |-> kb, vb |-> vb]

BufWrite(w, f, bytes) ==
  LET buf == IF f = "K" THEN w.kb ELSE w.vb
      spare == Cap - Len(buf)
      n == Len(bytes)
      SetBuf(ww, nb) == IF f = "K" THEN [ww EXCEPT !.kb = nb] ELSE [ww EXCEPT !.vb = nb]
  IN IF n < spare THEN SetBuf(w, buf \o bytes)
     ELSE LET flushed == n > spare
              w1 == IF flushed /\ Len(buf) > 0
                    THEN SetBuf([w EXCEPT !.fs = AppendTo(w.fs, f, buf)], <<>>)
                    ELSE IF flushed THEN SetBuf(w, <<>>) ELSE w
              buf1 == IF flushed THEN <<>> ELSE buf
          IN IF n >= Cap THEN [w1 EXCEPT !.fs = AppendTo(w1.fs, f, bytes)]
             ELSE SetBuf(w1, buf1 \o bytes)

Exec(w, ins) ==
  CASE ins.op = "ren"   -> [w EXCEPT !.fs = [w.fs EXCEPT ![ins.f2] = w.fs[ins.f], ![ins.f] = NoFile]]
    [] ins.op = "rm"    -> [w EXCEPT !.fs = [w.fs EXCEPT ![ins.f] = NoFile]]
    [] ins.op = "open"  -> IF w.fs[ins.f].ex THEN w ELSE [w EXCEPT !.fs = [w.fs EXCEPT ![ins.f] = FileOf(<<>>)]]
    [] ins.op = "bw"    -> BufWrite(w, ins.f, ins.bytes)
    [] ins.op = "wat"   -> [w EXCEPT !.fs = WriteAt(w.fs, "K", ins.off, ins.bytes)]
    [] ins.op = "flush" -> IF ins.f = "K"
                           THEN (IF Len(w.kb) > 0 THEN [w EXCEPT !.fs = AppendTo(w.fs, "K", w.kb), !.kb = <<>>] ELSE w)
                           ELSE (IF Len(w.vb) > 0 THEN [w EXCEPT !.fs = AppendTo(w.fs, "V", w.vb), !.vb = <<>>] ELSE w)
    [] ins.op = "meta"  -> [w EXCEPT !.fs = IF w.fs["M"].ex THEN WriteAt(w.fs, "M", ins.off, ins.bytes)
                                            ELSE WriteAt([w.fs EXCEPT !["M"] = FileOf(<<>>)], "M", ins.off, ins.bytes)]
    [] OTHER -> w

(* ---------- the write plan of storage_data_disk ---------- *)
(* An in-memory entry: [k, v (bytes), ver, st, va, ka].                                *)
(* `ents`: the entries get_keys_to_update returns, in the order the hash map hands     *)
(* them out.  PlanKeys returns <<instructions, entries as they are in memory after>>.  *)
ValueWrites(v) == << IBw("value.write.len", "V", LE8(Len(v))), IBw("value.write.bytes", "V", v),
                     IBw("value.write.status", "V", LE4(0)) >>
KeyWrites(k, ver, va) == << IBw("key.write.len", "K", LE8(Len(k))), IBw("key.write.bytes", "K", k),
                            IBw("key.write.version", "K", LE4(ver)), IBw("key.write.addr", "K", LE8(va)) >>
KeyUpdate(k, ver, va, ka) == << IWat("key.update.version", ka + 8 + Len(k), LE4(ver)),
                                IWat("key.update.addr", ka + 12 + Len(k), LE8(va)) >>

RECURSIVE PlanKeys(_, _, _, _, _, _, _)
PlanKeys(ents, i, reclaim, vaddr, kaddr, ins, out) ==
  IF i > Len(ents) THEN <<ins, out>>
  ELSE LET e == ents[i] IN
    IF e.st = "New" \/ (e.st = "Ok" /\ reclaim)
    THEN PlanKeys(ents, i + 1, reclaim, vaddr + ValueRecSize(e.v), kaddr + KeyRecSize(e.k),
                  ins \o ValueWrites(e.v) \o KeyWrites(e.k, e.ver, vaddr),
                  Append(out, [e EXCEPT !.st = "Ok", !.va = vaddr, !.ka = kaddr]))
    ELSE IF e.st = "Updated" /\ ~reclaim
    THEN PlanKeys(ents, i + 1, reclaim, vaddr + ValueRecSize(e.v), kaddr,
                  ins \o ValueWrites(e.v) \o KeyUpdate(e.k, e.ver, vaddr, e.ka),
                  Append(out, [e EXCEPT !.st = "Ok", !.va = vaddr]))
    ELSE IF e.st = "Updated"
    THEN PlanKeys(ents, i + 1, reclaim, vaddr + ValueRecSize(e.v), kaddr + KeyRecSize(e.k),
                  ins \o ValueWrites(e.v) \o KeyWrites(e.k, e.ver, vaddr),
                  Append(out, [e EXCEPT !.st = "Ok", !.va = vaddr, !.ka = kaddr]))
    ELSE IF e.st = "Deleted" /\ ~reclaim
    THEN PlanKeys(ents, i + 1, reclaim, vaddr, kaddr,
                  ins \o KeyUpdate(e.k, -1, 0, e.ka), Append(out, e))
    ELSE \* Deleted while reclaiming: nothing is written, the tombstone is forgotten
         PlanKeys(ents, i + 1, reclaim, vaddr, kaddr, ins, out)

(* the whole of storage_data_disk + remove_backup_key_file for one database *)
Plan(fs, ents, reclaim, id, strategy) ==
  LET pre == (IF reclaim /\ fs["K"].ex THEN <<IRen("keys.rename_old", "K", "KO")>> ELSE <<>>)
             \o <<IOpen("K")>>
             \o (IF reclaim /\ fs["V"].ex THEN <<IRen("values.rename_old", "V", "VO"), IRm("values.remove_old", "VO")>> ELSE <<>>)
             \o <<IOpen("V"), INop("snapshot.files_open")>>
      vsize == IF reclaim THEN 0 ELSE Size(fs, "V")
      ksize == IF reclaim THEN 0 ELSE Size(fs, "K")
      pk == PlanKeys(ents, 1, reclaim, vsize, ksize, <<>>, <<>>)
      post == << IFlush("snapshot.keys.flush", "K"), INop("snapshot.keys_inplace.flush"),
                 IFlush("snapshot.values.flush", "V"),
                 IMeta("meta.write.id", 0, LE8(id)), IMeta("meta.write.strategy", 8, LE4(strategy)),
                 INop("snapshot.done") >>
      hadOld == (reclaim /\ fs["K"].ex) \/ fs["KO"].ex
  IN [ins |-> pre \o pk[1] \o post \o (IF hadOld THEN <<IRm("keys_old.remove", "KO")>> ELSE <<>>),
      ents |-> pk[2]]

(* ---------- the loader ---------- *)
Take(b, pos, n) == IF pos >= Len(b) THEN <<>> ELSE SubSeq(b, pos + 1, Min(pos + n, Len(b)))
Fill(buf, got) == got \o SubSeq(buf, Len(got) + 1, Len(buf))

(* result: [st |-> "ok", m |-> set of <<key bytes, value bytes, version>> (last record wins)]     *)
(*         [st |-> "fail"]  (a panic or an aborted allocation: the start-up does not succeed)      *)
(*         [st |-> "unmodelled"] (an allocation the model does not follow)                         *)
Put(acc, k, v, ver) == {t \in acc : t[1] # k} \cup {<<k, v, ver>>}

RECURSIVE LoadLoop(_, _, _, _, _, _, _)
LoadLoop(K, V, pos, lenb, verb, addrb, acc) ==
  LET g == Take(K, pos, 8) IN
  IF Len(g) = 0 THEN [st |-> "ok", m |-> acc]
  ELSE
    LET lenb1 == Fill(lenb, g)
        klen == DecU64(lenb1)
        p1 == pos + Len(g)
    IN IF klen = Huge THEN [st |-> "fail"]
       ELSE IF klen > MaxModelAlloc THEN [st |-> "unmodelled"]
       ELSE
         LET kg == Take(K, p1, klen)
             key == kg \o Zeros(klen - Len(kg))
             p2 == p1 + Len(kg)
         IN IF ~ValidUtf8(key) THEN [st |-> "fail"]
            ELSE
              LET vg == Take(K, p2, 4)
                  verb1 == Fill(verb, vg)
                  ver == DecI32(verb1)
                  p3 == p2 + Len(vg)
                  ag == Take(K, p3, 8)
                  addrb1 == Fill(addrb, ag)
                  p4 == p3 + Len(ag)
                  vaddr == DecU64(addrb1)
              IN IF TopBit64(addrb1) THEN [st |-> "fail"]       \* seek beyond i64::MAX: EINVAL, unwrap
                 ELSE
                   LET lg == IF vaddr = Huge THEN <<>> ELSE Take(V, vaddr, 8)
                       lenb2 == Fill(lenb1, lg)
                       vlen == DecU64(lenb2)
                   IN IF vlen = Huge THEN [st |-> "fail"]
                      ELSE IF vlen > MaxModelAlloc THEN [st |-> "unmodelled"]
                      ELSE
                        LET bg == IF vaddr = Huge THEN <<>> ELSE Take(V, vaddr + Len(lg), vlen)
                            val == bg \o Zeros(vlen - Len(bg))
                        IN IF ~ValidUtf8(val) THEN [st |-> "fail"]
                           ELSE LoadLoop(K, V, p4, lenb2, verb1, addrb1,
                                         IF ver = -1 THEN acc ELSE Put(acc, key, val, ver))

(* start-up on the files of one database.  `others`: number of databases loaded before it      *)
(* (the identifier a database without metadata file gets)                                        *)
LoadDb(fs, others) ==
  IF ~fs["K"].ex THEN [st |-> "absent"]
  ELSE IF ~fs["V"].ex THEN [st |-> "fail"]
  ELSE LET r == LoadLoop(fs["K"].b, fs["V"].b, 0, Zeros(8), Zeros(4), Zeros(8), {})
           mb == fs["M"].b
           idb == Fill(Zeros(8), Take(mb, 0, 8))
           sb == Fill(Zeros(4), Take(mb, Len(Take(mb, 0, 8)), 4))
           sv == DecI32(sb)
       IN IF r.st # "ok" THEN r
          ELSE [st |-> "ok", m |-> r.m,
                id |-> IF fs["M"].ex THEN DecU64(idb) ELSE others,
                strategy |-> IF fs["M"].ex THEN (IF sv = 2 THEN 2 ELSE IF sv = 1 THEN 1 ELSE 0) ELSE 1]
=============================================================================
