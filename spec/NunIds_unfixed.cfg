SPECIFICATION Spec
CONSTANTS
  Keys = {"a", "b", "c"}
  MaxLen = 10
  Fixed = FALSE
INVARIANT Decodes
VIEW View
CHECK_DEADLOCK FALSE
