------------------------------ MODULE MC_Watch ------------------------------
(***************************************************************************)
(* Subscriptions across databases and disconnects, sequentially (C03).     *)
(* Sessions watch key k of the database they have selected, select the     *)
(* other database, unwatch, unwatch-all, disconnect; two writer sessions   *)
(* (one per database) write k.                                             *)
(*                                                                         *)
(* Reference: sub[d] = sessions subscribed to k of d, from their watch     *)
(* until their unwatch / unwatch-all issued with d selected, or their      *)
(* disconnect.  Implementation-shaped: wl[d] = the watcher list of k in d  *)
(* (db_ops::watch_key appends; unwatch / unwatch-all remove the session    *)
(* from the list of the *selected* database; the end of a connection runs  *)
(* unwatch-all on the selected database only, so an entry in the list of a *)
(* database the session has left stays there with a closed channel).  A    *)
(* write is notified to every entry whose channel is open; a closed one    *)
(* fails on its own and stops nobody else.  Invariant Notified: the open   *)
(* entries of wl[d] are exactly sub[d].                                    *)
(***************************************************************************)
EXTENDS Integers, Sequences, FiniteSets, TLC, Json

CONSTANTS Sessions, Dbs, MaxLen

VARIABLES sel,    \* [Sessions -> Dbs]  (every session starts with "d" selected)
          gone,   \* sessions that disconnected
          wl,     \* [Dbs -> sequence of sessions]
          sub,    \* [Dbs -> set of sessions]   (reference)
          nw,     \* number of writes so far (values are distinguishable)
          kst,    \* what the node holds for k of database d: "New" | "Ok" (on disk) | "Tomb" (removed, on disk) |
                  \* no entry: "Gone" (a New entry dropped by remove) | "Forgotten" (a tombstone forgotten by a reclaiming
                  \* snapshot) -- the same state of the node, reached through different code: kept apart so that TLC
                  \* explores what follows each
          hist
vars == <<sel, gone, wl, sub, nw, kst, hist>>

Token(d) == IF d = "d" THEN "tok" ELSE "tok2"
Writer(d) == IF d = "d" THEN "wd" ELSE "we"
Without(s, x) == SelectSeq(s, LAMBDA y : y # x)
InSeq(s, x) == \E i \in DOMAIN s : s[i] = x

Init ==
  /\ sel = [s \in Sessions |-> "d"]
  /\ gone = {}
  /\ wl = [d \in Dbs |-> <<>>]
  /\ sub = [d \in Dbs |-> {}]
  /\ nw = 0
  /\ kst = "New"
  /\ hist = <<>>

Log(c, rec) == hist' = Append(hist, rec @@ [c |-> c])

Watch(s) ==
  /\ s \notin gone /\ ~InSeq(wl[sel[s]], s)          \* a client never watches a key it already watches
  /\ Log(s, [op |-> "watch", k |-> "k"])
  /\ wl' = [wl EXCEPT ![sel[s]] = Append(@, s)]
  /\ sub' = [sub EXCEPT ![sel[s]] = @ \cup {s}]
  /\ UNCHANGED <<sel, gone, nw, kst>>

Unwatch(s, all) ==
  /\ s \notin gone
  /\ Log(s, IF all THEN [op |-> "unwatch-all"] ELSE [op |-> "unwatch", k |-> "k"])
  /\ wl' = [wl EXCEPT ![sel[s]] = Without(@, s)]
  /\ sub' = [sub EXCEPT ![sel[s]] = @ \ {s}]
  /\ UNCHANGED <<sel, gone, nw, kst>>

Select(s, d) ==
  /\ s \notin gone /\ sel[s] # d
  /\ Log(s, [op |-> "use-db", d |-> d, tok |-> Token(d), u |-> "-"])
  /\ sel' = [sel EXCEPT ![s] = d]
  /\ UNCHANGED <<gone, wl, sub, nw, kst>>

Close(s) ==
  /\ s \notin gone
  /\ Log(s, [op |-> "close"])
  /\ gone' = gone \cup {s}
  /\ wl' = [wl EXCEPT ![sel[s]] = Without(@, s)]     \* unwatch-all on the selected database only
  /\ sub' = [d \in Dbs |-> sub[d] \ {s}]             \* reference: a disconnect ends every subscription
  /\ UNCHANGED <<sel, nw, kst>>

Write(d, kind) ==
  /\ nw < 3
  /\ Log(Writer(d), CASE kind = "set" -> [op |-> "set", k |-> "k", v |-> "v" \o ToString(nw + 1)]
                      [] kind = "remove" -> [op |-> "remove", k |-> "k"]
                      [] OTHER -> [op |-> "increment", k |-> "n", n |-> 1])
  /\ nw' = nw + 1
  /\ kst' = IF d # "d" THEN kst
            ELSE IF kind = "remove" THEN (IF kst \in {"Ok", "Tomb"} THEN "Tomb" ELSE IF kst = "New" THEN "Gone" ELSE kst)
            ELSE (IF kst \in {"Gone", "Forgotten"} THEN "New" ELSE IF kst = "Tomb" THEN "Ok" ELSE kst)
  /\ UNCHANGED <<sel, gone, wl, sub>>

(* a snapshot of database d and the declutter tick that runs it: the key reaches the disk; a reclaiming one forgets *)
(* the tombstone of a removed key.  Subscriptions are not its business: neither the reference nor the watcher    *)
(* lists change                                                                                                    *)
Snap(reclaim) ==
  /\ hist' = hist \o << [c |-> "a", op |-> "snapshot", reclaim |-> reclaim, names |-> <<"d">>], [c |-> "-", op |-> "tick"] >>
  /\ kst' = IF kst = "New" THEN "Ok" ELSE IF kst = "Tomb" /\ reclaim THEN "Forgotten" ELSE kst
  /\ UNCHANGED <<sel, gone, wl, sub, nw>>

Next ==
  /\ Len(hist) < MaxLen
  /\ \/ \E s \in Sessions : Watch(s) \/ Close(s) \/ \E a \in BOOLEAN : Unwatch(s, a)
     \/ \E s \in Sessions, d \in Dbs : Select(s, d)
     \/ \E d \in Dbs, kind \in {"set", "remove"} : Write(d, kind)
     \/ \E r \in BOOLEAN : Snap(r)

Spec == Init /\ [][Next]_vars

(* who a write to k of d is delivered to *)
Delivered(d) == {wl[d][i] : i \in {j \in DOMAIN wl[d] : wl[d][j] \notin gone}}
Notified == \A d \in Dbs : Delivered(d) = sub[d]
(* an entry with a closed channel can be left behind, and it can stand before a live one *)
DeadBeforeLive == \E d \in Dbs : \E i, j \in DOMAIN wl[d] : i < j /\ wl[d][i] \in gone /\ wl[d][j] \notin gone

View == <<sel, gone, wl, sub, nw, kst>>
Emit == PrintT(<<"CASE", ToJson(hist')>>)
=============================================================================
