---------------------------- MODULE Trace_Restore ----------------------------
(***************************************************************************)
(* C06 (and C18 with the S3 strategies).  Reference NunDiskAbs:            *)
(*   persisted[d] = the database d as its clients saw it when its last     *)
(*                  snapshot completed (live keys with value and version,  *)
(*                  identifier, conflict strategy);                        *)
(*   a restart succeeds and yields, for every d that was ever snapshotted, *)
(*   exactly persisted[d].                                                 *)
(* Commands between snapshots are not judged here (C01 does that).         *)
(***************************************************************************)
EXTENDS Integers, Sequences, FiniteSets, TLC, Json, IOUtils

Rec == ndJsonDeserialize(IOEnv.TRACE)
Cfg == JsonDeserialize(IOEnv.CFG)
Devs == {Cfg.devs[i] : i \in DOMAIN Cfg.devs}

VARIABLES l, persisted, queue, upfail, strat, seen, attempt, used
tvars == <<l, persisted, queue, upfail, strat, seen, attempt, used>>
E == Rec[l]

Success(cls) == cls \in {"ok", "value"}

(* what clients can see of a database *)
Proj(db) == [id |-> db.id, strategy |-> db.strategy,
             keys |-> [k \in {j \in DOMAIN db.keys : db.keys[j][3] # "Deleted"} |->
                         <<db.keys[k][1], db.keys[k][2]>>]]

TraceInit == l = 1 /\ persisted = <<>> /\ queue = {} /\ upfail = FALSE /\ strat = "disk" /\ seen = {} /\ attempt = <<>> /\ used = {} /\ TLCSet(1, 0)

(* the storage strategy of the run (C18 cases carry it; everything else runs on disk) *)
StratOf(e) == IF "meta" \in DOMAIN e THEN (IF "s3" \in DOMAIN e.meta THEN e.meta.s3 ELSE "disk") ELSE "disk"
Reset == /\ E.ev = "reset" /\ persisted' = <<>> /\ queue' = {} /\ upfail' = FALSE /\ used' = {}
         /\ strat' = StratOf(E) /\ seen' = {} /\ attempt' = <<>>
         /\ ((used # {}) => PrintT(<<"USED", Rec[l-1].run, used>>))

SnapshotCmd ==
  /\ E.ev = "cmd" /\ E.op = "snapshot" /\ Success(E.cls)
  /\ queue' = queue \cup {E.names[i] : i \in DOMAIN E.names}
  /\ UNCHANGED <<persisted, upfail, strat, seen, attempt, used>>

OtherCmd ==
  /\ E.ev \in {"cmd", "close"} /\ ~(E.op = "snapshot" /\ Success(E.cls))
  /\ UNCHANGED <<persisted, queue, upfail, strat, seen, attempt, used>>

TickDone ==
  /\ E.ev = "tick" /\ E.cls = "ok"
  /\ persisted' = [d \in DOMAIN persisted \cup (queue \cap DOMAIN E.dbs) |->
                     IF d \in queue THEN Proj(E.dbs[d]) ELSE persisted[d]]
  /\ queue' = {}
  /\ upfail' = (upfail \/ E.putfail)
  \* every (key, value, version) a snapshot run wrote out (what a stale object can contain)
  /\ seen' = seen \cup UNION {{<<d, k, Proj(E.dbs[d]).keys[k]>> : k \in DOMAIN Proj(E.dbs[d]).keys} : d \in (queue \cap DOMAIN E.dbs)}
  /\ attempt' = [d \in DOMAIN attempt \ queue |-> attempt[d]]     \* a completed snapshot supersedes a failed attempt
  /\ UNCHANGED <<strat, used>>

(* C18: an upload that still fails after the retries is reported (the snapshot run ends *)
(* with a panic); nothing is considered persisted by it                                 *)
TickFailed ==
  /\ E.ev = "tick" /\ E.cls # "ok"
  \* (the panic poisons the snapshot queue lock: every later snapshot run of this process fails too)
  /\ "S3" \in {Cfg.checks[i] : i \in DOMAIN Cfg.checks} /\ (E.putfail \/ upfail)
  /\ queue' = {} /\ upfail' = TRUE
  \* what the failed run tried to store: some of its objects may have been accepted before the failure
  /\ attempt' = [d \in DOMAIN attempt \cup (queue \cap DOMAIN E.dbs) |->
                   IF d \in queue /\ d \in DOMAIN E.dbs THEN Proj(E.dbs[d]) ELSE attempt[d]]
  /\ UNCHANGED <<persisted, strat, seen, used>>

(* after a *reported* upload failure the objects of the failed run that were accepted before it are  *)
(* in place next to the older ones: every key comes back with the value of the last completed        *)
(* snapshot or of the reported attempt, and a key that both contain is not lost                      *)
MixKeysOK(d) ==
  LET r == Proj(E.dbs[d])
      p == persisted[d]
      a == attempt[d]
  IN /\ \A k \in DOMAIN r.keys : \/ (k \in DOMAIN p.keys /\ r.keys[k] = p.keys[k])
                                  \/ (k \in DOMAIN a.keys /\ r.keys[k] = a.keys[k])
     /\ \A k \in DOMAIN p.keys \cap DOMAIN a.keys : k \in DOMAIN r.keys
MixOK(d) == /\ Proj(E.dbs[d]).id = persisted[d].id /\ Proj(E.dbs[d]).strategy = persisted[d].strategy
            /\ MixKeysOK(d)
RestoredExactly == \A d \in DOMAIN persisted :
                      /\ d \in DOMAIN E.dbs
                      /\ \/ Proj(E.dbs[d]) = persisted[d]
                         \/ (d \in DOMAIN attempt /\ MixOK(d))

RestartOK ==
  /\ E.ev = "restart" /\ E.cls = "ok"
  /\ RestoredExactly = TRUE
  /\ queue' = {}
  /\ UNCHANGED <<persisted, upfail, strat, seen, attempt, used>>

(* ---------------- known findings (C18) ---------------- *)
S3On == "S3" \in {Cfg.checks[i] : i \in DOMAIN Cfg.checks}
KeysSame(d) == \/ Proj(E.dbs[d]).keys = persisted[d].keys
               \/ (d \in DOMAIN attempt /\ MixKeysOK(d))       \* after a reported upload failure
MetaHard(d) == E.dbs[d].id = 1 /\ E.dbs[d].strategy = "arbiter"
SubsetKeys(d) == \A k \in DOMAIN Proj(E.dbs[d]).keys :
                    k \in DOMAIN persisted[d].keys /\ Proj(E.dbs[d]).keys[k] = persisted[d].keys[k]

(* both S3 loaders give every database the identifier 1 and the arbiter strategy *)
Dev_S3MetaHardcoded ==
  /\ "Dev_S3MetaHardcoded" \in Devs /\ S3On
  /\ E.ev = "restart" /\ E.cls = "ok" /\ RestoredExactly = FALSE
  /\ (\A d \in DOMAIN persisted : d \in DOMAIN E.dbs /\ KeysSame(d) /\ (Proj(E.dbs[d]) = persisted[d] \/ MetaHard(d))) = TRUE
  /\ queue' = {} /\ UNCHANGED <<persisted, upfail, strat, seen, attempt>>
  /\ used' = used \cup {"Dev_S3MetaHardcoded"}

(* strategy s3: an incremental snapshot replaces both objects with only the changed keys: *)
(* keys untouched since the previous snapshot are gone after the restart                  *)
Dev_S3IncrementalReplaces ==
  /\ "Dev_S3IncrementalReplaces" \in Devs /\ S3On /\ ~upfail
  /\ E.ev = "restart" /\ E.cls = "ok" /\ RestoredExactly = FALSE
  /\ (\E d \in DOMAIN persisted : d \in DOMAIN E.dbs /\ ~KeysSame(d)) = TRUE
  /\ (\A d \in DOMAIN persisted : d \in DOMAIN E.dbs /\ SubsetKeys(d)
                                    /\ ((Proj(E.dbs[d]).id = persisted[d].id /\ Proj(E.dbs[d]).strategy = persisted[d].strategy)
                                        \/ MetaHard(d))) = TRUE
  /\ queue' = {} /\ UNCHANGED <<persisted, upfail, strat, seen, attempt>>
  /\ used' = used \cup {"Dev_S3IncrementalReplaces"}

(* strategy s3: a failed PutObject is ignored: the snapshot completes, the data is not there *)
(* (the partitioned strategy retries a failed upload and panics when it keeps failing)      *)
Dev_S3PutFailureSilent ==
  /\ "Dev_S3PutFailureSilent" \in Devs /\ S3On /\ upfail /\ strat = "s3"
  /\ E.ev = "restart" /\ E.cls = "ok" /\ RestoredExactly = FALSE
  \* (missing, stale, or -- when one of the two objects of a database was refused -- key records paired
  \* with the value records of another snapshot: nothing can be said about the restored content)
  /\ queue' = {} /\ UNCHANGED <<persisted, upfail, strat, seen, attempt>>
  /\ used' = used \cup {"Dev_S3PutFailureSilent"}

(* the same finding, other manifestation: strategy s3 stores a database as two objects (keys,   *)
(* values); when exactly one of the two uploads failed silently the pair no longer fits and the *)
(* loader gives up at the next start: the run ends there                                        *)
Dev_S3PutFailureSilent_NoStart ==
  /\ "Dev_S3PutFailureSilent" \in Devs /\ S3On /\ upfail /\ strat = "s3"
  /\ E.ev = "restart" /\ E.cls # "ok"
  /\ queue' = {} /\ UNCHANGED <<persisted, upfail, strat, seen, attempt>>
  /\ used' = used \cup {"Dev_S3PutFailureSilent"}
Abandoned ==
  /\ E.ev = "abandon" /\ "Dev_S3PutFailureSilent" \in used
  /\ UNCHANGED <<persisted, queue, upfail, strat, seen, attempt, used>>

TraceNext == l <= Len(Rec) /\ l' = l + 1 /\ (Reset \/ SnapshotCmd \/ OtherCmd \/ TickDone \/ TickFailed \/ RestartOK
              \/ Dev_S3MetaHardcoded \/ Dev_S3IncrementalReplaces \/ Dev_S3PutFailureSilent
              \/ Dev_S3PutFailureSilent_NoStart \/ Abandoned)
TraceSpec == TraceInit /\ [][TraceNext]_tvars

Progress ==
  /\ (l > TLCGet(1)) => TLCSet(1, l)
  /\ (l = Len(Rec) + 1 /\ used # {}) => PrintT(<<"USED", Rec[l-1].run, used>>)

TraceAccepted ==
  IF TLCGet(1) = Len(Rec) + 1
  THEN PrintT(<<"ACCEPTED", Len(Rec)>>)
  ELSE PrintT(<<"REJECTED", TLCGet(1), Rec[TLCGet(1)].run, Rec[TLCGet(1)].i>>) /\ FALSE
=============================================================================
