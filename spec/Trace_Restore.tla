---------------------------- MODULE Trace_Restore ----------------------------
(***************************************************************************)
(* C06 (and C18 with the S3 strategies).  Reference NunDiskAbs:            *)
(*   persisted[d] = the database d as its clients saw it when its last     *)
(*                  snapshot completed (live keys with value and version,  *)
(*                  identifier, conflict strategy);                        *)
(*   a restart succeeds and yields, for every d that was ever snapshotted, *)
(*   exactly persisted[d].                                                 *)
(* Commands between snapshots are not judged here (C01 does that).         *)
(***************************************************************************)
EXTENDS Integers, Sequences, FiniteSets, TLC, Json, IOUtils

Rec == ndJsonDeserialize(IOEnv.TRACE)
Cfg == JsonDeserialize(IOEnv.CFG)
Devs == {Cfg.devs[i] : i \in DOMAIN Cfg.devs}

VARIABLES l, persisted, queue, used
tvars == <<l, persisted, queue, used>>
E == Rec[l]

Success(cls) == cls \in {"ok", "value"}

(* what clients can see of a database *)
Proj(db) == [id |-> db.id, strategy |-> db.strategy,
             keys |-> [k \in {j \in DOMAIN db.keys : db.keys[j][3] # "Deleted"} |->
                         <<db.keys[k][1], db.keys[k][2]>>]]

TraceInit == l = 1 /\ persisted = <<>> /\ queue = {} /\ used = {} /\ TLCSet(1, 0)

Reset == /\ E.ev = "reset" /\ persisted' = <<>> /\ queue' = {} /\ used' = {}
         /\ ((used # {}) => PrintT(<<"USED", Rec[l-1].run, used>>))

SnapshotCmd ==
  /\ E.ev = "cmd" /\ E.op = "snapshot" /\ Success(E.cls)
  /\ queue' = queue \cup {E.names[i] : i \in DOMAIN E.names}
  /\ UNCHANGED <<persisted, used>>

OtherCmd ==
  /\ E.ev \in {"cmd", "close"} /\ ~(E.op = "snapshot" /\ Success(E.cls))
  /\ UNCHANGED <<persisted, queue, used>>

TickDone ==
  /\ E.ev = "tick" /\ E.cls = "ok"
  /\ persisted' = [d \in DOMAIN persisted \cup (queue \cap DOMAIN E.dbs) |->
                     IF d \in queue THEN Proj(E.dbs[d]) ELSE persisted[d]]
  /\ queue' = {}
  /\ UNCHANGED used

TickFailed ==
  /\ E.ev = "tick" /\ E.cls # "ok"
  /\ FALSE   \* a snapshot that does not complete is reported, not accepted

RestartOK ==
  /\ E.ev = "restart" /\ E.cls = "ok"
  /\ \A d \in DOMAIN persisted : d \in DOMAIN E.dbs /\ Proj(E.dbs[d]) = persisted[d]
  /\ queue' = {}
  /\ UNCHANGED <<persisted, used>>

TraceNext == l <= Len(Rec) /\ l' = l + 1 /\ (Reset \/ SnapshotCmd \/ OtherCmd \/ TickDone \/ TickFailed \/ RestartOK)
TraceSpec == TraceInit /\ [][TraceNext]_tvars

Progress ==
  /\ (l > TLCGet(1)) => TLCSet(1, l)
  /\ (l = Len(Rec) + 1 /\ used # {}) => PrintT(<<"USED", Rec[l-1].run, used>>)

TraceAccepted ==
  IF TLCGet(1) = Len(Rec) + 1
  THEN PrintT(<<"ACCEPTED", Len(Rec)>>)
  ELSE PrintT(<<"REJECTED", TLCGet(1), Rec[TLCGet(1)].run, Rec[TLCGet(1)].i>>) /\ FALSE
=============================================================================
