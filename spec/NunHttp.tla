------------------------------- MODULE NunHttp -------------------------------
(***************************************************************************)
(* C20.  An HTTP request carries commands separated by ';'.  Reference:    *)
(* the non-blank commands are executed once each, in order, by one fresh   *)
(* session; the reply has one entry per command, and entry i is produced   *)
(* by command i alone: its error text if it was refused, else the line it  *)
(* pushed to the client, else "empty".  When the request ends the session  *)
(* is gone (no subscription, no connection counted).                       *)
(*                                                                         *)
(* `outcomes' is the sequence of per-command outcomes [cls, msg, lines] of *)
(* the session-level semantics (NunKV); in trace validation it is bound to *)
(* what the same commands produced one by one on a twin node.              *)
(***************************************************************************)
EXTENDS Integers, Sequences, FiniteSets, TLC

Refused(o) == o.cls \in {"error", "verr"}

(* Reference reply *)
Entry(o) == IF Refused(o) THEN o.msg
            ELSE IF o.lines # <<>> THEN o.lines[1] ELSE "empty"

RefReply(outcomes) == [i \in 1..Len(outcomes) |-> Entry(outcomes[i])]

(* WebSocket: one text frame carries the commands; the replies come back as frames, in the order  *)
(* of the commands: every line a command pushed, then its own `ok' or `error <text>'            *)
WsTerminal(o) == IF Refused(o) THEN "error " \o o.msg \o " \n" ELSE "ok \n"
RECURSIVE WsFrom(_, _)
WsFrom(outcomes, i) == IF i > Len(outcomes) THEN <<>>
                       ELSE outcomes[i].lines \o <<WsTerminal(outcomes[i])>> \o WsFrom(outcomes, i + 1)
WsReply(outcomes) == WsFrom(outcomes, 1)

(* Implementation-shaped reply: one message queue per request; a refused command  *)
(* reports its error text and discards whatever is queued (repaired code: before,  *)
(* the pushed line stayed queued); a successful command pushes its lines and then   *)
(* reports the *head* of the queue (or "empty") and discards the rest (repaired:    *)
(* before, the rest stayed queued and became the entries of later commands).        *)
RECURSIVE ImplFrom(_, _, _)
ImplFrom(outcomes, i, queue) ==
  IF i > Len(outcomes) THEN <<>>
  ELSE LET o == outcomes[i]
           q == queue \o o.lines
       IN IF Refused(o) THEN <<o.msg>> \o ImplFrom(outcomes, i + 1, <<>>)
          ELSE IF q = <<>> THEN <<"empty">> \o ImplFrom(outcomes, i + 1, q)
          ELSE <<Head(q)>> \o ImplFrom(outcomes, i + 1, <<>>)

(* the code before the second repair: the rest of the queue stays *)
RECURSIVE ImplFromOld(_, _, _)
ImplFromOld(outcomes, i, queue) ==
  IF i > Len(outcomes) THEN <<>>
  ELSE LET o == outcomes[i]
           q == queue \o o.lines
       IN IF Refused(o) THEN <<o.msg>> \o ImplFromOld(outcomes, i + 1, <<>>)
          ELSE IF q = <<>> THEN <<"empty">> \o ImplFromOld(outcomes, i + 1, q)
          ELSE <<Head(q)>> \o ImplFromOld(outcomes, i + 1, Tail(q))
ImplReplyOld(outcomes) == ImplFromOld(outcomes, 1, <<>>)
HasMultiPush(outcomes) == \E i \in 1..Len(outcomes) : ~Refused(outcomes[i]) /\ Len(outcomes[i].lines) > 1

ImplReply(outcomes) == ImplFrom(outcomes, 1, <<>>)

(* The finding's scope: some refused command also pushed a line *)
HasRefusedPush(outcomes) == \E i \in 1..Len(outcomes) : Refused(outcomes[i]) /\ outcomes[i].lines # <<>>
=============================================================================
