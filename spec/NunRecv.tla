------------------------------- MODULE NunRecv -------------------------------
(***************************************************************************)
(* What a line arriving on a replication connection does to the data of    *)
(* the node that receives it (parse_request.rs: the parsers of replicate,  *)
(* replicate-remove, replicate-increment, create-db, rp; process_request.rs*)
(* and bo.rs: their handlers), as a function                               *)
(*      Recv(store, ctx, tokens) -> store                                  *)
(* store: [db -> [strategy, keys: [key -> <<value, version, state>>]]]      *)
(* ctx:   [to_role, sess_primary, sess_auth] -- what the receiving session  *)
(*        knows (its node's role, whether set-primary was seen on it)       *)
(* tokens: the line split at every blank.                                   *)
(*                                                                         *)
(* The parsers as they are (recorded finding F26 lives here): `replicate    *)
(* <db> <key> <version> <value...>' takes the third argument as the         *)
(* version -- a word that is not a number gives -1 and is dropped --, the   *)
(* value is what follows; `create-db <name> <token> [strategy]' defaults    *)
(* to strategy none.  The handlers: the version rule of set_value with the  *)
(* database's conflict strategy (none: refused = unchanged; newer: the      *)
(* incoming change is the younger one and is stored with the stored version *)
(* advanced; arbiter without an arbiter: refused), remove_value (an entry    *)
(* that never reached the disk is dropped, any other becomes a tombstone),  *)
(* inc_value, create_db (only from the primary's session or on a primary;   *)
(* an existing database is kept).                                          *)
(***************************************************************************)
EXTENDS Integers, Sequences, FiniteSets, TLC

CONSTANT IntTab      \* [numeric token -> its i32 value] for every token i32::from_str_radix accepts

IsNum(t) == t \in DOMAIN IntTab
RECURSIVE JoinFrom(_, _)
JoinFrom(toks, i) == IF i > Len(toks) THEN ""
                     ELSE IF i = Len(toks) THEN toks[i] ELSE toks[i] \o " " \o JoinFrom(toks, i + 1)
Tok(toks, i) == IF i <= Len(toks) THEN toks[i] ELSE ""

HasDb(s, d) == d \in DOMAIN s
HasKey(s, d, k) == k \in DOMAIN s[d].keys
PutKey(s, d, k, e) == [s EXCEPT ![d].keys = [x \in DOMAIN s[d].keys \cup {k} |-> IF x = k THEN e ELSE s[d].keys[x]]]
DropKey(s, d, k) == [s EXCEPT ![d].keys = [x \in DOMAIN s[d].keys \ {k} |-> s[d].keys[x]]]
UpdState(st) == IF st = "New" THEN "New" ELSE "Updated"

(* Database::set_value through apply_change_to_db_try_fix_conflicts *)
SetKey(s, d, k, v, ver) ==
  IF ~HasKey(s, d, k) THEN PutKey(s, d, k, <<v, ver + 1, "New">>)
  ELSE LET e == s[d].keys[k]
           nv == IF ver = -1 THEN e[2] + 1 ELSE ver + 1
       IN IF nv > e[2] THEN PutKey(s, d, k, <<v, nv, UpdState(e[3])>>)
          ELSE IF s[d].strategy = "newer" THEN PutKey(s, d, k, <<v, e[2] + 1, UpdState(e[3])>>)
          ELSE s                                  \* none: version error; arbiter with nobody registered: error

RemoveKey(s, d, k) ==
  IF k = "$$token" \/ ~HasKey(s, d, k) THEN s
  ELSE LET e == s[d].keys[k] IN
       IF e[3] = "New" THEN DropKey(s, d, k) ELSE PutKey(s, d, k, <<"<Empty>", e[2] + 1, "Deleted">>)

IncKey(s, d, k, n) ==
  LET has == HasKey(s, d, k)
      cur == IF has /\ s[d].keys[k][3] # "Deleted" THEN s[d].keys[k][1] ELSE "0"
  IN IF ~IsNum(cur) THEN s                         \* "Key is not numeric"
     ELSE LET sum == IntTab[cur] + n IN
          IF has THEN PutKey(s, d, k, <<ToString(sum), s[d].keys[k][2] + 1, UpdState(s[d].keys[k][3])>>)
          ELSE PutKey(s, d, k, <<ToString(sum), 1, "New">>)

CreateDb(s, ctx, name, token, strategy) ==
  IF ~(ctx.to_role = "Primary" \/ ctx.sess_primary) \/ HasDb(s, name) THEN s
  ELSE [d \in DOMAIN s \cup {name} |->
          IF d = name THEN [strategy |-> IF strategy \in {"newer", "arbiter"} THEN strategy ELSE "none",
                            keys |-> ("$$token" :> <<token, 0, "New">>)]
          ELSE s[d]]

RECURSIVE Recv(_, _, _)
Recv(s, ctx, toks) ==
  LET cmd == Tok(toks, 1) IN
  IF ~ctx.sess_auth /\ cmd # "rp" THEN s          \* apply_if_auth: nothing without the administrator credential
  ELSE CASE cmd = "rp" -> IF Len(toks) >= 3 /\ IsNum(toks[2]) THEN Recv(s, ctx, SubSeq(toks, 3, Len(toks))) ELSE s
         [] cmd = "replicate" ->
              IF Len(toks) < 3 \/ ~HasDb(s, toks[2]) THEN s
              ELSE SetKey(s, toks[2], toks[3], JoinFrom(toks, 5), IF IsNum(Tok(toks, 4)) THEN IntTab[toks[4]] ELSE -1)
         [] cmd = "replicate-remove" ->
              IF ~HasDb(s, Tok(toks, 2)) THEN s ELSE RemoveKey(s, toks[2], JoinFrom(toks, 3))
         [] cmd = "replicate-increment" ->
              IF Len(toks) < 3 \/ ~HasDb(s, toks[2]) THEN s
              ELSE IncKey(s, toks[2], toks[3], IF IsNum(JoinFrom(toks, 4)) THEN IntTab[JoinFrom(toks, 4)] ELSE 1)
         [] cmd = "create-db" ->
              IF Len(toks) < 3 THEN s ELSE CreateDb(s, ctx, toks[2], toks[3], JoinFrom(toks, 4))
         [] OTHER -> s

RECURSIVE Fold(_, _, _)
Fold(s, evs, i) == IF i > Len(evs) THEN s ELSE Fold(Recv(s, evs[i].ctx, evs[i].toks), evs, i + 1)

(* compared: every database but the administrative one, every key but the node-local counter *)
View(s) == [d \in DOMAIN s \ {"$admin"} |->
              [strategy |-> s[d].strategy,
               keys |-> [k \in DOMAIN s[d].keys \ {"$connections"} |-> s[d].keys[k]]]]
=============================================================================
