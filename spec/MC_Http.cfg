SPECIFICATION Spec
CONSTANT MaxLen = 5
INVARIANTS AlignedStrict OneEntryPerCommand
VIEW View
ACTION_CONSTRAINT Emit
CHECK_DEADLOCK FALSE
