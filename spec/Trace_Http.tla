----------------------------- MODULE Trace_Http -----------------------------
EXTENDS NunHttp, Json, IOUtils

Rec == ndJsonDeserialize(IOEnv.TRACE)
Cfg == JsonDeserialize(IOEnv.CFG)
Devs == {Cfg.devs[i] : i \in DOMAIN Cfg.devs}

VARIABLES l, used
tvars == <<l, used>>
E == Rec[l]

TraceInit == l = 1 /\ used = {} /\ TLCSet(1, 0)

Reset == E.ev = "reset" /\ used' = {} /\ ((used # {}) => PrintT(<<"USED", Rec[l-1].run, used>>))

(* executed once each, in order: the node ends in the state the same commands leave   *)
(* when run one by one; and the session is released                                   *)
SameEffect == E.keysH = E.keysT
Released == E.connsH = E.connsT /\ E.watchersH = 0

Http ==
  /\ E.ev = "http" /\ E.alive
  /\ E.entries = RefReply(E.twin)
  /\ SameEffect /\ Released
  /\ UNCHANGED used

(* one WebSocket frame with the commands: the frames that come back are, command by command, its   *)
(* pushed lines followed by its own ok / error                                                   *)
Ws ==
  /\ E.ev = "ws" /\ E.alive
  /\ E.frames = WsReply(E.twin)
  /\ SameEffect /\ Released
  /\ UNCHANGED used

(* known finding: refusals that also push a line leave it for the next success *)
Dev_HttpStaleLine ==
  /\ "Dev_HttpStaleLine" \in Devs
  /\ E.ev = "http" /\ E.alive
  /\ HasRefusedPush(E.twin)
  /\ E.entries # RefReply(E.twin)
  /\ E.entries = ImplReply(E.twin)
  /\ SameEffect /\ Released
  /\ used' = used \cup {"Dev_HttpStaleLine"}

(* fixed finding: a successful command that pushed two lines left the second one for the next command *)
Dev_HttpMultiLine ==
  /\ "Dev_HttpMultiLine" \in Devs
  /\ E.ev = "http" /\ E.alive
  /\ HasMultiPush(E.twin)
  /\ E.entries # RefReply(E.twin)
  /\ E.entries = ImplReplyOld(E.twin)
  /\ SameEffect /\ Released
  /\ used' = used \cup {"Dev_HttpMultiLine"}

TraceNext == l <= Len(Rec) /\ l' = l + 1 /\ (Reset \/ Http \/ Ws \/ Dev_HttpStaleLine \/ Dev_HttpMultiLine)
TraceSpec == TraceInit /\ [][TraceNext]_tvars

Progress ==
  /\ (l > TLCGet(1)) => TLCSet(1, l)
  /\ (l = Len(Rec) + 1 /\ used # {}) => PrintT(<<"USED", Rec[l-1].run, used>>)

TraceAccepted ==
  IF TLCGet(1) = Len(Rec) + 1
  THEN PrintT(<<"ACCEPTED", Len(Rec)>>)
  ELSE PrintT(<<"REJECTED", TLCGet(1), Rec[TLCGet(1)].run, Rec[TLCGet(1)].i>>) /\ FALSE
=============================================================================
