SPECIFICATION TraceSpec
CONSTANTS
  Nodes <- CNodes
  NodeSeq <- CNodeSeq
  Pid <- CPid
  Timeout <- CTimeout
  Ops <- COps
  SeqPrefix <- CSeqPrefix
  Formation <- CFormation
  MaxClock = 100000
  FormSched <- NoFormSched
CONSTRAINT Progress
POSTCONDITION TraceAccepted
CHECK_DEADLOCK FALSE
