------------------------------- MODULE MC_Fuzz -------------------------------
(***************************************************************************)
(* Input space of C10 as a specification: a command line is a command word *)
(* of the parser's table (or an unknown one) followed by 0..MaxArgs        *)
(* argument tokens, each drawn from the token classes below or from the    *)
(* sub-command keywords of that word.  TLC enumerates the space; the       *)
(* driver turns every abstract line into bytes and the harness sends it to *)
(* the real node from sessions in each credential state, each line         *)
(* followed by a probe write / read from a second client.                  *)
(***************************************************************************)
EXTENDS Integers, Sequences, FiniteSets, TLC, Json

CONSTANTS MaxArgs, Words

Classes == {"empty", "space", "word", "key", "seckey", "num", "neg", "i32max", "i32min", "u64max",
            "u128big", "long", "nonascii", "semi", "newline", "db", "tok",
            \* very long AND non-ASCII (2-, 3- and 4-byte characters at every byte alignment)
            "long_e0", "long_e1", "long_h0", "long_h1", "long_h2", "long_4",
            \* `|'-separated lists of database names (snapshot, replicate-snapshot): existing and unknown names
            \* in either order, an empty item
            "dblist", "dblist_bad_first", "dblist_bad_last", "dblist_empty_item"}

Keywords(w) ==
  CASE w = "election" -> {"kw:win", "kw:candidate", "kw:alive"}
    [] w = "debug" -> {"kw:pending-ops", "kw:pendding-conflitcts", "kw:list-dbs", "kw:force-election", "kw:process-info"}
    [] w = "snapshot" -> {"kw:true", "kw:false"}
    [] w = "rp" -> {"kw:5"}
    [] OTHER -> {}

VARIABLES line, done
vars == <<line, done>>

Init == line = <<>> /\ done = FALSE

Start == line = <<>> /\ \E w \in Words : line' = <<w>> /\ done' = FALSE
Extend == /\ line # <<>> /\ Len(line) <= MaxArgs
          /\ \E t \in Classes \cup Keywords(line[1]) : line' = Append(line, t)
          /\ done' = FALSE

Next == Start \/ Extend
Spec == Init /\ [][Next]_vars

Emit == PrintT(<<"CASE", ToJson(line')>>)
=============================================================================
