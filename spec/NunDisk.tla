------------------------------- MODULE NunDisk -------------------------------
(***************************************************************************)
(* Implementation-shaped model of the disk storage strategy               *)
(* (storage/disk.rs): the in-memory entries with their persistence state   *)
(* and remembered record position, the keys file as a sequence of records, *)
(* the per-state snapshot plan (append / in-place update / nothing), the   *)
(* space-reclaiming rewrite into a new file generation, and the loader     *)
(* (last record wins, version -1 skips but does not erase).                *)
(*                                                                         *)
(* A record position is (generation of the keys file, index).  An in-place *)
(* update through a position that is not this key's record in the current  *)
(* file writes somewhere else: the model marks the file Corrupt.           *)
(*                                                                         *)
(* Reference (NunDiskAbs, inlined): persisted = live keys with value and   *)
(* version at the last completed snapshot; invariant RestoreExact:         *)
(* Load(disk) = persisted.                                                 *)
(***************************************************************************)
EXTENDS Integers, Sequences, FiniteSets, TLC, Json

CONSTANTS Keys, MaxLen

VARIABLES mem,       \* [Keys -> [st, val, ver, pos]]
          gen, recs, \* keys file: generation, sequence of [k, ver, val]
          corrupt,   \* an in-place write went through a stale position
          snapq,     \* "none" | "inc" | "reclaim"
          persisted, \* reference: [Keys -> <<val, ver>> or None] at the last completed snapshot
          everSnap,  \* a snapshot has completed
          hist

vars == <<mem, gen, recs, corrupt, snapq, persisted, everSnap, hist>>

None == <<"-", -1>>
NoPos == <<-1, 0>>
Absent == [st |-> "Absent", val |-> "", ver |-> 0, pos |-> NoPos]
Vals == {"p", "qq"}

Init ==
  /\ mem = [k \in Keys |-> Absent]
  /\ gen = 0 /\ recs = <<>> /\ corrupt = FALSE
  /\ snapq = "none"
  /\ persisted = [k \in Keys |-> None]
  /\ everSnap = FALSE
  /\ hist = <<>>

(* the history record carries what the model holds in memory after the step: the driver compares it with the *)
(* real node's entries (persistence state, version) and explores further from a step that differs             *)
Post == [k \in Keys |-> <<mem'[k].st, mem'[k].ver>>]
Log(rec) == hist' = Append(hist, rec @@ [post |-> Post])
LiveE(e) == e.st \notin {"Absent", "Deleted"}
UpdSt(e) == IF e.st = "New" THEN "New" ELSE "Updated"

Set(k, v) ==
  /\ LET e == mem[k] IN
     mem' = [mem EXCEPT ![k] = IF e.st = "Absent"
                                THEN [st |-> "New", val |-> v, ver |-> 0, pos |-> NoPos]
                                ELSE [e EXCEPT !.st = UpdSt(e), !.val = v, !.ver = e.ver + 1]]
  /\ UNCHANGED <<gen, recs, corrupt, snapq, persisted, everSnap>>
  /\ Log([c |-> "c1", op |-> "set", k |-> k, v |-> v])

NextNum(v) == CASE v = "1" -> "2" [] v = "2" -> "3" [] v = "3" -> "4" [] OTHER -> "5"

Inc(k) ==
  /\ mem[k].st = "Absent" \/ mem[k].st = "Deleted" \/ mem[k].val \in {"1", "2", "3", "4", "5"}
  /\ LET e == mem[k] IN
     mem' = [mem EXCEPT ![k] =
       IF e.st = "Absent" THEN [st |-> "New", val |-> "1", ver |-> 1, pos |-> NoPos]
       ELSE IF e.st = "Deleted" THEN [e EXCEPT !.st = "Updated", !.val = "1", !.ver = e.ver + 1]
       ELSE [e EXCEPT !.st = UpdSt(e), !.ver = e.ver + 1, !.val = NextNum(e.val)]]
  /\ UNCHANGED <<gen, recs, corrupt, snapq, persisted, everSnap>>
  /\ Log([c |-> "c1", op |-> "increment", k |-> k, n |-> 1])

Remove(k) ==
  /\ LET e == mem[k] IN
     mem' = [mem EXCEPT ![k] = IF e.st \in {"Absent", "New"} THEN Absent
                                ELSE [e EXCEPT !.st = "Deleted", !.val = "<Empty>", !.ver = e.ver + 1]]
  /\ UNCHANGED <<gen, recs, corrupt, snapq, persisted, everSnap>>
  /\ Log([c |-> "c1", op |-> "remove", k |-> k])

SnapReq(reclaim) ==
  /\ snapq = "none"
  /\ snapq' = IF reclaim THEN "reclaim" ELSE "inc"
  /\ UNCHANGED <<mem, gen, recs, corrupt, persisted, everSnap>>
  /\ Log([c |-> "a", op |-> "snapshot", reclaim |-> reclaim])

(* order in which storage_data_disk visits the keys (a hash map: any order; fixed here) *)
KeyOrder == CHOOSE s \in [1..Cardinality(Keys) -> Keys] : \A i, j \in DOMAIN s : i # j => s[i] # s[j]

ValidPos(k, e, g, rs) == e.pos[1] = g /\ e.pos[2] \in DOMAIN rs /\ rs[e.pos[2]].k = k

RECURSIVE Plan(_, _, _, _, _, _)
(* returns <<mem', recs', corrupt'>> after visiting keys i.. of KeyOrder *)
Plan(i, m, g, rs, cor, reclaim) ==
  IF i > Len(KeyOrder) THEN <<m, rs, cor>>
  ELSE LET k == KeyOrder[i] e == m[k] IN
    IF e.st = "New" \/ (reclaim /\ e.st \in {"Ok", "Updated"})
    THEN Plan(i + 1, [m EXCEPT ![k] = [e EXCEPT !.st = "Ok", !.pos = <<g, Len(rs) + 1>>]], g,
              Append(rs, [k |-> k, ver |-> e.ver, val |-> e.val]), cor, reclaim)
    ELSE IF e.st = "Updated"
    THEN IF ValidPos(k, e, g, rs)
         THEN Plan(i + 1, [m EXCEPT ![k] = [e EXCEPT !.st = "Ok"]], g,
                   [rs EXCEPT ![e.pos[2]] = [k |-> k, ver |-> e.ver, val |-> e.val]], cor, reclaim)
         ELSE Plan(i + 1, [m EXCEPT ![k] = [e EXCEPT !.st = "Ok"]], g, rs, TRUE, reclaim)
    ELSE IF e.st = "Deleted" /\ ~reclaim
    THEN IF ValidPos(k, e, g, rs)
         THEN Plan(i + 1, m, g, [rs EXCEPT ![e.pos[2]] = [k |-> k, ver |-> -1, val |-> ""]], cor, reclaim)
         ELSE Plan(i + 1, m, g, rs, TRUE, reclaim)
    ELSE IF e.st = "Deleted" /\ reclaim
    THEN \* not written to the new file; the tombstone is forgotten with its stale position
         Plan(i + 1, [m EXCEPT ![k] = Absent], g, rs, cor, reclaim)
    ELSE Plan(i + 1, m, g, rs, cor, reclaim)

Tick ==
  /\ snapq # "none"
  /\ LET reclaim == snapq = "reclaim"
         g == IF reclaim THEN gen + 1 ELSE gen
         r == Plan(1, mem, g, IF reclaim THEN <<>> ELSE recs, corrupt, reclaim)
     IN /\ mem' = r[1] /\ recs' = r[2] /\ corrupt' = r[3] /\ gen' = g
  /\ snapq' = "none"
  /\ persisted' = [k \in Keys |-> IF LiveE(mem[k]) THEN <<mem[k].val, mem[k].ver>> ELSE None]
  /\ everSnap' = TRUE
  /\ Log([c |-> "-", op |-> "tick"])

RECURSIVE LoadFrom(_, _, _)
LoadFrom(i, rs, acc) ==
  IF i > Len(rs) THEN acc
  ELSE LoadFrom(i + 1, rs, IF rs[i].ver = -1 THEN acc
                           ELSE [acc EXCEPT ![rs[i].k] = [st |-> "Ok", val |-> rs[i].val,
                                                          ver |-> rs[i].ver, pos |-> <<gen, i>>]])
Load == LoadFrom(1, recs, [k \in Keys |-> Absent])

Restart ==
  /\ everSnap /\ ~corrupt /\ snapq = "none"
  /\ mem' = Load
  /\ UNCHANGED <<gen, recs, corrupt, snapq, persisted, everSnap>>
  /\ Log([c |-> "-", op |-> "restart"])

Next ==
  /\ Len(hist) < MaxLen
  /\ \/ \E k \in Keys, v \in Vals : Set(k, v)
     \/ \E k \in Keys : Inc(k) \/ Remove(k)
     \/ \E r \in BOOLEAN : SnapReq(r)
     \/ Tick
     \/ Restart

Spec == Init /\ [][Next]_vars

(* Design-level properties (C06) *)
NotCorrupt == ~corrupt
RestoreExact == (everSnap /\ ~corrupt /\ snapq = "none") =>
   \A k \in Keys : IF LiveE(Load[k]) THEN persisted[k] = <<Load[k].val, Load[k].ver>> ELSE persisted[k] = None
PositionsValid == ~corrupt => \A k \in Keys : mem[k].st \in {"Ok", "Updated"} => ValidPos(k, mem[k], gen, recs)

View == <<[k \in Keys |-> [st |-> mem[k].st, val |-> mem[k].val, pv |-> mem[k].pos = NoPos \/ ValidPos(k, mem[k], gen, recs)]],
          [i \in DOMAIN recs |-> [k |-> recs[i].k, d |-> recs[i].ver = -1, val |-> recs[i].val]], corrupt, snapq>>
Emit == PrintT(<<"CASE", ToJson(hist')>>)
=============================================================================
