SPECIFICATION SpecDistinct
CONSTANTS
  MaxN = 9
  Times = {1, 2, 3, 4}
  Keys = {"1","2","3","4","5","6","7","8","9"}
  Kinds = {"update"}
INVARIANT QueryOK
CHECK_DEADLOCK FALSE
