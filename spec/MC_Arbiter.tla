------------------------------ MODULE MC_Arbiter ------------------------------
(***************************************************************************)
(* Generator / design model for C13 (single node): an arbiter-strategy     *)
(* database with two keys of which one name extends the other ("a", "ab"), *)
(* writers issuing plain and stale versioned writes, one arbiter session   *)
(* that registers, disconnects, re-registers and resolves its i-th         *)
(* outstanding notice.  Abstract state: arbiter status, queue length per   *)
(* key, notices the connected arbiter holds.                               *)
(***************************************************************************)
EXTENDS Integers, Sequences, FiniteSets, TLC, Json

CONSTANTS Keys, MaxLen, MaxQueue

VARIABLES arb,      \* "never" | "on" | "off"
          q,        \* [Keys -> number of unresolved conflicts]
          held,     \* notices the connected arbiter holds (sequence of keys)
          gen,      \* arbiter session generation (a new session per registration)
          hist

vars == <<arb, q, held, gen, hist>>

Init == arb = "never" /\ q = [k \in Keys |-> 0] /\ held = <<>> /\ gen = 0 /\ hist = <<>>

Log(r) == hist' = Append(hist, r)
Sess == "arb" \o ToString(gen)

RECURSIVE Unresolved(_, _)
Unresolved(ks, acc) == IF ks = {} THEN acc
                       ELSE LET k == CHOOSE x \in ks : TRUE IN
                            Unresolved(ks \ {k}, acc \o [i \in 1..q[k] |-> k])

(* a versioned write with a stale version, or any write to a key that is in conflict *)
Write(k, stale) ==
  /\ Log([c |-> "w", op |-> IF stale THEN "set-safe" ELSE "set", k |-> k, stale |-> stale])
  /\ IF (stale \/ q[k] > 0) /\ arb # "never" /\ q[k] < MaxQueue
     THEN /\ q' = [q EXCEPT ![k] = @ + 1]
          /\ held' = IF arb = "on" THEN Append(held, k) ELSE held
     ELSE UNCHANGED <<q, held>>
  /\ UNCHANGED <<arb, gen>>

Register ==
  /\ arb # "on"
  /\ gen' = gen + 1
  /\ hist' = Append(hist, [c |-> "arb" \o ToString(gen + 1), op |-> "arbiter"])
  /\ arb' = "on"
  /\ held' = Unresolved(Keys, <<>>)
  /\ UNCHANGED q

Disconnect ==
  /\ arb = "on"
  /\ Log([c |-> Sess, op |-> "close"])
  /\ arb' = "off" /\ held' = <<>>
  /\ UNCHANGED <<q, gen>>

Resolve(i) ==
  /\ arb = "on" /\ i \in DOMAIN held
  /\ Log([c |-> Sess, op |-> "resolve_nth", nth |-> i - 1])
  /\ q' = [q EXCEPT ![held[i]] = @ - 1]
  /\ held' = [j \in 1..(Len(held) - 1) |-> IF j < i THEN held[j] ELSE held[j + 1]]
  /\ UNCHANGED <<arb, gen>>

Read(k) == Log([c |-> "w", op |-> "get-safe", k |-> k]) /\ UNCHANGED <<arb, q, held, gen>>

Next ==
  /\ Len(hist) < MaxLen
  /\ \/ \E k \in Keys, s \in BOOLEAN : Write(k, s)
     \/ Register \/ Disconnect
     \/ \E i \in 1..(MaxQueue * 2) : Resolve(i)
     \/ \E k \in Keys : Read(k)

Spec == Init /\ [][Next]_vars

QueueBounded == \A k \in Keys : q[k] >= 0 /\ q[k] <= MaxQueue
HeldMatches == arb = "on" => Len(held) <= MaxQueue * Cardinality(Keys)

View == <<arb, q, held>>
Emit == PrintT(<<"CASE", ToJson(hist')>>)
=============================================================================
