------------------------------ MODULE MC_Arbiter ------------------------------
(***************************************************************************)
(* Generator / design model for C13 (single node): an arbiter-strategy     *)
(* database with two keys of which one name extends the other ("a", "ab"), *)
(* writers issuing plain and stale versioned writes, one arbiter session   *)
(* that registers, disconnects, re-registers and resolves its i-th         *)
(* outstanding notice.  Abstract state: arbiter status, the unresolved     *)
(* conflicts of every key by identity (oldest first), the notices the       *)
(* connected arbiter holds -- so that resolving the newer of two queued     *)
(* conflicts first leads to a different state than resolving the older.     *)
(***************************************************************************)
EXTENDS Integers, Sequences, FiniteSets, TLC, Json

CONSTANTS Keys, MaxLen, MaxQueue,
          Switch    \* how many preceding actions distinguish states (n-switch coverage of the cases)

VARIABLES arb,      \* "never" | "on" | "off"
          open,     \* [Keys -> sequence of unresolved conflicts (ranks), oldest first]
          held,     \* notices the connected arbiter holds (sequence of <<key, rank>>)
          gen,      \* arbiter session generation (a new session per registration)
          hist

vars == <<arb, open, held, gen, hist>>
q == [k \in Keys |-> Len(open[k])]

Init == arb = "never" /\ open = [k \in Keys |-> <<>>] /\ held = <<>> /\ gen = 0 /\ hist = <<>>

Log(r) == hist' = Append(hist, r)
(* the last `Switch' actions of the history: part of the view, so that every transition is
   generated after every possible sequence of `Switch' preceding actions *)
Recent(h) == IF Len(h) <= Switch THEN h ELSE SubSeq(h, Len(h) - Switch + 1, Len(h))
Sess == "arb" \o ToString(gen)

RECURSIVE Unresolved(_, _)
Unresolved(ks, acc) == IF ks = {} THEN acc
                       ELSE LET k == CHOOSE x \in ks : TRUE IN
                            Unresolved(ks \ {k}, acc \o [i \in 1..q[k] |-> <<k, open[k][i]>>])

(* a versioned write with a stale version, or any write to a key that is in conflict *)
Write(k, stale) ==
  /\ Log([c |-> "w", op |-> IF stale THEN "set-safe" ELSE "set", k |-> k, stale |-> stale])
  /\ IF (stale \/ q[k] > 0) /\ arb # "never" /\ q[k] < MaxQueue
     THEN \* the rank of a conflict: 1 = queued on a key without open conflicts, 2 = behind another
          LET r == IF open[k] = <<>> THEN 1 ELSE open[k][Len(open[k])] + 1 IN
          /\ open' = [open EXCEPT ![k] = Append(@, r)]
          /\ held' = IF arb = "on" THEN Append(held, <<k, r>>) ELSE held
     ELSE UNCHANGED <<open, held>>
  /\ UNCHANGED <<arb, gen>>

Register ==
  /\ arb # "on"
  /\ gen' = gen + 1
  /\ hist' = Append(hist, [c |-> "arb" \o ToString(gen + 1), op |-> "arbiter"])
  /\ arb' = "on"
  /\ held' = Unresolved(Keys, <<>>)
  /\ UNCHANGED open

Disconnect ==
  /\ arb = "on"
  /\ Log([c |-> Sess, op |-> "close"])
  /\ arb' = "off" /\ held' = <<>>
  /\ UNCHANGED <<open, gen>>

(* keep: the arbiter answers with the value the key holds at that moment (it decides for the stored value); *)
(* otherwise with a value of its own                                                                          *)
Resolve(i, keep) ==
  /\ arb = "on" /\ i \in DOMAIN held
  /\ Log([c |-> Sess, op |-> "resolve_nth", nth |-> i - 1, keep |-> keep])
  /\ open' = [open EXCEPT ![held[i][1]] = SelectSeq(@, LAMBDA r : r # held[i][2])]
  /\ held' = [j \in 1..(Len(held) - 1) |-> IF j < i THEN held[j] ELSE held[j + 1]]
  /\ UNCHANGED <<arb, gen>>

Read(k) == Log([c |-> "w", op |-> "get-safe", k |-> k]) /\ UNCHANGED <<arb, open, held, gen>>

Next ==
  /\ Len(hist) < MaxLen
  /\ \/ \E k \in Keys, s \in BOOLEAN : Write(k, s)
     \/ Register \/ Disconnect
     \/ \E i \in 1..(MaxQueue * 2), keep \in BOOLEAN : Resolve(i, keep)
     \/ \E k \in Keys : Read(k)

Spec == Init /\ [][Next]_vars

QueueBounded == \A k \in Keys : q[k] >= 0 /\ q[k] <= MaxQueue
HeldMatches == arb = "on" => Len(held) <= MaxQueue * Cardinality(Keys)

View == <<arb, open, held, Recent(hist)>>
Emit == PrintT(<<"CASE", ToJson(hist')>>)
=============================================================================
