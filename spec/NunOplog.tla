------------------------------- MODULE NunOplog -------------------------------
(***************************************************************************)
(* C12.  The operation log is a sequence of 25-byte records                *)
(*      [time, key id, db id, kind]   appended in time order.              *)
(*                                                                         *)
(* Reference: Since(log, s) = every (db, key) with a record at or after s,  *)
(* labelled with the kind of its most recent record.  The query may return *)
(* more (older) entries, never fewer, and every label it returns is the     *)
(* kind of that key's most recent record.                                  *)
(*                                                                         *)
(* Transcription: ReadFile is read_operations_since_from_file of           *)
(* disk_ops.rs (binary search on the time field, the three "found"         *)
(* conditions, forward scan to the end of the file) in record units.       *)
(* TLC compares the two on every log of the configured shape and every     *)
(* starting point.                                                         *)
(***************************************************************************)
EXTENDS Integers, Sequences, FiniteSets, TLC, Json

CONSTANTS MaxN,        \* longest log
          Times,       \* time stamps (a small interval of naturals)
          Keys,        \* (db,key) identities; "distinct" = every record its own key
          Kinds

VARIABLES log, since
vars == <<log, since>>

Max(a, b) == IF a > b THEN a ELSE b

(* ---------------- reference ---------------- *)
LastIdx(lg, k) == CHOOSE i \in DOMAIN lg : lg[i].k = k /\ \A j \in DOMAIN lg : lg[j].k = k => j <= i
Required(lg, s) == {lg[i].k : i \in {j \in DOMAIN lg : lg[j].t >= s}}
RefLabel(lg, k) == lg[LastIdx(lg, k)].op
NewestTime(lg) == IF lg = <<>> THEN 0 ELSE lg[Len(lg)].t

(* ---------------- transcription ---------------- *)
(* forward scan from record index i (0-based) whose time was already read as t0 *)
RECURSIVE Scan(_, _, _)
Scan(lg, i, acc) ==
  IF i >= Len(lg) THEN acc
  ELSE Scan(lg, i + 1, [acc EXCEPT ![lg[i + 1].k] = lg[i + 1].op])

RECURSIVE FirstOfRun(_, _, _)
FirstOfRun(lg, i, s) == IF i >= 1 /\ lg[i].t = s THEN FirstOfRun(lg, i - 1, s) ELSE i

NoEntry == "-"
Empty == [k \in Keys |-> NoEntry]

(* one file; `acc' is the map being filled (later inserts overwrite) *)
RECURSIVE Search(_, _, _, _, _, _, _, _)
Search(lg, s, minr, maxr, sp, prevt, fuel, acc) ==
  LET n == Len(lg)
      eof == sp >= n
      t == IF eof THEN prevt ELSE lg[sp + 1].t
      possible == maxr - minr
      readall == possible = 1 /\ sp = 1
      nomore == possible <= 1 /\ t > s
  IN IF fuel = 0 THEN [acc EXCEPT ![CHOOSE k \in Keys : TRUE] = "#nonterminating"]
     ELSE IF t = s \/ nomore \/ readall
     THEN IF eof THEN acc
          ELSE IF t = s
          THEN \* rewind to the first record of the run of equal time stamps (repaired code)
               Scan(lg, FirstOfRun(lg, sp, s), acc)
          ELSE Scan(lg, sp, acc)
     ELSE IF t < s
     THEN LET nrec == Max(((Max(maxr, sp) - sp) \div 2), 1)
              sp2 == sp + nrec
          IN IF eof THEN acc ELSE Search(lg, s, sp, maxr, sp2, t, fuel - 1, acc)
     ELSE \* t > s
          LET nrec == Max(((sp - minr) \div 2), 1)
          IN IF sp - nrec < 0 THEN [acc EXCEPT ![CHOOSE k \in Keys : TRUE] = "#underflow"]
             ELSE IF eof THEN acc ELSE Search(lg, s, minr, sp, sp - nrec, t, fuel - 1, acc)

ReadFile(lg, s, acc) == Search(lg, s, 0, Len(lg), Len(lg) \div 2, 0, 4 * Len(lg) + 8, acc)

Returned(lg, s) == ReadFile(lg, s, Empty)

(* ---------------- properties ---------------- *)
NoMiss(lg, s) == \A k \in Required(lg, s) : Returned(lg, s)[k] # NoEntry
RightLabels(lg, s) == \A k \in Keys : Returned(lg, s)[k] \notin {NoEntry} =>
                          (k \in {lg[i].k : i \in DOMAIN lg} /\ Returned(lg, s)[k] = RefLabel(lg, k))
HasTies(lg) == \E i \in 1..(Len(lg) - 1) : lg[i].t = lg[i + 1].t

(* the property; logs with equal consecutive time stamps are the recorded deviation *)
QueryOK == NoMiss(log, since) /\ RightLabels(log, since)
QueryOKOrTies == HasTies(log) \/ QueryOK
(* narrower: at least two records carry exactly the requested time stamp *)
TiesAt(lg, s) == Cardinality({i \in DOMAIN lg : lg[i].t = s}) >= 2
QueryOKOrTiesAtSince == TiesAt(log, since) \/ QueryOK

NonDecreasing(lg) == \A i \in 1..(Len(lg) - 1) : lg[i].t <= lg[i + 1].t
DistinctKeys(lg) == \A i, j \in DOMAIN lg : i # j => lg[i].k # lg[j].k

Beyond == (CHOOSE x \in Times : \A y \in Times : y <= x) + 1

Logs == UNION {[1..n -> [t : Times, k : Keys, op : Kinds]] : n \in 0..MaxN}

Init ==
  /\ log \in {lg \in Logs : NonDecreasing(lg)}
  /\ since \in Times \cup {0, Beyond}
Next == UNCHANGED vars

(* every record its own key: "does the query miss a record" for all time patterns *)
KeySeq == [i \in 1..MaxN |-> ToString(i)]   \* Keys = {"1", .., ToString(MaxN)} in this mode
OneKind == CHOOSE x \in Kinds : TRUE
TimeSeqs == UNION {{ts \in [1..n -> Times] : \A i \in 1..(n - 1) : ts[i] <= ts[i + 1]} : n \in 0..MaxN}
InitDistinct ==
  /\ \E ts \in TimeSeqs : log = [i \in DOMAIN ts |-> [t |-> ts[i], k |-> KeySeq[i], op |-> OneKind]]
  /\ since \in Times \cup {0, Beyond}
SpecDistinct == InitDistinct /\ [][Next]_vars

Spec == Init /\ [][Next]_vars
=============================================================================
