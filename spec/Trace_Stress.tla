---------------------------- MODULE Trace_Stress ----------------------------
(***************************************************************************)
(* Free-running rounds (C02, C03, C19): several threads run their commands *)
(* on one key of one real node at the same time, with no scheduler and no  *)
(* hook involved; an observer watches the key.  No order between threads   *)
(* is recorded.  Every round is judged by consequences of the properties   *)
(* that hold whatever the order was (they follow from "the outcomes equal  *)
(* some sequential order of the same commands"):                            *)
(*  inc    every increment is acknowledged; the key ends at the initial    *)
(*         value plus the sum; the version grew by at least one per        *)
(*         increment; (increments of 1) the observer was told every        *)
(*         intermediate value exactly once                                  *)
(*  set    every plain write is acknowledged; the key holds one of the     *)
(*         written values; the version grew by at least one per write; the *)
(*         observer was told every written value exactly once, under       *)
(*         pairwise different versions, and the notification with the      *)
(*         highest version carries the final value and version             *)
(*  cas    (no conflict strategy) of the versioned writes that present the *)
(*         same, current base version exactly one succeeds and its value   *)
(*         is the final one                                                 *)
(*  newer  (newer strategy) no versioned write is refused; the key holds   *)
(*         the initial or a written value; the version only grew; the      *)
(*         notification with the highest version carries the final value   *)
(*  churn  writers as in `set' while other sessions watch and unwatch the  *)
(*         same and another key: the observer still gets every write once  *)
(***************************************************************************)
EXTENDS Integers, Sequences, FiniteSets, TLC, Json, IOUtils

Rec == ndJsonDeserialize(IOEnv.TRACE)
Cfg == JsonDeserialize(IOEnv.CFG)

VARIABLES l, used
tvars == <<l, used>>
E == Rec[l]

RECURSIVE SumN(_, _)
SumN(s, i) == IF i > Len(s) THEN 0 ELSE s[i].n + SumN(s, i + 1)

Sel(ops, kinds) == SelectSeq(ops, LAMBDA o : o.op \in kinds)
OkOf(s) == SelectSeq(s, LAMBDA o : o.cls = "ok")
Count(seq, x) == Cardinality({j \in DOMAIN seq : seq[j] = x})

NoPanic == \A j \in DOMAIN E.ops : E.ops[j].cls # "panic"
Muts == OkOf(Sel(E.ops, {"inc", "set", "cas"}))
FinalLive == E.final[3]
VersionGrew(n) == E.final[2] >= E.init[2] + n

(* the versioned notifications: pairwise different versions, the highest one is the key as it is now *)
VersDistinct == \A i, j \in DOMAIN E.versioned : i # j => E.versioned[i][1] # E.versioned[j][1]
HighestIsCurrent ==
  E.versioned # <<>> =>
    \E i \in DOMAIN E.versioned :
       /\ \A j \in DOMAIN E.versioned : E.versioned[j][1] <= E.versioned[i][1]
       /\ E.versioned[i][2] = E.final[1] /\ E.versioned[i][1] = E.final[2]

Written == {E.ops[j].v : j \in {x \in DOMAIN E.ops : E.ops[x].op \in {"set", "cas"}}}

Inc ==
  LET incs == Sel(E.ops, {"inc"}) n == Len(incs) IN
  /\ \A j \in DOMAIN incs : incs[j].cls = "ok"
  /\ FinalLive /\ E.final[1] = ToString(E.init_int + SumN(incs, 1))
  /\ VersionGrew(n)
  /\ Len(E.changed) = n
  /\ (\A j \in DOMAIN incs : incs[j].n = 1) =>
        \A i \in 1..n : Count(E.changed, ToString(E.init_int + i)) = 1

SetLike ==
  LET sets == Sel(E.ops, {"set"}) n == Len(sets) IN
  /\ \A j \in DOMAIN sets : sets[j].cls = "ok"
  /\ FinalLive /\ E.final[1] \in Written
  /\ VersionGrew(n)
  /\ Len(E.changed) = n /\ Len(E.versioned) = n
  /\ \A j \in DOMAIN sets : Count(E.changed, sets[j].v) = 1
  /\ VersDistinct /\ HighestIsCurrent

Cas ==
  LET cas == Sel(E.ops, {"cas"}) won == OkOf(cas) IN
  /\ \A j \in DOMAIN cas : cas[j].base = E.init[2]
  /\ Len(won) = 1
  /\ \A j \in DOMAIN cas : cas[j].cls \in {"ok", "verr", "error"}
  /\ FinalLive /\ E.final[1] = won[1].v
  /\ VersionGrew(1)
  /\ Len(E.changed) = 1 /\ E.changed[1] = won[1].v
  /\ HighestIsCurrent

Newer ==
  LET cas == Sel(E.ops, {"cas", "set"}) IN
  /\ \A j \in DOMAIN cas : cas[j].cls = "ok"
  /\ FinalLive /\ E.final[1] \in Written \cup {E.init[1]}
  /\ VersionGrew(1)
  /\ Len(E.changed) = Len(E.versioned)
  /\ \A j \in DOMAIN E.changed : E.changed[j] \in Written
  /\ VersDistinct /\ HighestIsCurrent

Round ==
  /\ E.ev = "round"
  /\ NoPanic
  /\ CASE E.kind = "inc" -> Inc
       [] E.kind \in {"set", "churn"} -> SetLike
       [] E.kind = "cas" -> Cas
       [] E.kind = "newer" -> Newer
       [] OTHER -> FALSE
  /\ UNCHANGED used

TraceInit == l = 1 /\ used = {} /\ TLCSet(1, 0)
Reset == E.ev = "reset" /\ UNCHANGED used
TraceNext == l <= Len(Rec) /\ l' = l + 1 /\ (Reset \/ Round)
TraceSpec == TraceInit /\ [][TraceNext]_tvars

Progress == (l > TLCGet(1)) => TLCSet(1, l)
TraceAccepted ==
  IF TLCGet(1) = Len(Rec) + 1
  THEN PrintT(<<"ACCEPTED", Len(Rec)>>)
  ELSE PrintT(<<"REJECTED", TLCGet(1), Rec[TLCGet(1)].run, Rec[TLCGet(1)].i>>) /\ FALSE
=============================================================================
