SPECIFICATION Spec
CONSTANTS
  Keys = {"a", "b", "c"}
  MaxLen = 10
  Fixed = TRUE
INVARIANT Decodes
VIEW View
CHECK_DEADLOCK FALSE
