---------------------------- MODULE Trace_Cluster ----------------------------
(***************************************************************************)
(* ClusterMonitor: reference judgement of cluster runs (simulated links,   *)
(* real nodes).  Events: client(i) a client command at a node; msg an      *)
(* inter-node line taken from a link (kind forward / copy / ack / handshake *)
(* / noise); quiesce: nothing left to deliver, with every node's role,      *)
(* view of the primary, pending count and data.                             *)
(*                                                                         *)
(* Groups: "CONV" (C04/C05/C13/C19) every node equals the primary at        *)
(* quiescence; "BUDGET" (C14) bounded burst per operation, then silence,    *)
(* secondaries never fan out; "PEND" (C15) nothing pending at quiescence;  *)
(* "ELECT" (C07) exactly one primary, the longest-running live node, all   *)
(* agree.                                                                  *)
(***************************************************************************)
EXTENDS Integers, Sequences, FiniteSets, TLC, Json, IOUtils

Rec == ndJsonDeserialize(IOEnv.TRACE)
Cfg == JsonDeserialize(IOEnv.CFG)
Checks == {Cfg.checks[i] : i \in DOMAIN Cfg.checks}
Devs == {Cfg.devs[i] : i \in DOMAIN Cfg.devs}
On(g) == g \in Checks

VARIABLES l, cnt, curop, taint, rejoined, conf, used
tvars == <<l, cnt, curop, taint, rejoined, conf, used>>
E == Rec[l]

Zero == [forward |-> 0, copy |-> 0, ack |-> 0, fanout |-> 0, cfwd |-> 0, ccopy |-> 0]   \* cfwd / ccopy: of these, lines that carry a $conflicts_ record

Alive(S) == {n \in DOMAIN S : S[n].alive}
Primaries(S) == {n \in Alive(S) : S[n].role = "Primary"}

(* data of one node: databases -> keys -> <<value, version, live>> *)
SameData(A, B) ==
  /\ DOMAIN A = DOMAIN B
  /\ \A d \in DOMAIN A :
       /\ A[d].strategy = B[d].strategy
       /\ DOMAIN A[d].keys = DOMAIN B[d].keys
       /\ \A k \in DOMAIN A[d].keys : A[d].keys[k] = B[d].keys[k]

(* the same, except for the keys in X (set of <<db, key>>) *)
(* a key that is live on either node is on both with the same value and version; a removed key that both nodes  *)
(* still hold as a tombstone carries the same version on both (the next versioned write is judged against it); *)
(* a tombstone on one node and no entry on the other are the same removed key                                  *)
LiveIn(K, k) == k \in DOMAIN K /\ K[k][3]
SameDataBut(A, B, X) ==
  /\ DOMAIN A = DOMAIN B
  /\ \A d \in DOMAIN A :
       /\ A[d].strategy = B[d].strategy
       /\ \A k \in (DOMAIN A[d].keys \cup DOMAIN B[d].keys) : <<d, k>> \notin X =>
            /\ (LiveIn(A[d].keys, k) \/ LiveIn(B[d].keys, k)) =>
                  (k \in DOMAIN A[d].keys /\ k \in DOMAIN B[d].keys /\ A[d].keys[k] = B[d].keys[k])
            /\ (k \in DOMAIN A[d].keys /\ k \in DOMAIN B[d].keys /\ ~A[d].keys[k][3] /\ ~B[d].keys[k][3]) =>
                  A[d].keys[k][2] = B[d].keys[k][2]

Converged(S) ==
  \A p \in Primaries(S) : \A n \in Alive(S) : SameDataBut(S[n].data, S[p].data, taint)

ElectionOutcome(S) ==
  /\ Cardinality(Primaries(S)) = 1
  /\ \A p \in Primaries(S) :
       /\ \A n \in Alive(S) : S[p].pid <= S[n].pid           \* the longest-running live node
       /\ \A n \in Alive(S) \ {p} : S[n].role = "Secoundary"
       /\ \A n \in Alive(S) : S[n].primary_view = <<p>>        \* every cluster-state names it (only)

(* failure modes of the election outcome, used to keep the recorded findings apart *)
AllSettled(S) == \A n \in Alive(S) : S[n].role \in {"Primary", "Secoundary"}
OnePrimary(S) == Cardinality(Primaries(S)) = 1
OldestIsPrimary(S) == \A p \in Primaries(S) : \A n \in Alive(S) : S[p].pid <= S[n].pid
ViewsAgree(S) == \A p \in Primaries(S) : \A n \in Alive(S) : S[n].primary_view = <<p>>

NothingPending(S) == \A n \in Alive(S) : S[n].pending = 0

(* C14, as the property states it: at most one forward to the primary, one copy per  *)
(* secondary, one ack per copy, nothing sent on by a secondary                         *)
Budget(S, c) ==
  LET secs == Cardinality(Alive(S)) - 1 IN
  /\ c.forward <= 1
  /\ c.copy <= secs
  /\ c.ack <= c.copy
  /\ c.fanout = 0

NoOp == [op |-> "-", d |-> "", k |-> "", v |-> "", ver |-> -1, n |-> 0, at_secondary |-> FALSE]

TraceInit == l = 1 /\ cnt = Zero /\ curop = NoOp /\ taint = {} /\ rejoined = {} /\ conf = TRUE /\ used = {} /\ TLCSet(1, 0)

(* `conf': every catch-up the primary built in this run conforms to NunCatchUp (decided by *)
(* Trace_CatchUp beforehand; runs without such calls, or of other checks, carry no flag)      *)
Reset == /\ E.ev = "reset" /\ cnt' = Zero /\ curop' = NoOp /\ taint' = {} /\ rejoined' = {} /\ used' = {}
         /\ conf' = (IF "conf" \in DOMAIN E THEN E.conf ELSE TRUE)
         /\ ((used # {}) => PrintT(<<"USED", Rec[l-1].run, used>>))

Formed ==
  /\ E.ev = "formed"
  /\ E.quiet
  /\ (On("ELECT") => ElectionOutcome(E.state)) = TRUE
  /\ (On("CONV") => Converged(E.state)) = TRUE
  /\ cnt' = Zero /\ UNCHANGED <<curop, taint, rejoined, conf, used>>

Client ==
  /\ E.ev = "client"
  /\ curop' = E.op
  /\ UNCHANGED <<cnt, taint, rejoined, conf, used>>

IsConflictLine == "conflict" \in DOMAIN E /\ E.conflict
Msg ==
  /\ E.ev = "msg"
  /\ cnt' = [cnt EXCEPT ![IF E.kind \in {"forward", "copy", "ack"} THEN E.kind ELSE "fanout"] =
                 IF E.kind \in {"forward", "copy", "ack"} THEN @ + 1
                 ELSE IF E.kind = "copy_by_secondary" THEN @ + 1 ELSE @,
                          !.cfwd = IF E.kind = "forward" /\ IsConflictLine THEN @ + 1 ELSE @,
                          !.ccopy = IF E.kind = "copy" /\ IsConflictLine THEN @ + 1 ELSE @]
  /\ UNCHANGED <<curop, taint, rejoined, conf, used>>

QuiesceOK ==
  /\ E.ev \in {"quiesce", "end"}
  /\ E.quiet
  \* (an election is not a client operation in the sense of the bound: it has to end, which `quiet' says)
  /\ (On("BUDGET") => (E.ev = "end" \/ curop.op = "force-election" \/ Budget(E.state, cnt))) = TRUE
  /\ (On("CONV") => Converged(E.state)) = TRUE
  /\ (On("PEND") => NothingPending(E.state)) = TRUE
  /\ (On("ELECT") => ElectionOutcome(E.state)) = TRUE
  /\ cnt' = Zero /\ UNCHANGED <<curop, taint, rejoined, conf, used>>

Restarted ==
  /\ E.ev = "restarted"
  /\ rejoined' = rejoined \cup {E.node}
  /\ UNCHANGED <<cnt, curop, taint, conf, used>>

(* ---------------- known findings (C05) ---------------- *)
ConvergedExcept(S, X) ==
  \A p \in Primaries(S) : \A n \in Alive(S) \ X : SameDataBut(S[n].data, S[p].data, taint)

(* the catch-up a rejoining node receives does not reproduce the primary's data (lines   *)
(* without the version field, strategy dropped from create-db, tombstones sent as values, *)
(* stale keys never deleted, writes racing with the catch-up): the rejoined node may     *)
(* differ from the primary; while it is still StartingUp it also re-broadcasts the        *)
(* (mangled) catch-up writes to the other members, so other secondaries may be damaged    *)
(* too.  Still required: the run ends quiet and a primary exists.                        *)
Dev_ResyncDiverges ==
  /\ "Dev_ResyncDiverges" \in Devs
  /\ E.ev \in {"quiesce", "end"} /\ E.quiet /\ On("CONV")
  /\ rejoined # {}
  /\ conf       \* the lines the primary sent are those of the recorded catch-up (NunCatchUp)
  /\ Converged(E.state) = FALSE
  /\ Primaries(E.state) # {}
  /\ cnt' = Zero /\ UNCHANGED <<curop, taint, rejoined, conf>>
  /\ used' = used \cup {"Dev_ResyncDiverges"}

(* a rejoining node is told about itself, dials itself and asks itself for the operations *)
(* since its last one; building that list from its own log panics in the supervisor loop  *)
(* when the log mentions a database that was not restored from disk                       *)
Dev_SelfSyncPanic ==
  /\ "Dev_SelfSyncPanic" \in Devs
  /\ E.ev = "loop_panic" /\ E.loop = "sup" /\ E.self_sync /\ E.node \in rejoined
  /\ UNCHANGED <<cnt, curop, taint, rejoined, conf>>
  /\ used' = used \cup {"Dev_SelfSyncPanic"}

(* ---------------- known findings (C04) ---------------- *)
OpKey == <<curop.d, curop.k>>

(* a remove issued on a secondary is applied there and never forwarded *)
Dev_RemoveOnSecondaryLocalOnly ==
  /\ "Dev_RemoveOnSecondaryLocalOnly" \in Devs
  /\ E.ev \in {"quiesce", "end"} /\ E.quiet /\ On("CONV")
  /\ curop.op = "remove" /\ curop.at_secondary
  /\ Converged(E.state) = FALSE
  /\ taint' = taint \cup {OpKey}
  /\ (\A p \in Primaries(E.state) : \A n \in Alive(E.state) : SameDataBut(E.state[n].data, E.state[p].data, taint')) = TRUE
  /\ (On("BUDGET") => Budget(E.state, cnt)) = TRUE
  /\ cnt' = Zero /\ UNCHANGED <<curop, rejoined, conf>>
  /\ used' = used \cup {"Dev_RemoveOnSecondaryLocalOnly"}

(* a plain / versioned write issued on a secondary is applied there, forwarded, and    *)
(* applied again when the primary's copy comes back (or judged there against another  *)
(* version): the origin ends with a different version (or value) of that one key      *)
Dev_SecondaryWriteAppliedLocally ==
  /\ "Dev_SecondaryWriteAppliedLocally" \in Devs
  /\ E.ev \in {"quiesce", "end"} /\ E.quiet /\ On("CONV")
  /\ curop.op \in {"set", "set-safe", "create-user", "set-permissions", "remove"} /\ curop.at_secondary
  /\ Converged(E.state) = FALSE
  /\ taint' = taint \cup {OpKey}
  /\ (\A p \in Primaries(E.state) : \A n \in Alive(E.state) : SameDataBut(E.state[n].data, E.state[p].data, taint')) = TRUE
  /\ (On("BUDGET") => Budget(E.state, cnt)) = TRUE
  /\ cnt' = Zero /\ UNCHANGED <<curop, rejoined, conf>>
  /\ used' = used \cup {"Dev_SecondaryWriteAppliedLocally"}

(* ---------------- known findings (C07) ---------------- *)
ElectStep(name, cond) ==
  /\ name \in Devs
  /\ E.ev \in {"formed", "quiesce", "end"} /\ E.quiet /\ On("ELECT")
  /\ ElectionOutcome(E.state) = FALSE
  /\ cond = TRUE
  /\ cnt' = Zero /\ UNCHANGED <<curop, taint, rejoined, conf>>
  /\ used' = used \cup {name}

(* one primary, the oldest, every other node secondary -- but some node's member map    *)
(* still names another (or a second) primary                                            *)
Dev_ElectionStaleView ==
  ElectStep("Dev_ElectionStaleView",
            AllSettled(E.state) /\ OnePrimary(E.state) /\ OldestIsPrimary(E.state) /\ ~ViewsAgree(E.state))

(* the cluster goes quiet with every live node secondary *)
Dev_ElectionNoPrimary ==
  ElectStep("Dev_ElectionNoPrimary", AllSettled(E.state) /\ Primaries(E.state) = {})

(* exactly one primary, but a younger node than the longest-running live one *)
Dev_ElectionWrongPrimary ==
  ElectStep("Dev_ElectionWrongPrimary",
            AllSettled(E.state) /\ OnePrimary(E.state) /\ ~OldestIsPrimary(E.state))

(* C14: on an arbiter database a write issued on the secondary the arbiter is attached to, when it    *)
(* raises a conflict there (a stale version; or -- F20 -- the copy of the node's own accepted write     *)
(* coming back from the primary), sends the conflict record as a second line: one more forward and,    *)
(* when the primary accepts it, one more copy per secondary.  Still required: exactly one such extra    *)
(* line, the write itself within the bound, every copy acknowledged at most once, silence afterwards.   *)
Dev_ArbiterConflictSecondLine ==
  /\ "Dev_ArbiterConflictSecondLine" \in Devs
  /\ E.ev = "quiesce" /\ E.quiet /\ On("BUDGET")
  /\ curop.op \in {"set", "set-safe"} /\ curop.at_secondary
  /\ Budget(E.state, cnt) = FALSE
  /\ (\E n \in Alive(E.state) : curop.d \in DOMAIN E.state[n].data /\ E.state[n].data[curop.d].strategy = "arbiter") = TRUE
  /\ LET secs == Cardinality(Alive(E.state)) - 1 IN
       (/\ cnt.cfwd = 1 /\ cnt.forward - cnt.cfwd <= 1
        /\ cnt.ccopy <= secs /\ cnt.copy - cnt.ccopy <= secs
        /\ cnt.ack <= cnt.copy /\ cnt.fanout = 0) = TRUE
  /\ (On("CONV") => Converged(E.state)) = TRUE
  /\ cnt' = Zero /\ UNCHANGED <<curop, taint, rejoined, conf>>
  /\ used' = used \cup {"Dev_ArbiterConflictSecondLine"}

(* C13/C14: `resolve' never quiesces on a cluster: the primary broadcasts it, every      *)
(* secondary forwards it back to the primary, which broadcasts it again                 *)
Dev_ResolvePingPong ==
  /\ "Dev_ResolvePingPong" \in Devs
  /\ E.ev \in {"quiesce", "end"} /\ ~E.quiet
  /\ curop.op = "resolve"
  /\ cnt' = Zero /\ UNCHANGED <<curop, taint, rejoined, conf>>
  /\ used' = used \cup {"Dev_ResolvePingPong"}

TraceNext == l <= Len(Rec) /\ l' = l + 1 /\
             (Reset \/ Formed \/ Client \/ Msg \/ QuiesceOK \/ Dev_RemoveOnSecondaryLocalOnly
              \/ Dev_SecondaryWriteAppliedLocally \/ Dev_ResolvePingPong \/ Dev_ArbiterConflictSecondLine
              \/ Dev_ElectionStaleView \/ Dev_ElectionNoPrimary \/ Dev_ElectionWrongPrimary
              \/ Restarted \/ Dev_ResyncDiverges \/ Dev_SelfSyncPanic)
TraceSpec == TraceInit /\ [][TraceNext]_tvars

Progress ==
  /\ (l > TLCGet(1)) => TLCSet(1, l)
  /\ (l = Len(Rec) + 1 /\ used # {}) => PrintT(<<"USED", Rec[l-1].run, used>>)
TraceAccepted ==
  IF TLCGet(1) = Len(Rec) + 1
  THEN PrintT(<<"ACCEPTED", Len(Rec)>>)
  ELSE PrintT(<<"REJECTED", TLCGet(1), Rec[TLCGet(1)].run, TLCGet(1)>>) /\ FALSE
=============================================================================
