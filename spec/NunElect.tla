------------------------------ MODULE NunElect ------------------------------
(***************************************************************************)
(* Implementation-shaped model of NunDB's election and membership protocol *)
(* (election_ops.rs, the cluster commands of process_request.rs, the       *)
(* replication loop and the replication supervisor of replication_ops.rs,  *)
(* the pending-operation table, tcp_ops.rs' end-of-stream handling), at    *)
(* the granularity of the cluster simulator: one action per               *)
(*   Sup(n)        the supervisor of n handles one queued command           *)
(*   Repl(n)       the replication loop of n handles one queued message     *)
(*   Deliver(x,y)  the session on y of the connection dialled by x          *)
(*                 processes the next line (it may block inside an          *)
(*                 election: the handler thread parks in a wait loop)       *)
(*   Reply(x,y)    x processes the next reply line of that connection       *)
(*   Tick(o)       one iteration of the wait loop thread o is parked in     *)
(*                 (taken only when nothing else can move: messages are     *)
(*                 faster than the election timeout)                        *)
(*   Client(i)     auth / debug force-election / death of a node            *)
(*   InitElect(n)  start_inital_election of a node that is still StartingUp *)
(* The model says what the code does, including what it does wrong: the    *)
(* invariants at the end classify the quiescent outcomes.  No key-value    *)
(* data is modelled (the catch-up of a joining node is empty).             *)
(*                                                                         *)
(* The whole state is one record S so that a handler = a composition of    *)
(* pure functions S -> S, in the order of the statements of the code.      *)
(***************************************************************************)
EXTENDS Integers, Sequences, FiniteSets, TLC

CONSTANTS Nodes,      \* set of node names
          NodeSeq,    \* the same as a sequence (order of the case's node list)
          Pid,        \* [Nodes -> Nat]: start time; smaller = running longer
          Timeout,    \* NUN_ELECTION_TIMEOUT in ms (wait loops poll every 2 ms)
          Ops,        \* sequence of [op |-> "auth" | "force" | "kill", node |-> n]
          SeqPrefix,  \* the first SeqPrefix commands are issued one by one at quiescence,
                      \* the others at any moment
          MaxClock,   \* bound on operation ids (exploration bound, see Bounded)
          Formation,  \* "join": every node asked every other node to join at start-up;
                      \* "direct": NodeSeq[1] won its election alone and was then asked by the others
          FormSched   \* <<>>, or the one order of steps in which the cluster forms (see FormFollows)

VARIABLES S,      \* the cluster state (record, see Init)
          phase,  \* "form" | "ops": before / after the `formed' observation
          initi,  \* next position of NodeSeq to be considered for the initial election
          next,   \* index of the next client command
          sched   \* history of step labels (not part of the view)

vars == <<S, phase, initi, next, sched>>

Pairs == Nodes \X Nodes
NoLink == [st |-> "none", orphan |-> FALSE, q |-> <<>>, rsp |-> <<>>, tag |-> <<>>, sess |-> FALSE, no |-> 0]
NoCont == [k |-> "none", l |-> <<>>, rp |-> 0, a |-> "", b |-> 0]
Line(t, k, a, b, id) == [t |-> t, k |-> k, a |-> a, b |-> b, id |-> id]

Origin(kind, x, y) == kind \o ":" \o x \o ">" \o y

(* ---------------- start-up: every node asked every other node to join ---------------- *)
(* `join x' at y while y has no member yet: `secoundary x' for the supervisor, and the      *)
(* election that follows is won at once (a cluster of one): `election-win self', Primary     *)
RECURSIVE JoinCmds(_, _)
JoinCmds(y, i) == IF i > Len(NodeSeq) THEN <<>>
                  ELSE (IF NodeSeq[i] = y THEN <<>>
                        ELSE <<[c |-> "secoundary", a |-> NodeSeq[i]], [c |-> "election-win", a |-> "self"]>>)
                       \o JoinCmds(y, i + 1)

DirectCmds == <<[c |-> "election-win", a |-> "self"]>> \o
              [i \in 1..(Len(NodeSeq) - 1) |-> [c |-> "secoundary", a |-> NodeSeq[i + 1]]]

InitS == [role |-> [n \in Nodes |-> IF (Formation = "join" /\ Cardinality(Nodes) > 1) \/ (Formation = "direct" /\ n = NodeSeq[1])
                                     THEN "Primary" ELSE "StartingUp"],     \* (a node nobody asked to join is still starting up)
          pid |-> Pid,                          \* start time of the running incarnation of every node
          alive |-> [n \in Nodes |-> TRUE],
          supdead |-> [n \in Nodes |-> FALSE],
          mem |-> [n \in Nodes |-> [m \in Nodes |-> "-"]],
          snd |-> [n \in Nodes |-> {}],
          pend |-> [n \in Nodes |-> <<>>],      \* function id -> entry (empty function)
          replq |-> [n \in Nodes |-> <<>>],
          supq |-> [n \in Nodes |-> IF Formation = "join" THEN JoinCmds(n, 1)
                                     ELSE IF n = NodeSeq[1] THEN DirectCmds ELSE <<>>],
          link |-> [l \in Pairs |-> NoLink],
          thr |-> <<>>,                         \* function origin -> parked thread
          lno |-> 0,
          pendinit |-> {},                      \* restarted nodes whose start_inital_election is still to come
          relinked |-> FALSE]

Init ==
  /\ S = InitS
  /\ phase = "form" /\ initi = 1 /\ next = 1 /\ sched = <<>>

(* ---------------- small steps of the code ---------------- *)
(* Operation ids.  The code takes them from the clock; they are only ever compared for equality  *)
(* (pending table, acknowledgements, the id an election thread waits for), so the model uses the *)
(* smallest id above every id still referred to somewhere: states that differ only in how many   *)
(* ids were consumed earlier coincide, and a self-sustaining exchange is a cycle, not an          *)
(* unbounded chain.  Ids still reflect the order of creation among the live ones.                 *)
SeqIds(q) == {q[i].id : i \in DOMAIN q}
MaxOf(ids) == IF ids = {} THEN 0 ELSE CHOOSE i \in ids : \A j \in ids : j <= i
LiveIds(T) == UNION ({SeqIds(T.replq[n]) : n \in Nodes} \cup {DOMAIN T.pend[n] : n \in Nodes}
                     \cup {SeqIds(T.link[l].q) : l \in Pairs} \cup {SeqIds(T.link[l].rsp) : l \in Pairs}
                     \cup {{T.thr[o].id, T.thr[o].c.rp} : o \in DOMAIN T.thr})
FreshId(T) == MaxOf(LiveIds(T)) + 1
EnqRepl(T, n, k, a, b) ==
  [T EXCEPT !.replq[n] = Append(@, [k |-> k, a |-> a, b |-> b, id |-> FreshId(T)])]
EnqSup(T, n, c, a) == [T EXCEPT !.supq[n] = Append(@, [c |-> c, a |-> a])]
PushRsp(T, l, lines) == [T EXCEPT !.link[l].rsp = @ \o lines]
(* reply lines of a processed request.  The `ok' line that follows every request is left out: the *)
(* dialling side skips it ("Ignoring ok message"), it changes nothing                             *)
Replies(rp, n) == IF rp > 0 THEN <<[t |-> "ack", id |-> rp, a |-> n]>> ELSE <<>>
Members(T, n) == {m \in Nodes : T.mem[n][m] # "-"}

(* election_win *)
Win(T, n) == [EnqSup(T, n, "election-win", "self") EXCEPT !.role[n] = "Primary"]

Drop(f, o) == TLCEval([t \in DOMAIN f \ {o} |-> f[t]])

(* what remains to be done by the handler once the (possibly blocking) call returns *)
Finish(T, n, o, c) ==
  LET T0 == [T EXCEPT !.thr = Drop(@, o)] IN
  CASE c.k = "none" -> T0
    [] c.k = "eval" -> PushRsp(EnqRepl(T0, n, "cand", c.a, c.b), c.l, Replies(c.rp, n))   \* re-emission, then ack + ok
    [] c.k = "war" -> PushRsp(T0, c.l, Replies(c.rp, n))
    [] c.k = "leave" -> EnqRepl(T0, n, "replicate-leave", c.a, 0)                          \* re-emission of Leave

Park(T, o, n, site, id, start, c) ==
  [T EXCEPT !.thr = (o :> [node |-> n, site |-> site, id |-> id, start |-> start, c |-> c]) @@ Drop(@, o)]

(* start_election, up to its first yield *)
StartElection(T, n, o, c) ==
  IF Cardinality(Members(T, n)) <= 1
  THEN Finish(Win(T, n), n, o, c)                                       \* "single"
  ELSE Park(EnqRepl(T, n, "cand", n, T.pid[n]), o, n, "election.wait_registered", FreshId(T), 0, c)

(* start_new_election *)
NewElection(T, n, o, c) == StartElection([T EXCEPT !.role[n] = "StartingUp"], n, o, c)

(* one iteration of the wait loop a thread is parked in, up to its next yield / return *)
Resume(T, o) ==
  LET t == T.thr[o]
      n == t.node
      has == t.id \in DOMAIN T.pend[n]
      st == t.start + 2
  IN CASE t.site = "election.wait_registered" ->
            IF ~has /\ st < Timeout THEN [T EXCEPT !.thr[o].start = st]
            ELSE IF ~has THEN Finish(Win(T, n), n, o, t.c)                              \* "not_registered"
            ELSE IF T.role[n] # "StartingUp" THEN Finish(T, n, o, t.c)                  \* no longer eligible
            ELSE [T EXCEPT !.thr[o].site = "election.wait_acks", !.thr[o].start = 0]
       [] t.site = "election.wait_acks" ->
            IF st > Timeout THEN Finish(Win(T, n), n, o, t.c)                           \* "timeout"
            ELSE IF has THEN (IF T.role[n] # "StartingUp" THEN Finish(T, n, o, t.c)
                              ELSE [T EXCEPT !.thr[o].start = st])
            ELSE [T EXCEPT !.thr[o].site = "election.grace"]                             \* "acks received"
       [] t.site = "election.grace" ->
            IF T.role[n] = "StartingUp" THEN Finish(Win(T, n), n, o, t.c)               \* "acks"
            ELSE Finish(T, n, o, t.c)

(* ---------------- pending-operation table ---------------- *)
NoReps == [m \in Nodes |-> "-"]

(* register_pending_opp(id, m) for every m of `targets' *)
Register(T, n, id, targets) ==
  IF targets = {} THEN T
  ELSE LET old == IF id \in DOMAIN T.pend[n] THEN T.pend[n][id] ELSE [reps |-> NoReps, rc |-> 0, ac |-> 0]
           new == [reps |-> TLCEval([m \in Nodes |-> IF m \in targets THEN "w" ELSE old.reps[m]]),
                   rc |-> old.rc + Cardinality({m \in targets : old.reps[m] # "w"}),
                   ac |-> old.ac]
       IN [T EXCEPT !.pend[n] = (id :> new) @@ Drop(@, id)]

(* acknowledge_pending_opp(id, from) *)
Ack(T, x, id, from) ==
  IF id \notin DOMAIN T.pend[x] THEN T
  ELSE LET p == T.pend[x][id] IN
       IF p.reps[from] = "w"
       THEN LET p1 == [p EXCEPT !.reps[from] = "a", !.ac = @ + 1] IN
            IF p1.rc = p1.ac THEN [T EXCEPT !.pend[x] = Drop(@, id)]
            ELSE [T EXCEPT !.pend[x][id] = p1]
       ELSE [T EXCEPT !.pend[x][id].reps[from] = "a"]      \* not registered (inserted as acknowledged) / twice

(* ---------------- links ---------------- *)
(* a connection whose sender was dropped by its owner ends once everything queued went out *)
CloseDrained(T) ==
  [T EXCEPT !.link = TLCEval([l \in Pairs |-> IF T.link[l].st = "open" /\ T.link[l].orphan /\ T.link[l].q = <<>>
                                              THEN [T.link[l] EXCEPT !.st = "closed"] ELSE T.link[l]])]

SendTo(T, n, targets, line) ==
  [T EXCEPT !.link = TLCEval([l \in Pairs |-> IF l[1] = n /\ l[2] \in targets THEN [T.link[l] EXCEPT !.q = Append(@, line)]
                                              ELSE T.link[l]])]

(* ---------------- replication loop ---------------- *)
ReplStep(T, n) ==
  LET m == Head(T.replq[n])
      T0 == [T EXCEPT !.replq[n] = Tail(@)]
      targets == IF T.role[n] = "Primary" THEN {t \in Nodes \ {n} : T.mem[n][t] = "S"}
                 ELSE IF T.role[n] = "StartingUp" THEN Members(T, n) \ {n}
                 ELSE {}
  IN SendTo(Register(T0, n, m.id, targets), n, targets \cap T.snd[n], Line("rp", m.k, m.a, m.b, m.id))

(* ---------------- supervisor ---------------- *)
RJoin(a) == Line("replicate-join", "", a, 0, 0)
SeqOfSet(set, order) == SelectSeq(order, LAMBDA x : x \in set)

(* send_cluster_state_to_the_new_member + the new connection; `order' fixes the iteration  *)
(* order of the member map                                                                 *)
Connect(T, n, N, role, demote, handshake, order, selfjoin) ==
  LET secs == {m \in Nodes : T.mem[n][m] = "S"}
      toNew == [i \in 1..Len(SeqOfSet(secs, order)) |-> RJoin(SeqOfSet(secs, order)[i])]
      T1 == SendTo(T, n, secs \cap T.snd[n], RJoin(N))
      q0 == handshake \o toNew \o (IF selfjoin THEN <<RJoin(N)>> ELSE <<>>)
      mem1 == TLCEval([m \in Nodes |-> IF m = N THEN role
                                       ELSE IF demote /\ T.mem[n][m] # "-" THEN "S" ELSE T.mem[n][m]])
  IN [T1 EXCEPT !.mem[n] = mem1,
                !.snd[n] = @ \cup {N},
                !.lno = @ + 1,
                !.relinked = @ \/ T.link[<<n, N>>].st = "open",      \* (a closed connection of an earlier life is replaced)
                !.link[<<n, N>>] = [st |-> "open", orphan |-> FALSE, q |-> q0, rsp |-> <<>>, tag |-> <<>>,
                                    sess |-> FALSE, no |-> T.lno + 1]]

Auth == Line("auth", "", "", 0, 0)
SupStep(T, n, order) ==
  LET c == Head(T.supq[n])
      T0 == [T EXCEPT !.supq[n] = Tail(@)]
      N == c.a
  IN IF T.supdead[n] THEN T0
     ELSE CASE c.c = "secoundary" ->
                 \* a node that is still listed joins again: the stale entry is replaced (repaired: before,
                 \* the supervisor panicked here -- "Re-adding a secoundary" -- and was gone for good)
                 LET T1 == IF T0.mem[n][N] = "-" THEN T0
                           ELSE [T0 EXCEPT !.mem[n][N] = "-", !.snd[n] = @ \ {N},
                                           !.link[<<n, N>>].orphan = @ \/ (N \in T0.snd[n])]
                 IN Connect(T1, n, N, "S", FALSE, <<Auth, Line("set-primary", "", n, 0, 0)>>, order, TRUE)
            [] c.c = "primary" ->
                 IF T0.mem[n][N] = "-"
                 THEN Connect(T0, n, N, "P", TRUE,
                              <<Auth, Line("set-secoundary", "", n, 0, 0), Line("replicate-since", "", n, 0, 0)>>, order, FALSE)
                 ELSE [T0 EXCEPT !.mem[n] = TLCEval([m \in Nodes |-> IF m = N THEN "P" ELSE IF @[m] # "-" THEN "S" ELSE "-"])]
            [] c.c = "new-secoundary" ->
                 IF T0.mem[n][N] = "-"
                 THEN Connect(T0, n, N, "S", FALSE,
                              <<Auth, Line("set-secoundary", "", n, 0, 0), Line("replicate-since", "", n, 0, 0)>>, order, FALSE)
                 ELSE T0
            [] c.c = "leave" ->
                 IF N # n /\ T0.mem[n][N] # "-"
                 THEN [T0 EXCEPT !.mem[n][N] = "-", !.snd[n] = @ \ {N},
                                 !.link[<<n, N>>].orphan = @ \/ (N \in T0.snd[n])]
                 ELSE T0
            [] c.c = "replicate-since-to" -> T0       \* the catch-up list is empty: no data in this model
            [] c.c = "election-win" ->
                 EnqRepl([T0 EXCEPT !.mem[n] = TLCEval([m \in Nodes |-> IF m = n THEN "P" ELSE IF @[m] # "-" THEN "S" ELSE "-"]),
                                    !.snd[n] = @ \ {n},
                                    !.link[<<n, n>>].orphan = @ \/ (n \in T0.snd[n])],
                         n, "set-primary", n, 0)

(* ---------------- a line reaches the session on y of the connection dialled by x ---------------- *)
SetPrimary(T, y, X, l, rp, o) ==
  IF T.role[y] # "Primary"
  THEN PushRsp([EnqSup(T, y, "primary", X) EXCEPT !.role[y] = "Secoundary", !.link[l].tag = <<X, "P">>], l, Replies(rp, y))
  ELSE NewElection(T, y, o, [k |-> "war", l |-> l, rp |-> rp, a |-> "", b |-> 0])     \* "there is going to be war"

Eval(T, y, pid, name, rp, l, o) ==
  LET c == [k |-> "eval", l |-> l, rp |-> rp, a |-> name, b |-> pid] IN
  IF pid = T.pid[y] THEN Finish(T, y, o, c)
  ELSE IF pid > T.pid[y] THEN StartElection(T, y, o, c)                  \* the candidate is younger
  ELSE Finish([EnqRepl(T, y, "alive", y, 0) EXCEPT !.role[y] = "Secoundary"], y, o, c)

DeliverStep(T, x, y) ==
  LET l == <<x, y>>
      m == Head(T.link[l].q)
      T0 == [T EXCEPT !.link[l].q = Tail(@), !.link[l].sess = TRUE]
      o == Origin("L", x, y)
  IN CASE m.t = "auth" -> PushRsp(T0, l, <<[t |-> "noise", id |-> 0, a |-> "valid auth"]>>)   \* pushed line; the dialler cannot parse it
       [] m.t = "set-primary" -> SetPrimary(T0, y, m.a, l, 0, o)
       [] m.t = "set-secoundary" -> [T0 EXCEPT !.link[l].tag = <<m.a, "S">>]
       [] m.t = "replicate-since" -> EnqSup(T0, y, "replicate-since-to", m.a)
       [] m.t = "replicate-join" -> EnqSup(T0, y, "new-secoundary", m.a)
       [] m.t = "rp" ->
            CASE m.k = "cand" -> Eval(T0, y, m.b, m.a, m.id, l, o)
              [] m.k \in {"alive", "active"} -> PushRsp(EnqRepl(T0, y, "active", m.a, 0), l, Replies(m.id, y))
              [] m.k = "set-primary" -> SetPrimary(T0, y, m.a, l, m.id, o)
              [] m.k = "replicate-leave" -> PushRsp(EnqSup(T0, y, "leave", m.a), l, Replies(m.id, y))

ReplyStep(T, x, y) ==
  LET l == <<x, y>>
      r == Head(T.link[l].rsp)
      T0 == [T EXCEPT !.link[l].rsp = Tail(@)]
  IN IF r.t = "ack" THEN Ack(T0, x, r.id, r.a) ELSE T0

(* ---------------- a node dies ---------------- *)
RECURSIVE Glue(_, _, _)
Glue(T, n, i) ==     \* end-of-stream handling on the peers of the connections the dead node dialled
  IF i > Len(NodeSeq) THEN T
  ELSE LET y == NodeSeq[i]
           lk == T.link[<<n, y>>]
           T1 == IF y = n \/ ~T.alive[y] \/ lk.st # "open" \/ ~lk.sess \/ lk.tag = <<>> THEN T
                 ELSE IF lk.tag[2] = "P"
                      THEN NewElection(EnqSup(T, y, "leave", lk.tag[1]), y, "disc:" \o y \o "<" \o n,
                                       [k |-> "leave", l |-> <<>>, rp |-> 0, a |-> lk.tag[1], b |-> 0])
                      ELSE EnqSup(T, y, "leave", lk.tag[1])
       IN Glue(T1, n, i + 1)

Kill(T, n) ==
  LET T1 == Glue([T EXCEPT !.alive[n] = FALSE], n, 1) IN
  [T1 EXCEPT !.link = TLCEval([l \in Pairs |->
      IF l[1] = n /\ T1.link[l].st = "open" THEN [T1.link[l] EXCEPT !.st = "closed"]
      ELSE IF l[2] = n /\ T1.link[l].st = "open" THEN [T1.link[l] EXCEPT !.q = <<>>, !.rsp = <<>>]
      ELSE T1.link[l]])]

(* ---------------- a node (re)starts and asks every live node to let it join ---------------- *)
RECURSIVE AskJoin(_, _, _)
AskJoin(T, k, i) ==      \* `auth; join k' on a connection of its own to every other live node, in order
  IF i > Len(NodeSeq) THEN T
  ELSE LET y == NodeSeq[i]
           T1 == IF y = k \/ ~T.alive[y] \/ T.role[y] = "Secoundary" THEN T      \* "Ignoring join on secondary"
                 ELSE NewElection(EnqSup(T, y, "secoundary", k), y, Origin("join", k, y), NoCont)
       IN AskJoin(T1, k, i + 1)

Restart(T, k, newpid) ==
  LET T1 == IF T.alive[k] THEN Kill(T, k) ELSE T
      \* a new process: nothing in memory, role StartingUp; threads of the old process are gone
      T2 == [T1 EXCEPT !.alive[k] = TRUE, !.role[k] = "StartingUp", !.supdead[k] = FALSE, !.pid[k] = newpid,
                       !.mem[k] = [m \in Nodes |-> "-"], !.snd[k] = {}, !.pend[k] = <<>>,
                       !.replq[k] = <<>>, !.supq[k] = <<>>, !.pendinit = @ \cup {k},
                       !.thr = TLCEval([o \in {x \in DOMAIN T1.thr : T1.thr[x].node # k} |-> T1.thr[o]]),
                       \* connections other nodes had dialled to the old process ended with it
                       !.link = TLCEval([l \in Pairs |-> IF l[2] = k /\ T1.link[l].st = "open"
                                                          THEN [T1.link[l] EXCEPT !.st = "closed"] ELSE T1.link[l]])]
  IN AskJoin(T2, k, 1)

ClientStep(T, i) ==
  LET op == Ops[i] IN
  CASE op.op = "auth" -> T
    [] op.op = "force" -> NewElection(T, op.node, "client:" \o ToString(i - 1), NoCont)
    [] op.op = "kill" -> Kill(T, op.node)
    [] op.op = "restart" -> Restart(T, op.node, op.pid)

(* ---------------- enabledness ---------------- *)
Busy(T, x, y) == Origin("L", x, y) \in DOMAIN T.thr
ReplEn(T, n) == T.alive[n] /\ T.replq[n] # <<>>
SupEn(T, n) == T.alive[n] /\ T.supq[n] # <<>>
DeliverEn(T, l) == T.link[l].st = "open" /\ T.alive[l[2]] /\ ~Busy(T, l[1], l[2]) /\ T.link[l].q # <<>>
ReplyEn(T, l) == T.link[l].st = "open" /\ T.alive[l[1]] /\ T.link[l].rsp # <<>>
AnyEn(T) == (\E n \in Nodes : ReplEn(T, n) \/ SupEn(T, n)) \/ (\E l \in Pairs : DeliverEn(T, l) \/ ReplyEn(T, l))
Quiet(T) == ~AnyEn(T) /\ DOMAIN T.thr = {}

Perms == {p \in [1..Len(NodeSeq) -> Nodes] : \A a, b \in 1..Len(NodeSeq) : a # b => p[a] # p[b]}
(* orders of the member map that make a difference for this supervisor command *)
Orders(T, n) == LET c == Head(T.supq[n]) secs == {m \in Nodes : T.mem[n][m] = "S"} IN
                IF c.c \in {"secoundary", "primary", "new-secoundary"} /\ T.mem[n][c.a] = "-" /\ Cardinality(secs) > 1
                THEN Perms ELSE {NodeSeq}

Log(s) == sched' = Append(sched, s)

Sup(n) == /\ SupEn(S, n)
          /\ \E order \in Orders(S, n) : S' = CloseDrained(SupStep(S, n, order))
          /\ Log("sup:" \o n) /\ UNCHANGED <<phase, initi, next>>
Repl(n) == /\ ReplEn(S, n) /\ S' = CloseDrained(ReplStep(S, n))
           /\ Log("repl:" \o n) /\ UNCHANGED <<phase, initi, next>>
Deliver(l) == /\ DeliverEn(S, l) /\ S' = CloseDrained(DeliverStep(S, l[1], l[2]))
              /\ Log(Origin("deliver", l[1], l[2])) /\ UNCHANGED <<phase, initi, next>>
Reply(l) == /\ ReplyEn(S, l) /\ S' = CloseDrained(ReplyStep(S, l[1], l[2]))
            /\ Log(Origin("reply", l[1], l[2])) /\ UNCHANGED <<phase, initi, next>>

(* commands after the sequential prefix are issued at any moment *)
FreeClient == phase = "ops" /\ next > SeqPrefix /\ next <= Len(Ops)

Tick(o) == /\ ~AnyEn(S) /\ ~FreeClient /\ o \in DOMAIN S.thr
           /\ S' = CloseDrained(Resume(S, o))
           /\ Log("tick:" \o o) /\ UNCHANGED <<phase, initi, next>>

(* start_inital_election: the nodes are visited in order; one that is still StartingUp runs an election *)
Eligible(i) == Formation = "join" /\ i <= Len(NodeSeq) /\ S.role[NodeSeq[i]] = "StartingUp" /\ S.alive[NodeSeq[i]]
InitElect ==
  /\ phase = "form" /\ Quiet(S)
  /\ \E i \in initi..Len(NodeSeq) :
       /\ Eligible(i) /\ \A j \in initi..(i - 1) : ~Eligible(j)
       /\ S' = CloseDrained(StartElection(S, NodeSeq[i], "init:" \o NodeSeq[i], NoCont))
       /\ initi' = i + 1
       /\ Log("init:" \o NodeSeq[i])
  /\ UNCHANGED <<phase, next>>

Formed ==
  /\ phase = "form" /\ Quiet(S) /\ \A j \in initi..Len(NodeSeq) : ~Eligible(j)
  /\ phase' = "ops" /\ Log("formed") /\ UNCHANGED <<S, initi, next>>

(* start_inital_election of a restarted node: one second after its start, i.e. once the cluster is *)
(* quiet again, a node that is still StartingUp runs an election                                  *)
PendEligible == {k \in S.pendinit : S.alive[k] /\ S.role[k] = "StartingUp"}
RejoinInit ==
  /\ phase = "ops" /\ Quiet(S) /\ next <= SeqPrefix + 1
  /\ \E k \in PendEligible :
       /\ S' = CloseDrained(StartElection([S EXCEPT !.pendinit = @ \ {k}], k, "init:" \o k, NoCont))
       /\ Log("init:" \o k)
  /\ UNCHANGED <<phase, initi, next>>

Client ==
  /\ phase = "ops" /\ next <= Len(Ops)
  /\ (next <= SeqPrefix => (Quiet(S) /\ PendEligible = {}))
  /\ S' = CloseDrained(ClientStep([S EXCEPT !.pendinit = {}], next))
  /\ next' = next + 1
  /\ Log("client:" \o ToString(next - 1))
  /\ UNCHANGED <<phase, initi>>

Next == \/ \E n \in Nodes : Sup(n) \/ Repl(n)
        \/ \E l \in Pairs : Deliver(l) \/ Reply(l)
        \/ \E o \in DOMAIN S.thr : Tick(o)
        \/ InitElect \/ Formed \/ Client \/ RejoinInit

Spec == Init /\ [][Next]_vars /\ WF_vars(Next)

(* ---------------- outcome at quiescence (C07) ---------------- *)
AliveN == {n \in Nodes : S.alive[n]}
Prim == {n \in AliveN : S.role[n] = "Primary"}
View(n) == {m \in Nodes : S.mem[n][m] = "P"}
Oldest(p) == \A n \in AliveN : S.pid[p] <= S.pid[n]
Settled == \A n \in AliveN : S.role[n] \in {"Primary", "Secoundary"}
GoodOutcome == /\ Cardinality(Prim) = 1
               /\ \A p \in Prim : Oldest(p) /\ (\A n \in AliveN \ {p} : S.role[n] = "Secoundary")
                                            /\ (\A n \in AliveN : View(n) = {p})
Mode == IF GoodOutcome THEN "good"
        ELSE IF ~Settled THEN "starting-up"
        ELSE IF Cardinality(Prim) = 0 THEN "no-primary"
        ELSE IF Cardinality(Prim) > 1 THEN "two-primaries"
        ELSE IF \E p \in Prim : ~Oldest(p) THEN "wrong-primary"
        ELSE "stale-view"

AllDone == Quiet(S) /\ phase = "ops" /\ next > Len(Ops) /\ PendEligible = {}
AtRest == Quiet(S) /\ PendEligible = {} /\ (phase = "ops" \/ \A j \in initi..Len(NodeSeq) : ~Eligible(j))

(* what holds in the code as it is (the recorded findings are the other modes) *)
NeverTwoPrimaries == AtRest => Mode # "two-primaries"
NobodyStartingUp == AtRest => Mode # "starting-up"
GoodOrKnown == AtRest => Mode \in {"good", "stale-view", "no-primary", "wrong-primary"}
Strict == AtRest => Mode = "good"                       \* C07 itself: expected to fail on the pinned code
NoRelink == ~S.relinked                                 \* the model keeps one connection per ordered pair
SupervisorAlive == \A n \in Nodes : ~S.supdead[n]

(* exploration bound: live operation ids *)
Bounded == FreshId(S) <= MaxClock
BoundNotReached == FreshId(S) < MaxClock
Terminates == <>[](Quiet(S))

(* ACTION_CONSTRAINT: explore one given formation order (recorded from a FIFO run of the simulator)  *)
(* and every order of what happens afterwards                                                      *)
FormFollows == (phase = "form" /\ FormSched # <<>>) =>
                 (Len(sched') <= Len(FormSched) /\ sched' = SubSeq(FormSched, 1, Len(sched')))

StateView == <<S, phase, initi, next>>
=============================================================================
