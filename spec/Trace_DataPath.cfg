SPECIFICATION TraceSpec
CONSTANTS
  Nodes <- CNodes
  P <- CP
  Ops <- COps
  InitStore <- CInit
  Strategy <- CStrategy
CONSTRAINT Progress
POSTCONDITION TraceAccepted
CHECK_DEADLOCK FALSE
