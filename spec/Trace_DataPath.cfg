SPECIFICATION TraceSpec
CONSTANTS
  Nodes <- CNodes
  P <- CP
  Ops <- COps
  InitStore <- CInit
CONSTRAINT Progress
POSTCONDITION TraceAccepted
CHECK_DEADLOCK FALSE
