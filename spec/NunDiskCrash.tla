---------------------------- MODULE NunDiskCrash ----------------------------
(***************************************************************************)
(* The disk strategy at the level of its file-system calls, with kills.    *)
(* NunDiskBytes supplies the write plan (one instruction per call), the    *)
(* BufWriter rule and the loader; this module adds the in-memory entries   *)
(* (state New / Ok / Updated / Deleted with the remembered addresses), the *)
(* client operations that change them, the snapshot run one call at a      *)
(* time, and a Crash action enabled between any two calls, after which     *)
(* the loader is run on what is on disk (buffered bytes are lost).         *)
(*                                                                         *)
(* Checked by TLC (C11 at design level, C06 at byte level):                *)
(*   RestoreExact   after a completed snapshot the loader returns exactly  *)
(*                  the live entries (C06), and every remembered address   *)
(*                  is the address of that key's record (AddrsValid)       *)
(*   CrashSafe      after a kill every previously persisted key loads with *)
(*                  its old or its new (value, version), nothing else      *)
(*                  appears, the start-up does not fail (C11)              *)
(* CrashSafe does not hold for the pinned plan (recorded findings F18,     *)
(* F19): KnownWindow describes where; CrashSafeOrKnown is the invariant    *)
(* of the green run and every crash transition is printed with its         *)
(* verdict (CUT lines).  With Variant = "ordered" the plan is the repaired *)
(* one (all values flushed, then appended key records, then each in-place  *)
(* update as one 12-byte write; loader stops at an incomplete trailing     *)
(* record): CrashSafe holds for incremental snapshots.                     *)
(***************************************************************************)
EXTENDS NunDiskBytes, TLC

CONSTANTS KeySet,     \* keys, as byte sequences
          ValSet,     \* values, as byte sequences
          MaxOps,     \* client operations between two snapshots
          MaxSnaps,   \* snapshots per behaviour (the last one may be killed)
          Variant     \* "pinned" | "ordered"

VARIABLES mem, w, prog, pc, after, reclaimNow, P, T, phase, nops, nsnaps, R, lastSite
vars == <<mem, w, prog, pc, after, reclaimNow, P, T, phase, nops, nsnaps, R, lastSite>>

Absent == [st |-> "Absent", v |-> <<>>, ver |-> 0, va |-> 0, ka |-> 0]
EmptyMark == <<60, 69, 109, 112, 116, 121, 62>>          \* "<Empty>"
Live(m) == {<<k, m[k].v, m[k].ver>> : k \in {x \in KeySet : m[x].st \in {"New", "Ok", "Updated"}}}

Init ==
  /\ mem = [k \in KeySet |-> Absent]
  /\ w = W(NoFiles, <<>>, <<>>)
  /\ prog = <<>> /\ pc = 0 /\ after = <<>> /\ reclaimNow = FALSE
  /\ P = [has |-> FALSE, s |-> {}] /\ T = {}
  /\ phase = "idle" /\ nops = 0 /\ nsnaps = 0 /\ R = [st |-> "-"] /\ lastSite = ""

Quiet == UNCHANGED <<w, prog, pc, after, reclaimNow, P, T, phase, nsnaps, R, lastSite>>

Set(k, v) ==
  /\ phase = "idle" /\ nops < MaxOps
  /\ LET e == mem[k] IN
     mem' = [mem EXCEPT ![k] =
        IF e.st = "Absent" THEN [st |-> "New", v |-> v, ver |-> 0, va |-> 0, ka |-> 0]
        ELSE [e EXCEPT !.st = IF e.st = "New" THEN "New" ELSE "Updated", !.v = v, !.ver = e.ver + 1]]
  /\ nops' = nops + 1 /\ Quiet

Remove(k) ==
  /\ phase = "idle" /\ nops < MaxOps /\ mem[k].st \notin {"Absent", "Deleted"}
  /\ LET e == mem[k] IN
     mem' = [mem EXCEPT ![k] = IF e.st = "New" THEN Absent
                                ELSE [e EXCEPT !.st = "Deleted", !.v = EmptyMark, !.ver = e.ver + 1]]
  /\ nops' = nops + 1 /\ Quiet

(* ---- the repaired plan ---- *)
RECURSIVE OrdValues(_, _, _, _, _)    \* pass 1: every value record; returns <<ins, [key -> value address]>>
OrdValues(ents, i, vaddr, ins, addr) ==
  IF i > Len(ents) THEN <<ins, addr>>
  ELSE LET e == ents[i] IN
    IF e.st = "Deleted" THEN OrdValues(ents, i + 1, vaddr, ins, addr)
    ELSE OrdValues(ents, i + 1, vaddr + ValueRecSize(e.v), ins \o ValueWrites(e.v), addr @@ (e.k :> vaddr))
RECURSIVE OrdKeys(_, _, _, _, _, _, _)
OrdKeys(ents, i, kaddr, addr, app, inplace, out) ==
  IF i > Len(ents) THEN <<app, inplace, out>>
  ELSE LET e == ents[i] IN
    IF e.st = "New"
    THEN OrdKeys(ents, i + 1, kaddr + KeyRecSize(e.k), addr,
                 Append(app, IBw("key.write.rec", "K", KeyRec(e.k, e.ver, addr[e.k]))), inplace,
                 Append(out, [e EXCEPT !.st = "Ok", !.va = addr[e.k], !.ka = kaddr]))
    ELSE IF e.st = "Updated"
    THEN OrdKeys(ents, i + 1, kaddr, addr, app,
                 Append(inplace, IWat("key.update.rec", e.ka + 8 + Len(e.k), LE4(e.ver) \o LE8(addr[e.k]))),
                 Append(out, [e EXCEPT !.st = "Ok", !.va = addr[e.k]]))
    ELSE OrdKeys(ents, i + 1, kaddr, addr, app,
                 Append(inplace, IWat("key.update.rec", e.ka + 8 + Len(e.k), LE4(-1) \o LE8(0))), Append(out, e))
OrderedPlan(fs, ents, id, strategy) ==
  LET ov == OrdValues(ents, 1, Size(fs, "V"), <<>>, <<>>)
      ok == OrdKeys(ents, 1, Size(fs, "K"), ov[2], <<>>, <<>>, <<>>)
  IN [ins |-> <<IOpen("K"), IOpen("V"), INop("snapshot.files_open")>> \o ov[1]
              \o <<IFlush("snapshot.values.flush", "V")>> \o ok[1] \o <<IFlush("snapshot.keys.flush", "K")>> \o ok[2]
              \o <<IMeta("meta.write.id", 0, LE8(id)), IMeta("meta.write.strategy", 8, LE4(strategy)), INop("snapshot.done")>>,
      ents |-> ok[3]]

(* loader of the repaired variant: an incomplete trailing key record is ignored *)
RECURSIVE StrictLoop(_, _, _, _)
StrictLoop(K, V, pos, acc) ==
  IF Len(Take(K, pos, 8)) < 8 THEN [st |-> "ok", m |-> acc]
  ELSE LET klen == DecU64(Take(K, pos, 8)) IN
       IF klen = Huge \/ Len(Take(K, pos + 8, klen + 12)) < klen + 12 THEN [st |-> "ok", m |-> acc]
       ELSE LET key == Take(K, pos + 8, klen)
                ver == DecI32(Take(K, pos + 8 + klen, 4))
                va == DecU64(Take(K, pos + 12 + klen, 8))
                vlen == IF va = Huge THEN Huge ELSE IF Len(Take(V, va, 8)) < 8 THEN Huge ELSE DecU64(Take(V, va, 8))
            IN IF ver = -1 THEN StrictLoop(K, V, pos + 20 + klen, acc)
               ELSE IF vlen = Huge \/ Len(Take(V, va + 8, vlen)) < vlen THEN [st |-> "fail"]
               ELSE StrictLoop(K, V, pos + 20 + klen, Put(acc, key, Take(V, va + 8, vlen), ver))
LoadOf(fs) ==
  IF Variant = "pinned" THEN LoadDb(fs, 0)
  ELSE IF ~fs["K"].ex THEN [st |-> "absent"] ELSE IF ~fs["V"].ex THEN [st |-> "fail"]
  ELSE StrictLoop(fs["K"].b, fs["V"].b, 0, {})

(* ---- snapshot ---- *)
ToUpdate(reclaim) == {k \in KeySet : mem[k].st # "Absent" /\ (mem[k].st # "Ok" \/ reclaim)}
Orders(S) == {s \in [1..Cardinality(S) -> S] : \A i, j \in DOMAIN s : i # j => s[i] # s[j]}
EntOf(k) == [k |-> k, v |-> mem[k].v, ver |-> mem[k].ver, st |-> mem[k].st, va |-> mem[k].va, ka |-> mem[k].ka]

BeginSnap(reclaim) ==
  /\ phase = "idle" /\ nsnaps < MaxSnaps
  /\ (Variant = "ordered" => ~reclaim)
  /\ \E ord \in Orders(ToUpdate(reclaim)) :
       LET ents == [i \in DOMAIN ord |-> EntOf(ord[i])]
           p == IF Variant = "pinned" THEN Plan(w.fs, ents, reclaim, 1, 0) ELSE OrderedPlan(w.fs, ents, 1, 0)
       IN /\ prog' = p.ins /\ after' = p.ents
  /\ pc' = 1 /\ reclaimNow' = reclaim /\ T' = Live(mem)
  /\ phase' = "snap" /\ nsnaps' = nsnaps + 1 /\ nops' = 0 /\ lastSite' = ""
  /\ UNCHANGED <<mem, w, P, R>>

Step ==
  /\ phase = "snap" /\ pc <= Len(prog)
  /\ w' = Exec(w, prog[pc]) /\ pc' = pc + 1
  /\ lastSite' = IF prog[pc].site # "" THEN prog[pc].site ELSE lastSite
  /\ UNCHANGED <<mem, prog, after, reclaimNow, P, T, phase, nops, nsnaps, R>>

Finish ==
  /\ phase = "snap" /\ pc > Len(prog)
  /\ mem' = [k \in KeySet |->
       IF \E i \in DOMAIN after : after[i].k = k
       THEN LET e == after[CHOOSE i \in DOMAIN after : after[i].k = k]
            IN [st |-> e.st, v |-> e.v, ver |-> e.ver, va |-> e.va, ka |-> e.ka]
       ELSE IF reclaimNow /\ mem[k].st = "Deleted" THEN Absent ELSE mem[k]]
  /\ P' = [has |-> TRUE, s |-> T] /\ phase' = "idle" /\ prog' = <<>> /\ pc' = 0 /\ after' = <<>>
  /\ UNCHANGED <<w, reclaimNow, T, nops, nsnaps, R, lastSite>>

(* a kill: what is in the two buffers is lost, the loader runs on the files *)
Crash ==
  /\ phase = "snap" /\ pc >= 1
  /\ phase' = "crashed" /\ R' = LoadOf(w.fs)
  /\ UNCHANGED <<mem, w, prog, pc, after, reclaimNow, P, T, nops, nsnaps, lastSite>>

Next ==
  \/ \E k \in KeySet, v \in ValSet : Set(k, v)
  \/ \E k \in KeySet : Remove(k)
  \/ \E r \in BOOLEAN : BeginSnap(r)
  \/ Step \/ Finish \/ Crash

Spec == Init /\ [][Next]_vars

(* ---- properties ---- *)
KeysOf(S) == {t[1] : t \in S}
ValOf(S, k) == CHOOSE t \in S : t[1] = k
Safe(Pp, Tt, Rr) ==
  /\ Rr.st = "ok"
  /\ \A k \in KeysOf(Pp) :
       \/ k \in KeysOf(Rr.m) /\ ValOf(Rr.m, k) = ValOf(Pp, k)
       \/ k \in KeysOf(Tt) /\ k \in KeysOf(Rr.m) /\ ValOf(Rr.m, k) = ValOf(Tt, k)
       \/ k \notin KeysOf(Tt) /\ k \notin KeysOf(Rr.m)
  /\ \A k \in KeysOf(Rr.m) \ KeysOf(Pp) : k \in KeysOf(Tt) /\ ValOf(Rr.m, k) = ValOf(Tt, k)

CrashSafe == (phase = "crashed" /\ P.has) => Safe(P.s, T, R)

WindowSites == {"value.write.len", "value.write.bytes", "value.write.status", "key.write.len", "key.write.bytes",
                "key.write.version", "key.write.addr", "key.update.version", "key.update.addr",
                "snapshot.keys.flush", "snapshot.keys_inplace.flush"}
KnownWindow == reclaimNow \/ lastSite \in WindowSites
CrashSafeOrKnown == CrashSafe \/ KnownWindow

RestoreExact == (phase = "idle" /\ P.has) =>
                  LET r == LoadOf(w.fs) IN r.st = "ok" /\ r.m = P.s
AddrsValid == phase = "idle" =>
  \A k \in KeySet : mem[k].st \in {"Ok", "Updated", "Deleted"} =>
       Take(w.fs["K"].b, mem[k].ka, 8 + Len(k)) = LE8(Len(k)) \o k

(* every crash transition with its verdict (aggregated by the driver) *)
EmitCut == (phase = "snap" /\ phase' = "crashed") =>
             PrintT(<<"CUT", lastSite, reclaimNow, IF ~P'.has THEN "first" ELSE IF Safe(P'.s, T', R') THEN "safe" ELSE "unsafe", R'.st>>)
=============================================================================
