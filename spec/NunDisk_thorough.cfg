SPECIFICATION Spec
CONSTANTS
  Keys = {"a", "bcd"}
  MaxLen = 10
INVARIANTS RestoreExact NotCorrupt PositionsValid
VIEW View
ACTION_CONSTRAINT Emit
CHECK_DEADLOCK FALSE
