SPECIFICATION Spec
CONSTANTS
  MaxArgs = 2
  Words = {"ack","arbiter","auth","cluster-state","create-db","create-user","debug","election","get","get-safe","increment","join","keys","leave","ls","metrics-state","remove","replicate","replicate-increment","replicate-join","replicate-leave","replicate-remove","replicate-since","replicate-snapshot","resolve","rp","set","set-primary","set-safe","set-secoundary","snapshot","unwatch","unwatch-all","use","use-db","watch","list-commands","set-permissions","bogus",""}
ACTION_CONSTRAINT Emit
CHECK_DEADLOCK FALSE
