---------------------------- MODULE Trace_Robust ----------------------------
(***************************************************************************)
(* C10.  Whatever line a client sends, the node answers it with a value,   *)
(* ok or an error, no handler panics, no lock stays poisoned, and the next *)
(* commands of another client still work: the probe write is accepted and  *)
(* the probe read returns what was written.  Lines the parser must reject  *)
(* (unknown word, empty line) are errors that change nothing.  The node's  *)
(* replication loop (a service thread of the real process) is run next to  *)
(* the handlers and fed what they queue: it must still be alive after      *)
(* every line (svcdead).                                                   *)
(***************************************************************************)
EXTENDS Integers, Sequences, FiniteSets, TLC, Json, IOUtils

Rec == ndJsonDeserialize(IOEnv.TRACE)
Cfg == JsonDeserialize(IOEnv.CFG)
Devs == {Cfg.devs[i] : i \in DOMAIN Cfg.devs}

VARIABLES l, pv, last, used
tvars == <<l, pv, last, used>>
E == Rec[l]

Answered(cls) == cls \in {"ok", "value", "error", "verr"} /\ ~E.svcdead

TraceInit == l = 1 /\ pv = "" /\ last = <<>> /\ used = {} /\ TLCSet(1, 0)

Reset == /\ E.ev = "reset" /\ pv' = "" /\ last' = E.dbs /\ used' = {}
         /\ ((used # {}) => PrintT(<<"USED", Rec[l-1].run, used>>))

Setup == E.ev = "cmd" /\ E.op = "setup" /\ Answered(E.cls) /\ ~E.poisoned
         /\ last' = E.dbs /\ UNCHANGED <<pv, used>>

Fuzz == /\ E.ev = "cmd" /\ E.op = "fuzz"
        /\ Answered(E.cls) /\ ~E.poisoned
        /\ last' = E.dbs /\ UNCHANGED <<pv, used>>

Garbage == /\ E.ev = "cmd" /\ E.op = "garbage"
           /\ E.cls = "error" /\ ~E.poisoned /\ ~E.svcdead /\ E.dbs = last
           /\ UNCHANGED <<pv, last, used>>

\* bytes that are not a command line (invalid UTF-8, unterminated line, binary / control / fragmented WebSocket
\* frame): no answer is demanded, the node must stay whole -- the probes and the new connection that follow tell
Raw == /\ E.ev = "cmd" /\ E.op = "raw"
       /\ ~E.poisoned /\ ~E.svcdead
       /\ last' = E.dbs /\ UNCHANGED <<pv, used>>

ProbeSet == /\ E.ev = "cmd" /\ E.op = "probe-set"
            /\ E.cls = "ok" /\ ~E.poisoned /\ ~E.svcdead
            /\ "d" \in DOMAIN E.dbs /\ "probe" \in DOMAIN E.dbs["d"].keys
            /\ E.dbs["d"].keys["probe"][1] = E.v /\ E.dbs["d"].keys["probe"][3] # "Deleted"
            /\ pv' = E.v /\ last' = E.dbs /\ UNCHANGED used

ProbeGet == /\ E.ev = "cmd" /\ E.op = "probe-get"
            /\ E.cls = "value" /\ E.rv = pv /\ ~E.poisoned /\ ~E.svcdead
            /\ last' = E.dbs /\ UNCHANGED <<pv, used>>

TraceNext == l <= Len(Rec) /\ l' = l + 1 /\ (Reset \/ Setup \/ Fuzz \/ Garbage \/ Raw \/ ProbeSet \/ ProbeGet)
TraceSpec == TraceInit /\ [][TraceNext]_tvars

Progress ==
  /\ (l > TLCGet(1)) => TLCSet(1, l)
  /\ (l = Len(Rec) + 1 /\ used # {}) => PrintT(<<"USED", Rec[l-1].run, used>>)

TraceAccepted ==
  IF TLCGet(1) = Len(Rec) + 1
  THEN PrintT(<<"ACCEPTED", Len(Rec)>>)
  ELSE PrintT(<<"REJECTED", TLCGet(1), Rec[TLCGet(1)].run, Rec[TLCGet(1)].i>>) /\ FALSE
=============================================================================
