SPECIFICATION Spec
CONSTANTS
  Sessions = {"s1", "s2"}
  Dbs = {"d", "e"}
  MaxLen = 7
INVARIANTS Notified
VIEW View
ACTION_CONSTRAINT Emit
CHECK_DEADLOCK FALSE
