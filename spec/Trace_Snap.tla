----------------------------- MODULE Trace_Snap -----------------------------
(***************************************************************************)
(* Every completed snapshot of one database, as recorded by the sequential *)
(* runner (the entries storage_data_disk visited, in its order, with their *)
(* state and remembered addresses; the database's files before; its files  *)
(* and its entries in memory after), against the byte-level model          *)
(* NunDiskBytes: executing the modelled sequence of file-system calls on   *)
(* the files before must give the files after, and the entries the model   *)
(* leaves in memory (state Ok, value and key addresses) must be the real   *)
(* ones.  Records are independent: <<"CONF" | "NONCONF", run, index>>.     *)
(***************************************************************************)
EXTENDS NunDiskBytes, TLC, Json, IOUtils

Rec == ndJsonDeserialize(IOEnv.TRACE)
VARIABLE l
E == Rec[l]

RECURSIVE RunAll(_, _, _)
RunAll(w, ins, i) == IF i > Len(ins) THEN w ELSE RunAll(Exec(w, ins[i]), ins, i + 1)

Same(e, r) == e.k = r.k /\ e.v = r.v /\ e.ver = r.ver /\ e.st = r.st /\ e.va = r.va /\ e.ka = r.ka
InMem(k) == \E i \in DOMAIN E.post.ents : E.post.ents[i].k = k

Conforms ==
  LET p == Plan(E.pre.files, E.pre.ents, E.pre.reclaim, E.pre.id, E.pre.strategy)
      w == RunAll(W(E.pre.files, <<>>, <<>>), p.ins, 1)
  IN /\ w.fs = E.post.files /\ w.kb = <<>> /\ w.vb = <<>>
     \* every entry the snapshot wrote is in memory as the model says (a tombstone forgotten by a
     \* reclaiming snapshot is gone)
     /\ \A i \in DOMAIN p.ents : \E j \in DOMAIN E.post.ents : Same(p.ents[i], E.post.ents[j])
     /\ \A i \in DOMAIN E.pre.ents :
          (E.pre.reclaim /\ E.pre.ents[i].st = "Deleted") => ~InMem(E.pre.ents[i].k)
     \* and what the modelled loader reads from the files is what is live in memory
     /\ LET r == LoadDb(w.fs, -1) IN
          /\ r.st = "ok"
          /\ r.m = {<<E.post.ents[j].k, E.post.ents[j].v, E.post.ents[j].ver>> :
                      j \in {x \in DOMAIN E.post.ents : E.post.ents[x].st # "Deleted"}}

TraceInit == l = 1
TraceNext == /\ l <= Len(Rec) /\ l' = l + 1
             /\ IF (Conforms) = TRUE THEN PrintT(<<"CONF", E.run, E.i>>) ELSE PrintT(<<"NONCONF", E.run, E.i>>)
TraceSpec == TraceInit /\ [][TraceNext]_l
Done == (l = Len(Rec) + 1) => PrintT(<<"CHECKED", Len(Rec)>>)
=============================================================================
