---------------------------- MODULE Trace_Arbiter ----------------------------
(***************************************************************************)
(* C13, single node.  Reference for a database with the arbiter strategy:  *)
(*  - a write conflicts when its key already has queued conflicts, or when  *)
(*    it is versioned and its version is older than the key's;             *)
(*  - a conflicting write is never applied or dropped silently: while no    *)
(*    arbiter has ever registered it is refused and nothing changes;        *)
(*    afterwards the key keeps its value, exactly one new $conflicts_ key    *)
(*    records it, every connected arbiter gets exactly that notice, and it   *)
(*    joins the key's queue;                                                 *)
(*  - an arbiter that registers is sent exactly the unresolved conflicts;    *)
(*  - a resolve takes its conflict out of the queue; when a key's queue is   *)
(*    empty the key holds the value of that last resolution, nothing of it   *)
(*    is pending and it is writable again.                                   *)
(***************************************************************************)
EXTENDS Integers, Sequences, FiniteSets, TLC, Json, IOUtils

Rec == ndJsonDeserialize(IOEnv.TRACE)
Cfg == JsonDeserialize(IOEnv.CFG)
Devs == {Cfg.devs[i] : i \in DOMAIN Cfg.devs}

VARIABLES l, everReg, arbs, pend, kv, conf, stuck, used
tvars == <<l, everReg, arbs, pend, kv, conf, stuck, used>>
E == Rec[l]

Refused(cls) == cls \in {"error", "verr"}
Success(cls) == cls \in {"ok", "value"}

PendOf(k) == IF k \in DOMAIN pend THEN pend[k] ELSE <<>>
Ids(seq) == {seq[i] : i \in DOMAIN seq}
OpenIds == UNION {Ids(pend[k]) : k \in DOMAIN pend}
ConfIds(C) == {C[i].id : i \in DOMAIN C}
ConfOf(C, id) == C[CHOOSE i \in DOMAIN C : C[i].id = id]
NoticesTo(x) == IF x \in DOMAIN E.notices THEN E.notices[x] ELSE <<>>
Without(seq, id) == SelectSeq(seq, LAMBDA x : x # id)
Upd(f, k, v) == [x \in DOMAIN f \cup {k} |-> IF x = k THEN v ELSE f[x]]

SameKvBut(k) == \A j \in (DOMAIN kv \cup DOMAIN E.kv) \ {k} : j \in DOMAIN kv /\ j \in DOMAIN E.kv /\ kv[j] = E.kv[j]

Conflicting(k, ver) ==
  IF PendOf(k) # <<>> THEN TRUE
  ELSE IF k \notin DOMAIN kv THEN FALSE
  ELSE ver # -1 /\ ver < kv[k][2]

TraceInit == /\ l = 1 /\ everReg = FALSE /\ arbs = {} /\ pend = <<>> /\ kv = <<>> /\ conf = <<>>
             /\ stuck = {} /\ used = {} /\ TLCSet(1, 0)

Reset == /\ E.ev = "reset" /\ everReg' = FALSE /\ arbs' = {} /\ pend' = <<>> /\ kv' = <<>> /\ conf' = <<>>
         /\ stuck' = {} /\ used' = {}
         /\ ((used # {}) => PrintT(<<"USED", Rec[l-1].run, used>>))

Setup == E.ev = "cmd" /\ E.op = "setup" /\ kv' = E.kv /\ conf' = E.conf
         /\ UNCHANGED <<everReg, arbs, pend, stuck, used>>

Applied ==
  /\ Success(E.cls)
  /\ E.k \in DOMAIN E.kv /\ E.kv[E.k][1] = E.v
  /\ SameKvBut(E.k)
  /\ ConfIds(E.conf) = ConfIds(conf)
  /\ \A x \in DOMAIN E.notices : E.notices[x] = <<>>

RefusedUnchanged ==
  /\ Refused(E.cls)
  /\ SameKvBut("-")
  /\ ConfIds(E.conf) = ConfIds(conf)
  /\ \A x \in DOMAIN E.notices : E.notices[x] = <<>>

Recorded(k) ==
  /\ Refused(E.cls)
  /\ SameKvBut(k)
  /\ (k \in DOMAIN kv) => (k \in DOMAIN E.kv /\ E.kv[k][1] = kv[k][1])      \* keeps its value
  /\ Cardinality(ConfIds(E.conf) \ ConfIds(conf)) = 1
  /\ LET id == CHOOSE x \in ConfIds(E.conf) \ ConfIds(conf) : TRUE
         c  == ConfOf(E.conf, id)
     IN /\ c.k = k /\ ~c.resolved
        /\ \A a \in arbs : NoticesTo(a) = <<c.value>>
        /\ \A x \in DOMAIN E.notices \ arbs : E.notices[x] = <<>>
        /\ pend' = Upd(pend, k, Append(PendOf(k), id))

Write ==
  /\ E.ev = "cmd" /\ E.op \in {"set", "set-safe"}
  /\ IF ~Conflicting(E.k, E.ver)
     THEN Applied /\ UNCHANGED pend
     ELSE IF ~everReg THEN RefusedUnchanged /\ UNCHANGED pend
     ELSE Recorded(E.k)
  /\ kv' = E.kv /\ conf' = E.conf
  /\ UNCHANGED <<everReg, arbs, stuck, used>>

Read == E.ev = "cmd" /\ E.op \in {"get", "get-safe"} /\ SameKvBut("-")
        /\ kv' = E.kv /\ conf' = E.conf /\ UNCHANGED <<everReg, arbs, pend, stuck, used>>

Register ==
  /\ E.ev = "cmd" /\ E.op = "arbiter" /\ Success(E.cls)
  /\ everReg' = TRUE /\ arbs' = arbs \cup {E.c}
  \* exactly the unresolved conflicts are sent to the new arbiter
  /\ LET want == {ConfOf(conf, id).value : id \in OpenIds \cap ConfIds(conf)}
         got  == NoticesTo(E.c)
     IN /\ {got[i] : i \in DOMAIN got} = want
        /\ Len(got) = Cardinality(want)
  /\ SameKvBut("-")
  /\ kv' = E.kv /\ conf' = E.conf
  /\ UNCHANGED <<pend, stuck, used>>

CloseArb ==
  /\ E.ev = "close"
  /\ arbs' = arbs \ {E.c}
  /\ kv' = E.kv /\ conf' = E.conf
  /\ UNCHANGED <<everReg, pend, stuck, used>>

ResolveKnown ==
  /\ E.ev = "cmd" /\ E.op = "resolve" /\ E.opid \in Ids(PendOf(E.k))
  /\ Success(E.cls)
  /\ LET rest == Without(PendOf(E.k), E.opid) IN
     /\ pend' = Upd(pend, E.k, rest)
     /\ (E.opid \in ConfIds(E.conf)) => ConfOf(E.conf, E.opid).resolved
     /\ SameKvBut(E.k)
     /\ (rest = <<>>) => (E.k \in DOMAIN E.kv /\ E.kv[E.k][1] = E.v /\ E.kv[E.k][2] >= 0)
  /\ kv' = E.kv /\ conf' = E.conf
  /\ UNCHANGED <<everReg, arbs, stuck, used>>

ResolveUnknown ==
  /\ E.ev = "cmd" /\ E.op \in {"resolve", "noop"} /\ (E.op = "noop" \/ E.opid \notin Ids(PendOf(E.k)))
  /\ kv' = E.kv /\ conf' = E.conf
  /\ UNCHANGED <<everReg, arbs, pend, stuck, used>>

(* known finding: pending conflicts are looked up with a *contains* match on            *)
(* "$conflicts_<key>", so a queued conflict on a key whose name extends this key's name  *)
(* keeps this key in conflict after its own queue is empty                               *)
ExtendedBy(k) == {j \in DOMAIN pend : j # k /\ pend[j] # <<>> /\ j \in {E.longer[i] : i \in DOMAIN E.longer}}
Dev_ConflictKeySubstring ==
  /\ "Dev_ConflictKeySubstring" \in Devs
  /\ E.ev = "cmd" /\ E.op \in {"set", "set-safe", "resolve"}
  /\ ExtendedBy(E.k) # {} \/ E.k \in stuck
  /\ IF E.op = "resolve"
     THEN /\ E.opid \in Ids(PendOf(E.k)) /\ Success(E.cls)
          /\ pend' = Upd(pend, E.k, Without(PendOf(E.k), E.opid))
          /\ stuck' = stuck \cup {E.k}
     ELSE /\ PendOf(E.k) = <<>> /\ Refused(E.cls)       \* the write is treated as a conflict
          /\ Cardinality(ConfIds(E.conf) \ ConfIds(conf)) <= 1
          /\ pend' = IF ConfIds(E.conf) \ ConfIds(conf) = {} THEN pend
                     ELSE Upd(pend, E.k, <<CHOOSE x \in ConfIds(E.conf) \ ConfIds(conf) : TRUE>>)
          /\ stuck' = stuck \cup {E.k}
  /\ kv' = E.kv /\ conf' = E.conf
  /\ UNCHANGED <<everReg, arbs>>
  /\ used' = used \cup {"Dev_ConflictKeySubstring"}

TraceNext == l <= Len(Rec) /\ l' = l + 1 /\
             (Reset \/ Setup \/ Write \/ Read \/ Register \/ CloseArb \/ ResolveKnown \/ ResolveUnknown
              \/ Dev_ConflictKeySubstring)
TraceSpec == TraceInit /\ [][TraceNext]_tvars

Progress ==
  /\ (l > TLCGet(1)) => TLCSet(1, l)
  /\ (l = Len(Rec) + 1 /\ used # {}) => PrintT(<<"USED", Rec[l-1].run, used>>)
TraceAccepted ==
  IF TLCGet(1) = Len(Rec) + 1
  THEN PrintT(<<"ACCEPTED", Len(Rec)>>)
  ELSE PrintT(<<"REJECTED", TLCGet(1), Rec[TLCGet(1)].run, Rec[TLCGet(1)].i>>) /\ FALSE
=============================================================================
