----------------------------- MODULE Trace_Recv -----------------------------
(***************************************************************************)
(* Receive-path conformance of cluster-simulator runs.  A record is one     *)
(* (node, interval) of a run: the node's data at a recorded state (a        *)
(* quiescence, or right after its restart), every line delivered to it on   *)
(* a replication connection until the next recorded state, and its data     *)
(* there.  No client command ran at the node in between, so the data at     *)
(* the end must be the fold of NunRecv!Recv over the delivered lines.       *)
(* Records are independent: <<"CONF" | "NONCONF", run, node, index>>.       *)
(***************************************************************************)
EXTENDS Json, IOUtils, Integers, Sequences, FiniteSets, TLC

Rec == ndJsonDeserialize(IOEnv.TRACE)
TabFile == JsonDeserialize(IOEnv.TABLES)
IntTabDef == TabFile.intof

INSTANCE NunRecv WITH IntTab <- IntTabDef

VARIABLE l
E == Rec[l]

Conforms == View(Fold(E.start, E.evs, 1)) = View(E.final)

TraceInit == l = 1
TraceNext == /\ l <= Len(Rec) /\ l' = l + 1
             /\ IF (Conforms) = TRUE THEN PrintT(<<"CONF", E.run, E.node, E.i>>)
                ELSE PrintT(<<"NONCONF", E.run, E.node, E.i>>)
                     /\ (("DEBUG" \in DOMAIN IOEnv) => PrintT(<<"MODEL", View(Fold(E.start, E.evs, 1)), "REAL", View(E.final)>>))
TraceSpec == TraceInit /\ [][TraceNext]_l
Done == (l = Len(Rec) + 1) => PrintT(<<"CHECKED", Len(Rec)>>)
=============================================================================
