----------------------------- MODULE NunCatchUp -----------------------------
(***************************************************************************)
(* The catch-up a primary sends to a (re)joining node                      *)
(* (replication_ops.rs: supervisor command `replicate-since-to <node> <t>`, *)
(* get_pendding_opps_since, get_full_sync_opps,                            *)
(* get_pendding_opps_since_from_sync, make_create_db_command), as a        *)
(* function of the primary's operation log (the raw 25-byte records, read   *)
(* from the files by the harness, not through the code under test), its     *)
(* identifier maps and its databases.                                       *)
(*                                                                         *)
(* since = 0 (full synchronisation): for every database but $admin one      *)
(* block  create-db <name> <token>,  replicate <db> <key> <value> for every *)
(* key but the token and the connection counter (removed keys with their    *)
(* tombstone value),  replicate-snapshot <db>.  The order of the blocks and *)
(* of the keys inside a block is that of a hash map: any.                   *)
(*                                                                         *)
(* since > 0 (incremental): one line per (database id, key id) of the log   *)
(* -- the create-db and snapshot markers use the key ids 1 and 2 of their    *)
(* database, like the second and third key ever registered do (recorded     *)
(* deviation) -- labelled by the kind of its most recent record, in the     *)
(* order of those most recent records; every pair with a record at or after *)
(* `since' must be there (older ones may be).                               *)
(*                                                                         *)
(* Lines are compared field-wise: [cmd, db, key, rest] = the line split at  *)
(* its first three blanks.                                                  *)
(***************************************************************************)
EXTENDS Integers, Sequences, FiniteSets, TLC

Elems(sq) == {sq[i] : i \in DOMAIN sq}
L(cmd, db, key, rest) == [cmd |-> cmd, db |-> db, key |-> key, rest |-> rest]

(* identifier maps: sequences of <<id, name>> *)
Known(map, id) == \E p \in Elems(map) : p[1] = id
NameOf(map, id) == IF Known(map, id) THEN (CHOOSE p \in Elems(map) : p[1] = id)[2] ELSE "?"

LocalKeys == {"$$token", "$connections"}
TokenOf(store, db) == IF "$$token" \in DOMAIN store[db].keys THEN store[db].keys["$$token"][1] ELSE "none"
ValueOf(store, db, key) ==
  IF db \in DOMAIN store /\ key \in DOMAIN store[db].keys THEN store[db].keys[key][1] ELSE "<Empty>"

(* ---------------- full synchronisation ---------------- *)
FullBlock(store, db) ==
  {L("create-db", db, TokenOf(store, db), ""), L("replicate-snapshot", db, "", "")}
  \cup {L("replicate", db, k, store[db].keys[k][1]) : k \in DOMAIN store[db].keys \ LocalKeys}

FullDbs(store) == DOMAIN store \ {"$admin"}
FullLines(store) == UNION {FullBlock(store, db) : db \in FullDbs(store)}

FullOK(store, lines) ==
  /\ Elems(lines) = FullLines(store)
  /\ Len(lines) = Cardinality(FullLines(store))
  \* one contiguous block per database: create-db first, replicate-snapshot last
  /\ \A db \in FullDbs(store) :
       LET idx == {i \in DOMAIN lines : lines[i].db = db}
           lo == CHOOSE i \in idx : \A j \in idx : i <= j
           hi == CHOOSE i \in idx : \A j \in idx : j <= i
       IN /\ idx = lo..hi
          /\ lines[lo].cmd = "create-db" /\ lines[hi].cmd = "replicate-snapshot"

(* ---------------- incremental synchronisation ---------------- *)
(* log: sequence of [t, k, d, op] in file order (op: 0 update, 1 remove, 2 create-db, 3 snapshot) *)
Entries(log) == {<<log[i].d, log[i].k>> : i \in DOMAIN log}
LastIdx(log, e) == CHOOSE i \in DOMAIN log :
                     /\ log[i].d = e[1] /\ log[i].k = e[2]
                     /\ \A j \in DOMAIN log : (log[j].d = e[1] /\ log[j].k = e[2]) => j <= i
Required(log, since) == {<<log[i].d, log[i].k>> : i \in {j \in DOMAIN log : log[j].t >= since}}

LineOfEntry(log, idd, idk, store, e) ==
  LET r == log[LastIdx(log, e)]
      db == NameOf(idd, e[1])
      key == NameOf(idk, e[2])
  IN CASE r.op = 0 -> L("replicate", db, key, ValueOf(store, db, key))
       [] r.op = 1 -> L("replicate-remove", db, key, "")
       [] r.op = 2 -> L("create-db", db, IF db \in DOMAIN store THEN TokenOf(store, db) ELSE "?", "")
       [] OTHER -> L("replicate-snapshot", db, "", "")

(* an entry the code cannot turn into a line (its database or key is unknown to the node): it is   *)
(* skipped (repaired: before, the lookup panicked and killed the supervisor loop)                 *)
Undecodable(log, idd, idk, store, e) ==
  LET r == log[LastIdx(log, e)] IN
  \/ ~Known(idd, e[1])
  \/ r.op \in {0, 1} /\ ~Known(idk, e[2])
  \/ r.op \in {0, 2} /\ NameOf(idd, e[1]) \notin DOMAIN store

IncrOK(log, idd, idk, store, since, lines) ==
  LET ents == {e \in Entries(log) : ~Undecodable(log, idd, idk, store, e)}
      lineOf == [e \in ents |-> LineOfEntry(log, idd, idk, store, e)]
  IN /\ \A e \in Required(log, since) \cap ents : \E i \in DOMAIN lines : lines[i] = lineOf[e]   \* nothing missing
     /\ \A i \in DOMAIN lines : \E e \in ents : lines[i] = lineOf[e]                             \* nothing invented
     /\ \A i, j \in DOMAIN lines : i # j => lines[i] # lines[j]                                  \* nothing twice
     \* in the order of the most recent records
     /\ \A i, j \in DOMAIN lines : i < j =>
          \E a, b \in ents : lines[i] = lineOf[a] /\ lines[j] = lineOf[b] /\ LastIdx(log, a) < LastIdx(log, b)

CatchUpOK(log, idd, idk, store, since, lines) ==
  IF since = 0 THEN FullOK(store, lines) ELSE IncrOK(log, idd, idk, store, since, lines)

=============================================================================
