----------------------------- MODULE Trace_KVLin -----------------------------
(***************************************************************************)
(* Concurrent clients on one database (C02, C03, C19).                     *)
(*                                                                         *)
(* The harness runs each client on its own thread under a cooperative      *)
(* scheduler and logs, in one total order:                                 *)
(*    call(t, op)         the client issues a command                      *)
(*    seg(t, site, store) the client's thread ran up to its next lock      *)
(*                        acquisition (or to the end of the command);      *)
(*                        `store' is the projected key/value/version map    *)
(*    ret(t, reply)       the command returned                             *)
(*    end(inbox, store)   everything every session received, final store   *)
(*                                                                         *)
(* Reference: every command takes effect atomically at one point between   *)
(* its call and its return (its linearisation point) and its reply is the  *)
(* one the sequential specification gives at that point.  In the trace     *)
(* specification the linearisation is a silent part of a seg step of the   *)
(* same client; the logged store prunes the search (the store the          *)
(* reference holds after a seg step must be the logged one).               *)
(*                                                                         *)
(* Groups: "LIN" (C02: compare-and-set rule, version growth, no lost       *)
(* update), "NEWER" (C19), "WATCH" (C03: notification obligations, judged  *)
(* at the end from call/return/linearisation indices).                     *)
(***************************************************************************)
EXTENDS Integers, Sequences, FiniteSets, TLC, Json, IOUtils

Rec == ndJsonDeserialize(IOEnv.TRACE)
Cfg == JsonDeserialize(IOEnv.CFG)
TabRaw == JsonDeserialize(IOEnv.TABLES)
Checks == {Cfg.checks[i] : i \in DOMAIN Cfg.checks}
Devs == {Cfg.devs[i] : i \in DOMAIN Cfg.devs}
On(g) == g \in Checks

IntOfT == TabRaw.intof
IsNum(v) == v \in DOMAIN IntOfT

VARIABLES l,        \* next event
          store,    \* [key -> <<value, version, live>>]
          mx,       \* [key -> highest version of the live incarnation]
          pend,     \* [task -> pending command]
          done,     \* sequence of finished commands (with call / lin / ret indices)
          strategy, \* consensus strategy of the database
          used

tvars == <<l, store, mx, pend, done, strategy, used>>
E == Rec[l]

Refused(cls) == cls \in {"error", "verr"}
Success(cls) == cls \in {"ok", "value"}

Has(S, k)  == k \in DOMAIN S
Live(S, k) == Has(S, k) /\ S[k][3]
ValOf(S, k) == IF Live(S, k) THEN S[k][1] ELSE "<Empty>"
Same(S1, S2) == DOMAIN S1 = DOMAIN S2 /\ \A k \in DOMAIN S1 : S1[k] = S2[k]
SameBut(S1, S2, k) == /\ DOMAIN S1 \ {k} = DOMAIN S2 \ {k}
                      /\ \A j \in DOMAIN S1 \ {k} : S1[j] = S2[j]

Mutating(op) == op \in {"set", "set-safe", "increment", "remove", "replicate"}
Writing(op)  == op \in {"set", "set-safe", "replicate"}

TraceInit ==
  /\ l = 1 /\ store = <<>> /\ mx = <<>> /\ pend = <<>> /\ done = <<>> /\ strategy = "none"
  /\ used = {} /\ TLCSet(1, 0)

Reset ==
  /\ E.ev = "reset"
  /\ store' = E.store
  /\ mx' = [k \in {j \in DOMAIN E.store : E.store[j][3]} |-> E.store[k][2]]
  /\ pend' = <<>>
  \* subscriptions made before the explored part of the run count as watch commands at time 0
  /\ done' = [i \in 1..Len(E.initwat) |->
                [t |-> E.initwat[i][1], op |-> "watch", k |-> E.initwat[i][2], v |-> "", eff |-> FALSE,
                 cv |-> "", callat |-> 0, linat |-> 0, retat |-> 0, cls |-> "ok"]]
  /\ strategy' = E.strategy
  /\ used' = {}
  /\ ((used # {}) => PrintT(<<"USED", Rec[l-1].run, used>>))

Call ==
  /\ E.ev = "call"
  /\ E.t \notin DOMAIN pend
  /\ pend' = [t \in DOMAIN pend \cup {E.t} |->
                IF t = E.t THEN [op |-> E.op, k |-> E.k, v |-> E.v, ver |-> E.ver, n |-> E.n,
                                 callat |-> l, linat |-> 0, lin |-> FALSE,
                                 cls |-> "-", rv |-> "", rver |-> -99, eff |-> FALSE, cv |-> ""]
                ELSE pend[t]]
  /\ UNCHANGED <<store, mx, done, strategy, used>>

MxAfter(S) ==
  [k \in {j \in DOMAIN S : S[j][3]} |->
     IF k \in DOMAIN mx /\ Live(store, k)
     THEN IF S[k][2] > mx[k] THEN S[k][2] ELSE mx[k]
     ELSE S[k][2]]

OldMx(k) == IF k \in DOMAIN mx THEN mx[k] ELSE -1000

(* ------------------------------------------------------------------ *)
(* Sequential specification of one command p applied to `store', the   *)
(* store afterwards being W (the logged one).  Returns the reply class  *)
(* set it allows; LinOK says whether (store, p, W) is a legal step.     *)

MustAccept(k, v) == IF ~Has(store, k) THEN TRUE ELSE IF v = -1 THEN TRUE ELSE v >= store[k][2]
MayRefuse(k, v)  == Has(store, k) /\ v # -1 /\ v < store[k][2]

Applied(p, W) ==   \* the write took effect
  /\ Live(W, p.k) /\ W[p.k][1] = p.v
  /\ SameBut(store, W, p.k)
  /\ (Live(store, p.k) => W[p.k][2] > OldMx(p.k))
  /\ (Has(store, p.k) => W[p.k][2] > store[p.k][2])

LinWriteNone(p, W, res) ==
  \/ /\ MustAccept(p.k, p.ver) /\ Applied(p, W)
     /\ res = [cls |-> "ok", rv |-> "", eff |-> TRUE, cv |-> p.v]
  \/ /\ MayRefuse(p.k, p.ver) /\ Same(store, W)
     /\ res = [cls |-> "refused", rv |-> "", eff |-> FALSE, cv |-> ""]
  \/ /\ MayRefuse(p.k, p.ver) /\ ~Live(store, p.k) /\ Applied(p, W)   \* removed key: lenient
     /\ res = [cls |-> "ok", rv |-> "", eff |-> TRUE, cv |-> p.v]

(* newer strategy: never refused; takes effect, or is superseded (nothing changes).  It  *)
(* may be superseded only by a change to the same key that is at least as recent: one   *)
(* that had not yet returned when this one was called (concurrent or later).            *)
LinWriteNewer(p, W, res) ==
  \/ /\ Applied(p, W)
     /\ res = [cls |-> "ok", rv |-> "", eff |-> TRUE, cv |-> p.v]
  \/ /\ Same(store, W)
     /\ \E i \in DOMAIN done : done[i].k = p.k /\ done[i].eff /\ done[i].retat > p.callat
     /\ res = [cls |-> "ok", rv |-> "", eff |-> FALSE, cv |-> ""]
  \/ /\ Same(store, W)
     /\ \E t \in DOMAIN pend : pend[t].k = p.k /\ pend[t].lin /\ pend[t].eff /\ pend[t].callat # p.callat
     /\ res = [cls |-> "ok", rv |-> "", eff |-> FALSE, cv |-> ""]

LinIncrement(p, W, res) ==
  LET cur == ValOf(store, p.k)
      num == ~Live(store, p.k) \/ IsNum(cur)
      old == IF Live(store, p.k) THEN IntOfT[cur] ELSE 0
  IN IF num
     THEN /\ Live(W, p.k) /\ W[p.k][1] = ToString(old + p.n)
          /\ SameBut(store, W, p.k)
          /\ (Live(store, p.k) => W[p.k][2] > OldMx(p.k))
          /\ res = [cls |-> "ok", rv |-> "", eff |-> TRUE, cv |-> ToString(old + p.n)]
     ELSE /\ Same(store, W)
          /\ res = [cls |-> "refused", rv |-> "", eff |-> FALSE, cv |-> ""]

LinRemove(p, W, res) ==
  /\ ~Live(W, p.k) /\ SameBut(store, W, p.k)
  /\ res = [cls |-> "ok", rv |-> "", eff |-> TRUE, cv |-> ""]

LinRead(p, W, res) ==
  /\ Same(store, W)
  /\ res = [cls |-> "value", rv |-> ValOf(store, p.k), eff |-> FALSE, cv |-> ""]

LinOther(p, W, res) ==
  /\ Same(store, W)
  /\ res = [cls |-> "ok", rv |-> "", eff |-> FALSE, cv |-> ""]

(* strict: the reference decides; adopt: only book-keeping for the other groups *)
Strict == On("LIN") \/ On("NEWER")

LinStrict(p, W, res) ==
  CASE Writing(p.op) /\ strategy = "newer" -> LinWriteNewer(p, W, res)
    [] Writing(p.op) /\ strategy # "newer" -> LinWriteNone(p, W, res)
    [] p.op = "increment" -> LinIncrement(p, W, res)
    [] p.op = "remove" -> LinRemove(p, W, res)
    [] p.op \in {"get", "get-safe"} -> LinRead(p, W, res)
    [] OTHER -> LinOther(p, W, res)

LinAdopt(p, W, res) ==
  IF Mutating(p.op)
  THEN \/ /\ ~Same(store, W)
          /\ res = [cls |-> "any", rv |-> "", eff |-> TRUE,
                    cv |-> IF Live(W, p.k) THEN W[p.k][1] ELSE ""]
       \/ /\ Same(store, W)
          /\ res = [cls |-> "any", rv |-> "", eff |-> FALSE, cv |-> ""]
  ELSE Same(store, W) /\ res = [cls |-> "any", rv |-> "", eff |-> FALSE, cv |-> ""]

(* a step of client t's thread; its pending command may take effect in it *)
SegLin ==
  /\ E.ev = "seg" /\ E.t \in DOMAIN pend /\ ~pend[E.t].lin
  /\ LET p == pend[E.t] IN
     \E eff \in BOOLEAN, cls \in {"ok", "value", "refused", "any"} :
       LET res == [cls |-> cls, eff |-> eff,
                   rv |-> IF p.op \in {"get", "get-safe"} THEN ValOf(store, p.k) ELSE "",
                   cv |-> IF ~eff THEN ""
                          ELSE IF p.op = "remove" THEN ""
                          ELSE IF Live(E.store, p.k) THEN E.store[p.k][1] ELSE ""]
       IN /\ IF Strict THEN LinStrict(p, E.store, res) ELSE LinAdopt(p, E.store, res)
          /\ pend' = [pend EXCEPT ![E.t] = [p EXCEPT !.lin = TRUE, !.linat = l, !.cls = res.cls,
                                                    !.rv = res.rv, !.eff = res.eff, !.cv = res.cv,
                                                    !.rver = IF Has(store, p.k) THEN store[p.k][2] ELSE -99]]
  /\ store' = E.store
  /\ mx' = MxAfter(E.store)
  /\ UNCHANGED <<done, strategy, used>>

SegQuiet ==
  /\ E.ev = "seg"
  /\ Same(store, E.store)
  /\ UNCHANGED <<store, mx, pend, done, strategy, used>>

ClassOK(want, got) ==
  CASE want = "any" -> got # "panic"
    [] want = "refused" -> Refused(got)
    [] want = "ok" -> Success(got)
    [] want = "value" -> got = "value"

Ret ==
  /\ E.ev = "ret" /\ E.t \in DOMAIN pend
  /\ LET p == pend[E.t] IN
     /\ p.lin
     /\ ClassOK(p.cls, E.cls)
     /\ (Strict /\ p.op \in {"get", "get-safe"}) => E.rv = p.rv
     /\ (Strict /\ p.op = "get-safe" /\ p.rver # -99) => E.rver = p.rver
     /\ (On("NEWER") /\ Writing(p.op) /\ E.setval # "-") =>
            \* the reply names the value stored at the linearisation point
            (IF p.eff THEN E.setval = p.v ELSE TRUE)
     /\ done' = Append(done, [t |-> E.t, op |-> p.op, k |-> p.k, v |-> p.v, eff |-> p.eff,
                               cv |-> p.cv, callat |-> p.callat, linat |-> p.linat, retat |-> l,
                               cls |-> E.cls])
  /\ pend' = [t \in DOMAIN pend \ {E.t} |-> pend[t]]
  /\ UNCHANGED <<store, mx, strategy, used>>

(* ------------------------------------------------------------------ *)
(* C03: notification obligations, judged at the end.                    *)

Ops == {done[i] : i \in DOMAIN done}
Inf == 1000000

(* subscription intervals of session s on key k: one per watch command *)
Unsubs(s, k, after) ==
  {u \in Ops : u.t = s /\ u.callat > after /\
               (u.op \in {"unwatch-all", "close"} \/ (u.op = "unwatch" /\ u.k = k))}
FirstUnsubCall(s, k, after) ==
  IF Unsubs(s, k, after) = {} THEN Inf
  ELSE CHOOSE c \in {u.callat : u \in Unsubs(s, k, after)} :
         \A u \in Unsubs(s, k, after) : c <= u.callat
FirstUnsubRet(s, k, after) ==
  IF Unsubs(s, k, after) = {} THEN Inf
  ELSE CHOOSE c \in {u.retat : u \in Unsubs(s, k, after)} :
         \A u \in Unsubs(s, k, after) : c <= u.retat

Watches(s, k) == {w \in Ops : w.t = s /\ w.op = "watch" /\ w.k = k /\ Success(w.cls)}

(* m certainly falls inside a subscription / possibly does *)
Must(s, m) == \E w \in Watches(s, m.k) :
                 w.retat < m.callat /\ m.retat < FirstUnsubCall(s, m.k, w.retat)
May(s, m)  == \E w \in Watches(s, m.k) :
                 w.callat < m.retat /\ m.callat < FirstUnsubRet(s, m.k, w.retat)

Changes == {m \in Ops : m.op \in {"set", "set-safe", "increment", "replicate"} /\ m.eff}
(* every accepted remove tells the subscribers, also when the key was already gone *)
Removes == {m \in Ops : m.op = "remove" /\ Success(m.cls)}

NotesOf(s) == IF s \in DOMAIN E.inbox THEN E.inbox[s] ELSE <<>>
CountNotes(s, typ, k, v) ==
  Cardinality({i \in DOMAIN NotesOf(s) : NotesOf(s)[i].t = typ /\ NotesOf(s)[i].k = k
                                         /\ (typ = "removed" \/ NotesOf(s)[i].v = v)})

Sessions == {o.t : o \in Ops} \cup DOMAIN E.inbox

WatchObligations ==
  \A s \in Sessions :
    \* changes, grouped by (key, committed value)
    /\ \A m \in Changes :
         LET grp  == {x \in Changes : x.k = m.k /\ x.cv = m.cv}
             lo   == Cardinality({x \in grp : Must(s, x)})
             hi   == Cardinality({x \in grp : May(s, x)})
             got  == CountNotes(s, "changed", m.k, m.cv)
             got2 == CountNotes(s, "cv", m.k, m.cv)
         IN lo <= got /\ got <= hi /\ got2 = got
    \* removals, grouped by key
    /\ \A m \in Removes :
         LET grp == {x \in Removes : x.k = m.k}
             lo  == Cardinality({x \in grp : Must(s, x)})
             hi  == Cardinality({x \in grp : May(s, x)})
             got == CountNotes(s, "removed", m.k, "")
         IN lo <= got /\ got <= hi
    \* nothing that no committed change explains (refused writes, unwatched keys)
    /\ \A i \in DOMAIN NotesOf(s) :
         LET n == NotesOf(s)[i] IN
         IF n.t = "removed" THEN \E m \in Removes : m.k = n.k /\ May(s, m)
         ELSE \E m \in Changes : m.k = n.k /\ m.cv = n.v /\ May(s, m)
    \* once writes stop, the highest-versioned notification of a set/set-safe key that s
    \* watched throughout carries the current value
    /\ \A k \in {NotesOf(s)[i].k : i \in DOMAIN NotesOf(s)} :
         LET cvs == {i \in DOMAIN NotesOf(s) : NotesOf(s)[i].t = "cv" /\ NotesOf(s)[i].k = k}
             wr  == {m \in Changes : m.k = k}
         IN (/\ cvs # {} /\ wr # {}
             /\ \A m \in wr : m.op \in {"set", "set-safe", "replicate"} /\ Must(s, m)
             /\ \A m \in Removes : m.k # k
             /\ Live(E.store, k))
            => \A i \in cvs : (\A j \in cvs : NotesOf(s)[j].ver <= NotesOf(s)[i].ver)
                                 => NotesOf(s)[i].v = E.store[k][1]

End ==
  /\ E.ev = "end"
  /\ pend = <<>>
  /\ Same(store, E.store)
  /\ On("WATCH") => WatchObligations
  /\ UNCHANGED <<store, mx, pend, done, strategy, used>>

TraceNext == l <= Len(Rec) /\ l' = l + 1 /\ (Reset \/ Call \/ SegLin \/ SegQuiet \/ Ret \/ End)
TraceSpec == TraceInit /\ [][TraceNext]_tvars

Progress ==
  /\ (l > TLCGet(1)) => TLCSet(1, l)
  /\ (l = Len(Rec) + 1 /\ used # {}) => PrintT(<<"USED", Rec[l-1].run, used>>)

TraceAccepted ==
  IF TLCGet(1) = Len(Rec) + 1
  THEN PrintT(<<"ACCEPTED", Len(Rec)>>)
  ELSE PrintT(<<"REJECTED", TLCGet(1), Rec[TLCGet(1)].run, TLCGet(1)>>) /\ FALSE
=============================================================================
