------------------------------- MODULE MC_Conn -------------------------------
(***************************************************************************)
(* Sessions selecting databases and going away (C17).  Reference counter:  *)
(* conns[d] = number of open sessions whose selection is d.  The           *)
(* implementation-shaped counter (inc on every successful use-db, dec once *)
(* on disconnect for the last selection) is kept next to it; the invariant *)
(* Exact is what the property demands, ghost `dev' records where the       *)
(* implementation-shaped counter departs from it.                          *)
(***************************************************************************)
EXTENDS Integers, Sequences, FiniteSets, TLC, Json

CONSTANTS Sessions, Dbs, MaxLen

VARIABLES sel,     \* [Sessions -> Dbs \cup {"-"}]  ("closed" sessions are "-" and may reconnect)
          impl,    \* [Dbs -> Int] implementation-shaped counter
          dev,     \* ghost
          hist

vars == <<sel, impl, dev, hist>>

Ref(d) == Cardinality({s \in Sessions : sel[s] = d})

Init ==
  /\ sel = [s \in Sessions |-> "-"]
  /\ impl = [d \in Dbs |-> 0]
  /\ dev = FALSE
  /\ hist = <<>>

Log(c, rec) == hist' = Append(hist, rec @@ [c |-> c])

Token(d) == IF d = "d" THEN "tok" ELSE "tok2"

(* a session counts on one database at a time (repaired code) *)
Move(s, d) == IF sel[s] = d THEN impl
              ELSE [x \in Dbs |-> IF x = d THEN impl[x] + 1 ELSE IF x = sel[s] THEN impl[x] - 1 ELSE impl[x]]

UseGood(s, d) ==
  /\ Log(s, [op |-> "use-db", d |-> d, tok |-> Token(d), u |-> "-"])
  /\ sel' = [sel EXCEPT ![s] = d]
  /\ impl' = Move(s, d)
  /\ UNCHANGED dev

UseUser(s) ==
  /\ Log(s, [op |-> "use-db", d |-> "d", tok |-> "ut", u |-> "u1"])
  /\ sel' = [sel EXCEPT ![s] = "d"]
  /\ impl' = Move(s, "d")
  /\ UNCHANGED dev

UseBad(s, d) ==
  /\ Log(s, [op |-> "use-db", d |-> d, tok |-> "bad", u |-> "-"])
  /\ UNCHANGED <<sel, impl, dev>>

(* how a connection ends: the client's orderly close, after bytes that are not a command line, reset by the *)
(* peer with answers unread, or dropped without a close -- the session is gone in every case                 *)
Hows == {"clean", "badline", "rst", "drop"}

Close(s, how) ==
  /\ Log(s, [op |-> "close", how |-> how])
  /\ sel' = [sel EXCEPT ![s] = "-"]
  /\ impl' = IF sel[s] = "-" THEN impl ELSE [impl EXCEPT ![sel[s]] = @ - 1]
  /\ UNCHANGED dev

ReadCount(s, d) ==
  /\ sel[s] = d
  /\ Log(s, [op |-> "get", k |-> "$connections"])
  /\ UNCHANGED <<sel, impl, dev>>

Next ==
  /\ Len(hist) < MaxLen
  /\ \/ \E s \in Sessions, d \in Dbs : UseGood(s, d) \/ UseBad(s, d) \/ ReadCount(s, d)
     \/ \E s \in Sessions : UseUser(s) \/ \E how \in Hows : Close(s, how)

Spec == Init /\ [][Next]_vars

Exact == dev \/ \A d \in Dbs : impl[d] = Ref(d)
NeverNegative == \A d \in Dbs : impl[d] >= 0

View == <<sel, impl>>
Emit == PrintT(<<"CASE", ToJson(hist')>>)
=============================================================================
