------------------------------- MODULE NunKV -------------------------------
(***************************************************************************)
(* Reference specification of one NunDB node as seen by its clients.       *)
(*                                                                         *)
(* It states what the properties state and nothing else: reply classes,    *)
(* reply payloads, which keys may change and how, who is notified, which   *)
(* credential a command needs.  Error texts, exact version numbers and     *)
(* line formats are left open.                                             *)
(*                                                                         *)
(* Every action has the shape  Cmd(c, o, w)  where c is the session, o the *)
(* command (a record: the same record the conformance harness logs) and w  *)
(* the "witness": the observable outcome (reply + store afterwards).  The   *)
(* action says whether (state, o, w) is a legal step.  The stand-alone      *)
(* model (MC_NunKV) quantifies w over the outcomes it can construct; the   *)
(* trace specification (Trace_KV) binds w to what the real node did.       *)
(*                                                                         *)
(* Constraint groups (set Checks) let one trace be judged against one      *)
(* property at a time, so that a violation of one property is never        *)
(* reported under another one's name:                                      *)
(*   "READ"  C01  values, increments, key listing, refused => unchanged    *)
(*   "VER"   C02  compare-and-set rule and version growth                  *)
(*   "AUTH"  C09  credentials                                              *)
(*   "SEC"   C08  $$ keys                                                  *)
(*   "CONN"  C17  $connections                                             *)
(*   "WATCH" C03  notifications (sequential part)                          *)
(*   "NEWER" C19  newer-strategy databases                                 *)
(***************************************************************************)
EXTENDS Integers, Sequences, FiniteSets, TLC

CONSTANTS Tab,     \* tables over the string alphabet (see pylib/tables.py)
          Checks   \* enabled constraint groups

VARIABLES dbs,    \* [db name -> [strategy, id, conns, keys : [key -> <<value, version, state>>]]]
          sess,   \* [session -> [admin, sel, user]]
          subs,   \* [db name -> [key -> sequence of sessions]]  (registrations, in order)
          mx,     \* [db name -> [key -> highest version of the current incarnation]]
          skew    \* [db name -> Int] connection-count error carried by a *known deviation*;
                  \* the reference never changes it (identically 0 without deviations)

vars == <<dbs, sess, subs, mx, skew>>

SkewOf(d) == IF d \in DOMAIN skew THEN skew[d] ELSE 0

On(g) == g \in Checks

NoSess == [admin |-> FALSE, sel |-> "-", user |-> "-"]
S(c) == IF c \in DOMAIN sess THEN sess[c] ELSE NoSess

Refused(cls) == cls \in {"error", "verr"}
Success(cls) == cls \in {"ok", "value"}

-----------------------------------------------------------------------------
(* Store access *)
HasDb(d)    == d \in DOMAIN dbs
KeysOf(D,d) == D[d].keys
Has(D,d,k)  == d \in DOMAIN D /\ k \in DOMAIN D[d].keys
Live(D,d,k) == Has(D,d,k) /\ D[d].keys[k][3] # "Deleted"
Val(D,d,k)  == IF Live(D,d,k) THEN D[d].keys[k][1] ELSE "<Empty>"
Ver(D,d,k)  == D[d].keys[k][2]
LiveKeys(D,d) == {k \in DOMAIN D[d].keys : Live(D,d,k)}

IsSecure(k) == k \in Tab.secure
IsNum(v)    == v \in DOMAIN Tab.intof
IntOf(v)    == Tab.intof[v]

HasSel(c) == S(c).sel # "-" /\ HasDb(S(c).sel)

PermKey(u) == "$$permission_$" \o u
UserKey(u) == "$$user_" \o u

(* Does session c have permission `kind' ("r","w","i","x") on key k of db d? *)
Access(c, d, k, kind) ==
  IF IsSecure(k) THEN S(c).admin
  ELSE IF S(c).user = "-" THEN TRUE
  ELSE /\ Live(dbs, d, PermKey(S(c).user))
       /\ Val(dbs, d, PermKey(S(c).user)) \in DOMAIN Tab.grant
       /\ k \in Tab.grant[Val(dbs, d, PermKey(S(c).user))][kind]

-----------------------------------------------------------------------------
(* Frames *)
(* A removed key may be kept as a tombstone or be gone altogether: clients cannot tell *)
Gone(D, e, k) == IF k \notin DOMAIN D[e].keys THEN TRUE ELSE D[e].keys[k][3] = "Deleted"

SameKeysExcept(D1, D2, d, ks) ==
  /\ DOMAIN D1 = DOMAIN D2
  /\ \A e \in DOMAIN D1 :
       /\ D1[e].strategy = D2[e].strategy
       /\ D1[e].id = D2[e].id
       /\ \A k \in (DOMAIN D1[e].keys \cup DOMAIN D2[e].keys) \ (IF e = d THEN ks ELSE {}) :
            IF Gone(D1, e, k) \/ Gone(D2, e, k)
            THEN Gone(D1, e, k) /\ Gone(D2, e, k)
            ELSE /\ D1[e].keys[k][1] = D2[e].keys[k][1]
                 /\ D1[e].keys[k][2] = D2[e].keys[k][2]

(* Nothing a client can observe about the data changed ($connections is bookkeeping   *)
(* of the session layer and is judged by group CONN only).                           *)
Unchanged(w) == SameKeysExcept(dbs, w.dbs, "-", {})
UnchangedBut(w, d, ks) == SameKeysExcept(dbs, w.dbs, d, ks)

(* Side effects outside the store: queued replication lines, supervisor commands,   *)
(* snapshot requests.                                                               *)
NoSideEffects(w) == w.side.repl = 0 /\ w.side.sup = 0 /\ w.side.snapq = 0

NoNotes(w) == \A x \in DOMAIN w.notes : w.notes[x] = <<>>

NotesOf(w, x) == IF x \in DOMAIN w.notes THEN w.notes[x] ELSE <<>>

(* Sessions subscribed to key k of db d, with multiplicity, in registration order *)
SubsOf(d, k) == IF d \in DOMAIN subs /\ k \in DOMAIN subs[d] THEN subs[d][k] ELSE <<>>

Count(seq, x) == Cardinality({i \in DOMAIN seq : seq[i] = x})

(* Every subscriber of (d,k) gets exactly its notifications for one change; nobody *)
(* else gets anything.  A change notification is the pair changed / changed-version *)
(* carrying the committed value; a removal is one `removed' line.                  *)
ChangeNotesTo(w, ss, k, v, ver) ==
    \A x \in DOMAIN w.notes \cup {ss[i] : i \in DOMAIN ss} :
      LET got == NotesOf(w, x)
          n   == Count(ss, x)
      IN /\ Len(got) = 2 * n
         /\ \A i \in 1..n :
              /\ got[2*i-1].t = "changed" /\ got[2*i-1].k = k /\ got[2*i-1].v = v
              /\ got[2*i].t = "cv" /\ got[2*i].k = k /\ got[2*i].v = v
              /\ (ver # -99 => got[2*i].ver = ver)

ChangeNotes(w, d, k, v, ver) == On("WATCH") => ChangeNotesTo(w, SubsOf(d, k), k, v, ver)

RemoveNotes(w, d, k) ==
  On("WATCH") =>
    \A x \in DOMAIN w.notes \cup {SubsOf(d,k)[i] : i \in DOMAIN SubsOf(d,k)} :
      LET got == NotesOf(w, x)
          n   == Count(SubsOf(d,k), x)
      IN /\ Len(got) = n
         /\ \A i \in 1..n : got[i].t = "removed" /\ got[i].k = k

SilentNotes(w) == On("WATCH") => NoNotes(w)

-----------------------------------------------------------------------------
(* A refused command: error class, nothing changes anywhere.                  *)
RefusedStep(c, o, w) ==
  /\ Refused(w.cls)
  /\ (On("READ") \/ On("AUTH") \/ On("SEC")) => (Unchanged(w) /\ NoSideEffects(w))
  /\ SilentNotes(w)
  /\ UNCHANGED <<sess, subs, mx>>
  /\ dbs' = w.dbs

(* Bookkeeping of the highest version per incarnation *)
MxAfter(w) ==
  [d \in DOMAIN w.dbs |->
     [k \in LiveKeys(w.dbs, d) |->
        IF d \in DOMAIN mx /\ k \in DOMAIN mx[d] /\ Live(dbs, d, k)
        THEN IF Ver(w.dbs,d,k) > mx[d][k] THEN Ver(w.dbs,d,k) ELSE mx[d][k]
        ELSE Ver(w.dbs,d,k)]]

OldMx(d,k) == IF d \in DOMAIN mx /\ k \in DOMAIN mx[d] THEN mx[d][k] ELSE -1000

(* Which credential class does op need?  (C09) *)
AdminOps == {"create-db", "snapshot", "join", "leave", "set-primary", "set-secoundary",
             "election-win", "election-candidate", "election-other", "replicate",
             "replicate-remove", "replicate-increment", "replicate-snapshot",
             "replicate-join", "replicate-leave", "replicate-since", "ack",
             "cluster-state", "metrics-state", "debug", "list-commands"}
SelAdminOps == {"create-user", "set-permissions"}
KeyOps == {"get", "get-safe", "set", "set-safe", "remove", "increment", "watch"}
SelOps == {"keys", "unwatch", "unwatch-all", "arbiter"}

KindOf(op) == CASE op \in {"get", "get-safe", "watch"} -> "r"
                [] op \in {"set", "set-safe"} -> "w"
                [] op = "increment" -> "i"
                [] op = "remove" -> "x"
                [] OTHER -> "r"

(* TRUE iff the session holds the credential the command requires *)
Authorised(c, o) ==
  CASE o.op \in AdminOps -> S(c).admin
    [] o.op \in SelAdminOps -> S(c).admin /\ HasSel(c)
    [] o.op \in KeyOps -> HasSel(c) /\ Access(c, S(c).sel, o.k, KindOf(o.op))
    [] o.op \in SelOps -> HasSel(c)
    [] o.op = "resolve" -> \* an administrator session (replication links are such) may resolve in any database
                           IF S(c).admin THEN TRUE
                           ELSE HasSel(c) /\ Access(c, S(c).sel, o.k, "w")
    [] OTHER -> TRUE

-----------------------------------------------------------------------------
(* auth: always answered ok; the session becomes administrator only with the right  *)
(* user and password and says so.                                                   *)
Auth(c, o, w) ==
  /\ o.op = "auth"
  /\ Success(w.cls)
  /\ LET good == o.u = Tab.admin_user /\ o.tok = Tab.admin_pwd
         adm  == S(c).admin \/ good
     IN /\ On("AUTH") => (w.authline = IF adm THEN "valid" ELSE "invalid")
        /\ sess' = [x \in DOMAIN sess \cup {c} |-> IF x = c THEN [S(c) EXCEPT !.admin = adm] ELSE sess[x]]
  /\ (On("AUTH") \/ On("READ")) => (Unchanged(w) /\ NoSideEffects(w))
  /\ SilentNotes(w)
  /\ dbs' = w.dbs
  /\ UNCHANGED <<subs, mx>>

(* use-db: selects iff the database exists and the token (or the user's token) is   *)
(* the stored one; a failed attempt keeps the previous selection.                   *)
TokenOK(o) ==
  /\ HasDb(o.d)
  /\ IF o.u = "-" THEN Live(dbs, o.d, "$$token") /\ Val(dbs, o.d, "$$token") = o.tok
     ELSE Live(dbs, o.d, UserKey(o.u)) /\ Val(dbs, o.d, UserKey(o.u)) = o.tok

OpenOn(SS, d) == Cardinality({x \in DOMAIN SS : SS[x].sel = d})

ConnsRight(SS, w) ==
  On("CONN") => \A d \in DOMAIN w.dbs : d # "$admin" =>
     /\ w.dbs[d].conns = OpenOn(SS, d) + SkewOf(d)
     /\ (OpenOn(SS,d) > 0 \/ Has(w.dbs, d, "$connections")) =>
           /\ Live(w.dbs, d, "$connections")
           /\ IsNum(Val(w.dbs, d, "$connections"))
           /\ IntOf(Val(w.dbs, d, "$connections")) = OpenOn(SS, d) + SkewOf(d)

(* watchers of $connections are told of every change of it: a session x receives one    *)
(* changed / changed-version pair per database whose $connections value changed and that   *)
(* x watches (x itself excluded when it is the session that just went away)               *)
ConnChanged(w, d) == d \in DOMAIN w.dbs /\ d \in DOMAIN dbs /\ d # "$admin"
                     /\ Has(w.dbs, d, "$connections")
                     /\ (~Has(dbs, d, "$connections") \/ Val(dbs, d, "$connections") # Val(w.dbs, d, "$connections"))
ConnNotesWithout(w, gone) ==
  \A x \in (DOMAIN w.notes \cup UNION {{SubsOf(d, "$connections")[i] : i \in DOMAIN SubsOf(d, "$connections")} : d \in DOMAIN dbs}) \ {gone} :
     LET n == Cardinality({d \in DOMAIN w.dbs : ConnChanged(w, d) /\ Count(SubsOf(d, "$connections"), x) > 0})
     IN Len(NotesOf(w, x)) = 2 * n
ConnNotes(w) == ConnNotesWithout(w, "#nobody")

UseDb(c, o, w) ==
  /\ o.op = "use-db"
  /\ IF On("AUTH") THEN Success(w.cls) = TokenOK(o) ELSE TRUE
  /\ IF Success(w.cls)
     THEN /\ sess' = [x \in DOMAIN sess \cup {c} |->
                        IF x = c THEN [S(c) EXCEPT !.sel = o.d, !.user = o.u] ELSE sess[x]]
          /\ (On("READ") \/ On("AUTH")) =>
                (UnchangedBut(w, o.d, {"$connections"}) /\ NoSideEffects(w))
          /\ ConnsRight(sess', w)
          /\ On("CONN") => ConnNotes(w)
     ELSE /\ UNCHANGED sess
          /\ (On("READ") \/ On("AUTH")) => (Unchanged(w) /\ NoSideEffects(w))
          /\ ConnsRight(sess, w)
          /\ SilentNotes(w)
  /\ dbs' = w.dbs
  /\ mx' = MxAfter(w)
  /\ UNCHANGED subs
  \* watchers of $connections are told about the change (group CONN/WATCH, checked in Trace_KV)

(* A session goes away (socket closed / HTTP request finished) *)
Close(c, w) ==
  /\ sess' = [x \in DOMAIN sess \ {c} |-> sess[x]]
  /\ subs' = [d \in DOMAIN subs |-> [k \in DOMAIN subs[d] |->
                 SelectSeq(subs[d][k], LAMBDA x : x # c)]]
  /\ w.cls # "panic"
  /\ (On("READ") \/ On("AUTH")) =>
        (UnchangedBut(w, S(c).sel, {"$connections"}) /\ NoSideEffects(w))
  /\ ConnsRight(sess', w)
  /\ On("CONN") => ConnNotesWithout(w, c)
  /\ dbs' = w.dbs
  /\ mx' = MxAfter(w)

-----------------------------------------------------------------------------
(* Reads *)
Get(c, o, w) ==
  /\ o.op \in {"get", "get-safe"}
  /\ Authorised(c, o)
  /\ w.cls = "value"
  /\ LET d == S(c).sel IN
     /\ On("READ") => w.rv = Val(dbs, d, o.k)
     /\ (On("VER") /\ o.op = "get-safe" /\ Has(dbs, d, o.k)) => w.rver = Ver(dbs, d, o.k)
  /\ (On("READ") \/ On("AUTH")) => (Unchanged(w) /\ NoSideEffects(w))
  /\ SilentNotes(w)
  /\ dbs' = w.dbs
  /\ UNCHANGED <<sess, subs, mx>>

Visible(c, k) == S(c).admin \/ ~IsSecure(k)

KeysCmd(c, o, w) ==
  /\ o.op = "keys"
  /\ Authorised(c, o)
  /\ w.cls = "value"
  /\ LET d == S(c).sel IN
     (On("READ") \/ On("SEC")) =>
        /\ o.p \in DOMAIN Tab.match
        /\ {w.rkeys[i] : i \in DOMAIN w.rkeys} =
              {k \in LiveKeys(dbs, d) : k \in Tab.match[o.p] /\ Visible(c, k)}
        /\ Len(w.rkeys) = Cardinality({w.rkeys[i] : i \in DOMAIN w.rkeys})
        /\ w.rsorted
  /\ (On("READ") \/ On("AUTH")) => (Unchanged(w) /\ NoSideEffects(w))
  /\ SilentNotes(w)
  /\ dbs' = w.dbs
  /\ UNCHANGED <<sess, subs, mx>>

-----------------------------------------------------------------------------
(* Writes on a database without conflict strategy *)

(* The compare-and-set rule (C02): absent key: always; existing key with version   *)
(* cur: iff v = -1 (unversioned) or v >= cur.  A removed key that still reports a  *)
(* version through get-safe may be treated either way when v < cur.               *)
MustAccept(d, k, v) == IF ~Has(dbs, d, k) THEN TRUE
                       ELSE IF v = -1 THEN TRUE ELSE v >= Ver(dbs, d, k)
MayRefuse(d, k, v)  == Has(dbs, d, k) /\ v # -1 /\ v < Ver(dbs, d, k)
MustRefuse(d, k, v) == MayRefuse(d, k, v) /\ Live(dbs, d, k)

WriteApplied(c, o, w, d) ==
  /\ Success(w.cls)
  /\ On("READ") => /\ Live(w.dbs, d, o.k) /\ Val(w.dbs, d, o.k) = o.v
                   /\ UnchangedBut(w, d, {o.k})
  /\ On("VER") => /\ Has(w.dbs, d, o.k)
                  /\ Live(dbs, d, o.k) => Ver(w.dbs, d, o.k) > OldMx(d, o.k)
                  /\ Has(dbs, d, o.k) => Ver(w.dbs, d, o.k) > Ver(dbs, d, o.k)
  /\ ChangeNotes(w, d, o.k, o.v, IF Has(w.dbs, d, o.k) THEN Ver(w.dbs, d, o.k) ELSE -99)

WriteRefused(c, o, w) ==
  /\ Refused(w.cls)
  /\ (On("READ") \/ On("VER")) => Unchanged(w)
  /\ SilentNotes(w)

SetNone(c, o, w) ==
  /\ o.op \in {"set", "set-safe"}
  /\ Authorised(c, o)
  /\ LET d == S(c).sel IN
     /\ dbs[d].strategy = "none"
     /\ IF On("VER")
        THEN \/ MustAccept(d, o.k, o.ver) /\ WriteApplied(c, o, w, d)
             \/ MustRefuse(d, o.k, o.ver) /\ WriteRefused(c, o, w)
             \/ MayRefuse(d, o.k, o.ver) /\ ~MustRefuse(d, o.k, o.ver)
                  /\ (WriteApplied(c, o, w, d) \/ WriteRefused(c, o, w))
        ELSE IF Success(w.cls) THEN WriteApplied(c, o, w, d) ELSE WriteRefused(c, o, w)
  /\ dbs' = w.dbs
  /\ mx' = MxAfter(w)
  /\ UNCHANGED <<sess, subs>>

(* Newer strategy (C19): never refused; the write either takes effect (stored value *)
(* is the written one, version grows, subscribers notified once) or is superseded   *)
(* (nothing changes, nobody notified).  Sequentially a write is the most recently    *)
(* issued change, so it must take effect.                                            *)
SetNewer(c, o, w) ==
  /\ o.op \in {"set", "set-safe"}
  /\ Authorised(c, o)
  /\ LET d == S(c).sel IN
     /\ dbs[d].strategy = "newer"
     /\ On("NEWER") => /\ Success(w.cls)
                       /\ Live(w.dbs, d, o.k) /\ Val(w.dbs, d, o.k) = o.v
                       /\ UnchangedBut(w, d, {o.k})
                       /\ Has(dbs, d, o.k) => Ver(w.dbs, d, o.k) > Ver(dbs, d, o.k)
                       /\ (w.setval # "-") => w.setval = o.v
     /\ IF Success(w.cls) /\ Live(w.dbs, d, o.k)
        THEN (On("NEWER") \/ On("WATCH")) =>
                 ChangeNotes(w, d, o.k, Val(w.dbs, d, o.k), Ver(w.dbs, d, o.k))
        ELSE SilentNotes(w)
     /\ (~On("NEWER") /\ On("READ") /\ Success(w.cls)) =>
            (Live(w.dbs, d, o.k) /\ Val(w.dbs, d, o.k) = o.v /\ UnchangedBut(w, d, {o.k}))
     /\ (~On("NEWER") /\ On("READ") /\ Refused(w.cls)) => Unchanged(w)
  /\ dbs' = w.dbs
  /\ mx' = MxAfter(w)
  /\ UNCHANGED <<sess, subs>>

Remove(c, o, w) ==
  /\ o.op = "remove"
  /\ Authorised(c, o)
  /\ LET d == S(c).sel IN
     IF o.k = "$$token"
     THEN /\ On("SEC") => Refused(w.cls)
          /\ (Refused(w.cls) /\ (On("READ") \/ On("SEC"))) => Unchanged(w)
          /\ SilentNotes(w)
     ELSE /\ Success(w.cls)
          /\ On("READ") => /\ ~Live(w.dbs, d, o.k)
                           /\ UnchangedBut(w, d, {o.k})
          /\ RemoveNotes(w, d, o.k)
  /\ dbs' = w.dbs
  /\ mx' = MxAfter(w)
  /\ UNCHANGED <<sess, subs>>

(* increment: absent counts as 0; adds exactly n to an integer value; anything else *)
(* is refused and unchanged.                                                       *)
Increment(c, o, w) ==
  /\ o.op = "increment"
  /\ Authorised(c, o)
  /\ LET d   == S(c).sel
         cur == Val(dbs, d, o.k)
         num == ~Live(dbs, d, o.k) \/ IsNum(cur)
         old == IF Live(dbs, d, o.k) THEN IntOf(cur) ELSE 0
     IN IF num
        THEN /\ On("READ") => /\ Success(w.cls)
                              /\ Live(w.dbs, d, o.k)
                              /\ IsNum(Val(w.dbs, d, o.k))
                              /\ IntOf(Val(w.dbs, d, o.k)) = old + o.n
                              /\ Tab.canon[Val(w.dbs, d, o.k)]
                              /\ UnchangedBut(w, d, {o.k})
             /\ (On("VER") /\ Success(w.cls)) =>
                   /\ Has(w.dbs, d, o.k)
                   /\ Live(dbs, d, o.k) => Ver(w.dbs, d, o.k) > OldMx(d, o.k)
             /\ Success(w.cls) =>
                   ChangeNotes(w, d, o.k, Val(w.dbs, d, o.k), -99)
             /\ Refused(w.cls) => (On("VER") => Unchanged(w)) /\ SilentNotes(w)
        ELSE /\ On("READ") => (Refused(w.cls) /\ Unchanged(w))
             /\ Refused(w.cls) => SilentNotes(w)
  /\ dbs' = w.dbs
  /\ mx' = MxAfter(w)
  /\ UNCHANGED <<sess, subs>>

-----------------------------------------------------------------------------
(* Subscriptions *)
Watch(c, o, w) ==
  /\ o.op = "watch"
  /\ Authorised(c, o)
  /\ Success(w.cls)
  /\ LET d == S(c).sel IN
     subs' = [e \in DOMAIN subs \cup {d} |->
                IF e = d
                THEN [k \in (IF d \in DOMAIN subs THEN DOMAIN subs[d] ELSE {}) \cup {o.k} |->
                        IF k = o.k THEN Append(SubsOf(d, k), c) ELSE subs[d][k]]
                ELSE subs[e]]
  /\ (On("READ") \/ On("AUTH")) => (Unchanged(w) /\ NoSideEffects(w))
  /\ SilentNotes(w)
  /\ dbs' = w.dbs
  /\ UNCHANGED <<sess, mx>>

Unwatch(c, o, w) ==
  /\ o.op \in {"unwatch", "unwatch-all"}
  /\ Authorised(c, o)
  /\ Success(w.cls)
  /\ LET d == S(c).sel IN
     subs' = [e \in DOMAIN subs |->
                IF e = d
                THEN [k \in DOMAIN subs[d] |->
                        IF o.op = "unwatch-all" \/ k = o.k
                        THEN SelectSeq(subs[d][k], LAMBDA x : x # c) ELSE subs[d][k]]
                ELSE subs[e]]
  /\ (On("READ") \/ On("AUTH")) => (Unchanged(w) /\ NoSideEffects(w))
  /\ SilentNotes(w)
  /\ dbs' = w.dbs
  /\ UNCHANGED <<sess, mx>>

-----------------------------------------------------------------------------
(* Administration *)
CreateDb(c, o, w) ==
  /\ o.op = "create-db"
  /\ Authorised(c, o)
  /\ IF HasDb(o.d)
     THEN /\ On("AUTH") \/ On("READ") => Refused(w.cls)
          /\ Refused(w.cls) => Unchanged(w)
     ELSE /\ Success(w.cls)
          /\ (On("AUTH") \/ On("READ")) =>
               /\ o.d \in DOMAIN w.dbs
               /\ w.dbs[o.d].strategy = o.strategy
               /\ Live(w.dbs, o.d, "$$token") /\ Val(w.dbs, o.d, "$$token") = o.tok
               /\ \A e \in DOMAIN dbs \ {"$admin"} : e \in DOMAIN w.dbs /\ w.dbs[e].keys = dbs[e].keys
               /\ \A e \in DOMAIN w.dbs \ {o.d} : e \in DOMAIN dbs
               /\ \A e \in DOMAIN dbs : w.dbs[e].id # w.dbs[o.d].id
  /\ SilentNotes(w)
  /\ dbs' = w.dbs
  /\ mx' = MxAfter(w)
  /\ UNCHANGED <<sess, subs>>

(* create-user / set-permissions: an administrator with a selected database writes *)
(* the user's token / permission list.                                              *)
AdminWrite(c, o, w) ==
  /\ o.op \in {"create-user", "set-permissions"}
  /\ Authorised(c, o)
  /\ Success(w.cls)
  /\ LET d == S(c).sel
         k == IF o.op = "create-user" THEN UserKey(o.u) ELSE PermKey(o.u)
     IN (On("AUTH") \/ On("READ")) =>
          /\ Live(w.dbs, d, k) /\ Val(w.dbs, d, k) = o.v
          /\ UnchangedBut(w, d, {k})
  /\ dbs' = w.dbs
  /\ mx' = MxAfter(w)
  /\ UNCHANGED <<sess, subs>>

(* Commands that only need the administrator credential and do not touch the data *)
AdminOther(c, o, w) ==
  /\ o.op \in AdminOps \ {"create-db", "replicate", "replicate-remove", "replicate-increment",
                           "replicate-snapshot", "snapshot"}
  /\ Authorised(c, o)
  /\ w.cls # "panic"
  /\ (On("READ")) => Unchanged(w)
  /\ dbs' = w.dbs
  /\ mx' = MxAfter(w)
  /\ UNCHANGED <<sess, subs>>

Snapshot(c, o, w) ==
  /\ o.op = "snapshot"
  /\ Authorised(c, o)
  /\ IF (o.names = <<>> /\ ~HasSel(c)) \/ (\E i \in DOMAIN o.names : ~HasDb(o.names[i]))
     THEN On("AUTH") => (Refused(w.cls) /\ Unchanged(w) /\ NoSideEffects(w))
     ELSE On("READ") => (Success(w.cls) /\ Unchanged(w))
  /\ SilentNotes(w)
  /\ dbs' = w.dbs
  /\ UNCHANGED <<sess, subs, mx>>

(* Replication commands applied by an administrator session: they act on the named *)
(* database like the corresponding client command (used by C03/C19 replicated writes). *)
ReplicateCmd(c, o, w) ==
  /\ o.op \in {"replicate", "replicate-remove", "replicate-increment", "replicate-snapshot"}
  /\ Authorised(c, o)
  /\ w.cls # "panic"
  /\ dbs' = w.dbs
  /\ mx' = MxAfter(w)
  /\ UNCHANGED <<sess, subs>>

(* arbiter / resolve are specified in NunArbiter; here only their credential rule *)
Other(c, o, w) ==
  /\ \/ o.op \in {"arbiter", "resolve"}
     \/ o.op \in {"set", "set-safe"} /\ HasSel(c) /\ dbs[S(c).sel].strategy = "arbiter"
  /\ Authorised(c, o)
  /\ w.cls # "panic"
  /\ dbs' = w.dbs
  /\ mx' = MxAfter(w)
  /\ UNCHANGED <<sess, subs>>

(* Unknown / malformed command lines: an error, nothing changes *)
Garbage(c, o, w) ==
  /\ o.op = "garbage"
  /\ RefusedStep(c, o, w)

(* Persistence steps do not change what clients see *)
Tick(w) ==
  /\ On("READ") => Unchanged(w)
  /\ NoNotes(w)
  /\ w.cls # "panic"
  /\ dbs' = w.dbs
  /\ UNCHANGED <<sess, subs, mx>>

-----------------------------------------------------------------------------
Unauthorised(c, o, w) ==
  /\ o.op \notin {"auth", "use-db", "garbage"}
  /\ ~Authorised(c, o)
  /\ IF On("AUTH") \/ (On("SEC") /\ o.op \in KeyOps /\ IsSecure(o.k))
     THEN RefusedStep(c, o, w)
     ELSE /\ dbs' = w.dbs /\ mx' = MxAfter(w) /\ UNCHANGED <<sess, subs>>
          /\ Refused(w.cls) => (On("READ") => Unchanged(w))

Cmd(c, o, w) ==
  /\ UNCHANGED skew
  /\ \/ Auth(c, o, w)
     \/ UseDb(c, o, w)
     \/ Get(c, o, w)
     \/ KeysCmd(c, o, w)
     \/ SetNone(c, o, w)
     \/ SetNewer(c, o, w)
     \/ Remove(c, o, w)
     \/ Increment(c, o, w)
     \/ Watch(c, o, w)
     \/ Unwatch(c, o, w)
     \/ CreateDb(c, o, w)
     \/ AdminWrite(c, o, w)
     \/ AdminOther(c, o, w)
     \/ Snapshot(c, o, w)
     \/ ReplicateCmd(c, o, w)
     \/ Other(c, o, w)
     \/ Garbage(c, o, w)
     \/ Unauthorised(c, o, w)
=============================================================================
