SPECIFICATION TraceSpec
CONSTANT Cap = 250
CONSTRAINT Progress
POSTCONDITION TraceAccepted
CHECK_DEADLOCK FALSE
