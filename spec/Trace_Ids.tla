------------------------------ MODULE Trace_Ids ------------------------------
(***************************************************************************)
(* C16.  After any (re)start of a node -- clean, or on the directory as a  *)
(* kill at some file-system call left it -- either the operation log was   *)
(* discarded (oplog-valid flag false: the node asks for a full             *)
(* resynchronisation), or every record still in the log decodes, through   *)
(* the restarted node's identifier maps, to the database and key it was    *)
(* written for.  No two databases share an identifier.  The same holds for *)
(* the identifier maps of the RUNNING node after every create-db, accepted *)
(* or refused (check kind "live").                                         *)
(***************************************************************************)
EXTENDS Integers, Sequences, FiniteSets, TLC, Json, IOUtils

Rec == ndJsonDeserialize(IOEnv.TRACE)
Cfg == JsonDeserialize(IOEnv.CFG)
Devs == {Cfg.devs[i] : i \in DOMAIN Cfg.devs}

VARIABLES l, used
tvars == <<l, used>>
E == Rec[l]

Intended(r) == \E i \in DOMAIN E.intents :
                  E.intents[i][1] = r[1] /\ E.intents[i][2] = r[2] /\ E.intents[i][3] = r[3]

DecodesRight == \A i \in DOMAIN E.dec.records : Intended(E.dec.records[i])
IdsDistinct == \A a, b \in DOMAIN E.dec.dbids : a # b => E.dec.dbids[a] # E.dec.dbids[b]

CheckOK ==
  /\ E.ev = "check"
  /\ E.dec.start = "ok"
  /\ IdsDistinct = TRUE
  /\ (E.dec.valid => DecodesRight) = TRUE
  /\ UNCHANGED used

(* known finding: database identifiers are the number of databases at creation; a restart *)
(* that restores only the snapshotted ones leaves log records whose database is unknown   *)
(* (or, after a new create-db, belongs to another database) while the log stays valid.    *)
(* Narrowly: a record written for database D may decode to nothing or to another database *)
(* X only if D is no longer a database of the node (it was never snapshotted and vanished *)
(* with the restart) and X is the database that now carries the record's identifier; or   *)
(* if D and X are both databases of the node and carry the same identifier (second        *)
(* manifestation below).  A record of a database the node still has, decoding to another  *)
(* database with another identifier, is not this finding.                                 *)
HasDb(d) == d \in DOMAIN E.dec.dbids
ExplainedByIdFromCount(r) == \E i \in DOMAIN E.intents :
    /\ E.intents[i][1] = r[1] /\ E.intents[i][3] = r[3] /\ E.intents[i][2] # r[2]
    /\ LET D == E.intents[i][2] IN
       \* (D vanished: no database of that name, or the database of that name is a later one with another identifier)
       \/ (IF HasDb(D) THEN E.dec.dbids[D] # r[5] ELSE TRUE) /\ (r[2] = "-" \/ (HasDb(r[2]) /\ E.dec.dbids[r[2]] = r[5]))
       \/ HasDb(D) /\ HasDb(r[2]) /\ E.dec.dbids[D] = E.dec.dbids[r[2]]
Dev_DbIdFromCount ==
  /\ "Dev_DbIdFromCount" \in Devs
  /\ E.ev = "check" /\ E.dec.start = "ok" /\ E.dec.valid
  /\ IdsDistinct = TRUE
  /\ DecodesRight = FALSE
  /\ (\A i \in DOMAIN E.dec.records : Intended(E.dec.records[i]) \/ ExplainedByIdFromCount(E.dec.records[i])) = TRUE
  /\ used' = used \cup {"Dev_DbIdFromCount"}

(* the same finding, other manifestation: two databases carry the same identifier.  An identifier *)
(* is the number of databases present when it is assigned -- by create-db, or by the loader for a  *)
(* database whose metadata file is not on disk (kill between the data files and the metadata file  *)
(* of its first snapshot) -- so after a restart that restored only some databases the next         *)
(* assignment repeats the identifier of a restored one                                             *)
Dev_DbIdFromCount_Shared ==
  /\ "Dev_DbIdFromCount" \in Devs
  /\ E.ev = "check" /\ E.dec.start = "ok"
  /\ IdsDistinct = FALSE
  /\ (E.dec.valid => \A i \in DOMAIN E.dec.records :
                        Intended(E.dec.records[i]) \/ ExplainedByIdFromCount(E.dec.records[i])) = TRUE
  /\ used' = used \cup {"Dev_DbIdFromCount"}

Other == E.ev \in {"cmd", "tick", "shutdown"} /\ UNCHANGED used

TraceInit == l = 1 /\ used = {} /\ TLCSet(1, 0)
Reset == E.ev = "reset" /\ used' = {} /\ ((used # {}) => PrintT(<<"USED", Rec[l-1].run, used>>))
TraceNext == l <= Len(Rec) /\ l' = l + 1 /\ (Reset \/ CheckOK \/ Other \/ Dev_DbIdFromCount \/ Dev_DbIdFromCount_Shared)
TraceSpec == TraceInit /\ [][TraceNext]_tvars

Progress ==
  /\ (l > TLCGet(1)) => TLCSet(1, l)
  /\ (l = Len(Rec) + 1 /\ used # {}) => PrintT(<<"USED", Rec[l-1].run, used>>)
TraceAccepted ==
  IF TLCGet(1) = Len(Rec) + 1
  THEN PrintT(<<"ACCEPTED", Len(Rec)>>)
  ELSE PrintT(<<"REJECTED", TLCGet(1), Rec[TLCGet(1)].run, Rec[TLCGet(1)].i>>) /\ FALSE
=============================================================================
