------------------------------ MODULE Trace_NI ------------------------------
(***************************************************************************)
(* C08, non-interference part: two runs of the real node that received the *)
(* same commands from the same non-administrator sessions, and differ only *)
(* in what the administrator stored under $$ keys.  The two-run trace is   *)
(* a behaviour of this self-composition iff                                *)
(*   - every reply and every pushed line received by a non-administrator   *)
(*     session is identical in both runs, and                              *)
(*   - no step of a non-administrator session changes any $$ key (value,   *)
(*     version, removed/live) in either run.                               *)
(***************************************************************************)
EXTENDS Integers, Sequences, FiniteSets, TLC, Json, IOUtils

Rec == ndJsonDeserialize(IOEnv.TRACE)
Cfg == JsonDeserialize(IOEnv.CFG)
Devs == {Cfg.devs[i] : i \in DOMAIN Cfg.devs}

VARIABLES l, secA, secB, used
tvars == <<l, secA, secB, used>>

E == Rec[l]

TraceInit ==
  /\ l = 1 /\ used = {}
  /\ secA = <<>> /\ secB = <<>>
  /\ TLCSet(1, 0)

Reset ==
  /\ E.ev = "reset"
  /\ secA' = E.A.sec /\ secB' = E.B.sec
  /\ used' = {}
  /\ (used # {}) => PrintT(<<"USED", Rec[l-1].run, used>>)

SameObservations ==
  /\ E.A.cls = E.B.cls
  /\ E.A.rv = E.B.rv
  /\ E.A.rver = E.B.rver
  /\ E.A.rkeys = E.B.rkeys
  /\ E.A.replies = E.B.replies
  /\ E.A.notes = E.B.notes

AdminStep ==
  /\ E.ev = "pair" /\ E.adm
  \* the administrator may change secrets; plain sessions must see the same thing in both runs
  /\ E.A.notes = E.B.notes
  /\ secA' = E.A.sec /\ secB' = E.B.sec
  /\ UNCHANGED used

PlainStep ==
  /\ E.ev = "pair" /\ ~E.adm
  /\ SameObservations
  /\ E.A.sec = secA /\ E.B.sec = secB
  /\ E.A.cls # "panic"
  /\ UNCHANGED <<secA, secB, used>>

(* known finding: `resolve' bypasses the access check and can overwrite $$ keys *)
Dev_ResolveBypassesAccess ==
  /\ "Dev_ResolveBypassesAccess" \in Devs
  /\ E.ev = "pair" /\ ~E.adm /\ E.op = "resolve"
  /\ SameObservations
  /\ ~(E.A.sec = secA /\ E.B.sec = secB)
  /\ secA' = E.A.sec /\ secB' = E.B.sec
  /\ used' = used \cup {"Dev_ResolveBypassesAccess"}

TraceNext ==
  /\ l <= Len(Rec)
  /\ l' = l + 1
  /\ (Reset \/ AdminStep \/ PlainStep \/ Dev_ResolveBypassesAccess)

TraceSpec == TraceInit /\ [][TraceNext]_tvars

Progress ==
  /\ (l > TLCGet(1)) => TLCSet(1, l)
  /\ (l = Len(Rec) + 1 /\ used # {}) => PrintT(<<"USED", Rec[l-1].run, used>>)

TraceAccepted ==
  IF TLCGet(1) = Len(Rec) + 1
  THEN PrintT(<<"ACCEPTED", Len(Rec)>>)
  ELSE PrintT(<<"REJECTED", TLCGet(1), Rec[TLCGet(1)].run, Rec[TLCGet(1)].i>>) /\ FALSE
=============================================================================
