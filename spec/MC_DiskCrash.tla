---------------------------- MODULE MC_DiskCrash ----------------------------
EXTENDS NunDiskCrash
(* keys "k", "j2"; values "v", "ww", and one of 45 bytes (larger than the scaled-down buffer of 40) *)
KeySetDef == {<<107>>, <<106, 50>>}
ValSetDef == {<<118>>, <<119, 119>>, [i \in 1..45 |-> 66]}
=============================================================================
