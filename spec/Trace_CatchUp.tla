---------------------------- MODULE Trace_CatchUp ----------------------------
(***************************************************************************)
(* Every recorded call of the primary's catch-up builder (supervisor        *)
(* command `replicate-since-to'), with the raw operation log, identifier    *)
(* maps and databases of the primary at that instant and the lines it put   *)
(* on the joining node's connection, is compared with NunCatchUp.  Calls    *)
(* are independent of each other: a call that does not conform is reported  *)
(* (<<"NONCONF", run, index>>) and validation goes on.                      *)
(***************************************************************************)
EXTENDS NunCatchUp, Json, IOUtils

Rec == ndJsonDeserialize(IOEnv.TRACE)

VARIABLE l
E == Rec[l]

Conforms ==
  IF E.member # "sender"
  THEN E.lines = <<>> /\ ~E.panic      \* the target is not a member (or has no connection): nothing is built or sent
  ELSE ~E.panic /\ CatchUpOK(E.oplog, E.idd, E.idk, E.store, E.since, E.lines)

TraceInit == l = 1
TraceNext == /\ l <= Len(Rec) /\ l' = l + 1
             /\ IF (Conforms) = TRUE THEN PrintT(<<"CONF", E.run, E.i, E.since>>) ELSE PrintT(<<"NONCONF", E.run, E.i, E.since>>)
TraceSpec == TraceInit /\ [][TraceNext]_l
Done == (l = Len(Rec) + 1) => PrintT(<<"CHECKED", Len(Rec)>>)
=============================================================================
