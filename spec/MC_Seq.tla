------------------------------- MODULE MC_Seq -------------------------------
(***************************************************************************)
(* Implementation-shaped sequential model of one database on one node:     *)
(* the in-memory map with its persistence states (New / Ok / Updated /     *)
(* Deleted), the version rule of Change::next_version, Value::from on      *)
(* increment, tombstones, and the snapshot queue + declutter tick.         *)
(*                                                                         *)
(* Used (a) to check at design level that the live part of the map is the  *)
(* plain map the clients were promised (invariant Refines, with the        *)
(* recorded deviations as ghost flags) and (b) as the generator of         *)
(* command histories: one shortest history per (abstract state, command).  *)
(***************************************************************************)
EXTENDS Integers, Sequences, FiniteSets, TLC, Json

CONSTANTS Keys,      \* key names
          MaxLen,    \* history bound
          Clients,   \* sessions issuing commands ("c1" plain token, "a" administrator)
          Secure     \* the keys only the administrator session may touch

VARIABLES mem,    \* [Keys -> entry]   entry.st \in {"Absent","New","Ok","Updated","Deleted"}
          ref,    \* [Keys -> value or NoVal]   the plain map (reference)
          snapq,  \* pending snapshot request: "none" | "inc" | "reclaim"
          devs,   \* ghost: deviations of the implementation taken so far
          hist    \* commands issued so far (hidden from the state view)

vars == <<mem, ref, snapq, devs, hist>>

V(s, n, num) == [s |-> s, n |-> n, num |-> num]
Vals == {V("x", 0, FALSE), V("7", 7, TRUE), V("", 0, FALSE), V("two words", 0, FALSE)}
Incs == {1, -3}
Pats == {"*", "a*", "*b", "$$", "$*"}
NoVal == V("<none>", 0, FALSE)
Tomb  == V("<Empty>", 0, FALSE)
Absent == [st |-> "Absent", val |-> NoVal, ver |-> 0]

NumV(n) == V(ToString(n), n, TRUE)

Init ==
  /\ mem = [k \in Keys |-> Absent]
  /\ ref = [k \in Keys |-> NoVal]
  /\ snapq = "none"
  /\ devs = {}
  /\ hist = <<>>

(* the record carries what the model holds in memory after the step (persistence state, version per key): the *)
(* driver compares it with the node's entries and explores further from a step that differs                   *)
Log(c, rec) == hist' = Append(hist, rec @@ [c |-> c, post |-> [k \in Keys |-> <<mem'[k].st, mem'[k].ver>>]])

(* a plain session is refused on secure keys: the command is issued, nothing happens *)
Denied(c, k) == c # "a" /\ k \in Secure
Nop == UNCHANGED <<mem, ref, snapq, devs>>

LiveEntry(e) == e.st \notin {"Absent", "Deleted"}

UpdSt(e) == IF e.st = "New" THEN "New" ELSE "Updated"

(* set / set-safe.  delta: 99 = unversioned, otherwise an offset from the current version *)
Set(c, k, v, delta) ==
  LET old == mem[k]
      ver == IF delta = 99 THEN -1 ELSE old.ver + delta
  IN /\ ver >= -1
     /\ (delta # 99 => ver >= 0)
     /\ IF Denied(c, k) THEN UNCHANGED <<mem, ref>> ELSE
        IF old.st = "Absent"
        THEN /\ mem' = [mem EXCEPT ![k] = [st |-> "New", val |-> v, ver |-> ver + 1]]
             /\ ref' = [ref EXCEPT ![k] = v]
        ELSE LET nv == IF ver = -1 THEN old.ver + 1 ELSE ver + 1 IN
             IF nv <= old.ver
             THEN UNCHANGED <<mem, ref>>
             ELSE /\ mem' = [mem EXCEPT ![k] = [st |-> UpdSt(old), val |-> v, ver |-> nv]]
                  /\ ref' = [ref EXCEPT ![k] = v]
     /\ UNCHANGED <<snapq, devs>>
     /\ Log(c, [op |-> IF delta = 99 THEN "set" ELSE "set-safe", k |-> k, v |-> v.s, ver |-> ver])

Remove(c, k) ==
  LET old == mem[k] IN
  /\ IF Denied(c, k) THEN UNCHANGED <<mem, ref>> ELSE
       /\ mem' = [mem EXCEPT ![k] =
                    IF old.st \in {"Absent", "New"} THEN Absent
                    ELSE [st |-> "Deleted", val |-> Tomb, ver |-> old.ver + 1]]
       /\ ref' = [ref EXCEPT ![k] = NoVal]
  /\ UNCHANGED <<snapq, devs>>
  /\ Log(c, [op |-> "remove", k |-> k])

Increment(c, k, n) ==
  LET old == mem[k] IN
  /\ IF Denied(c, k) THEN UNCHANGED <<mem, ref, devs>> ELSE
     IF old.st = "Absent"
     THEN /\ mem' = [mem EXCEPT ![k] = [st |-> "New", val |-> NumV(n), ver |-> 1]]
          /\ ref' = [ref EXCEPT ![k] = NumV(n)]
          /\ UNCHANGED devs
     ELSE IF old.st = "Deleted"
     THEN \* a removed key counts as 0; the entry keeps its place on disk
          /\ mem' = [mem EXCEPT ![k] = [st |-> "Updated", val |-> NumV(n), ver |-> old.ver + 1]]
          /\ ref' = [ref EXCEPT ![k] = NumV(n)]
          /\ UNCHANGED devs
     ELSE IF old.val.num
     THEN /\ mem' = [mem EXCEPT ![k] = [st |-> UpdSt(old), val |-> NumV(old.val.n + n), ver |-> old.ver + 1]]
          /\ ref' = [ref EXCEPT ![k] = NumV(old.val.n + n)]
          /\ UNCHANGED devs
     ELSE \* "Key is not numeric"
          /\ UNCHANGED <<mem, ref, devs>>
  /\ UNCHANGED snapq
  /\ Log(c, [op |-> "increment", k |-> k, n |-> n])

Read(c, k, safe) ==
  /\ UNCHANGED <<mem, ref, snapq, devs>>
  /\ Log(c, [op |-> IF safe THEN "get-safe" ELSE "get", k |-> k])

ListKeys(c, p) ==
  /\ UNCHANGED <<mem, ref, snapq, devs>>
  /\ Log(c, [op |-> "keys", p |-> p])

SnapReq(reclaim) ==
  /\ snapq' = IF reclaim THEN "reclaim" ELSE "inc"
  /\ UNCHANGED <<mem, ref, devs>>
  /\ Log("a", [op |-> "snapshot", reclaim |-> reclaim])

(* declutter tick: storage_data_disk's per-state plan *)
Tick ==
  /\ snapq # "none"
  /\ mem' = [k \in Keys |->
               LET e == mem[k] IN
               IF e.st \in {"New", "Updated"} \/ (snapq = "reclaim" /\ e.st = "Ok")
               THEN [e EXCEPT !.st = "Ok"]
               \* a reclaiming snapshot does not write tombstones and forgets them
               ELSE IF snapq = "reclaim" /\ e.st = "Deleted" THEN Absent ELSE e]
  /\ snapq' = "none"
  /\ UNCHANGED <<ref, devs>>
  /\ Log("-", [op |-> "tick"])

Next ==
  /\ Len(hist) < MaxLen
  /\ \/ \E c \in Clients, k \in Keys, v \in Vals, d \in {99, -1, 0, 1} : Set(c, k, v, d)
     \/ \E c \in Clients, k \in Keys : Remove(c, k)
     \/ \E c \in Clients, k \in Keys, n \in Incs : Increment(c, k, n)
     \/ \E c \in Clients, k \in Keys, s \in BOOLEAN : Read(c, k, s)
     \/ \E c \in Clients, p \in Pats : ListKeys(c, p)
     \/ \E r \in BOOLEAN : SnapReq(r)
     \/ Tick

Spec == Init /\ [][Next]_vars

(* The live part of the implementation's map is the plain map ... *)
Refines ==
  \A k \in Keys :
     IF LiveEntry(mem[k]) THEN ref[k] = mem[k].val ELSE ref[k] = NoVal

(* ... and versions only grow within an incarnation, unless a recorded deviation fired *)
View == <<[k \in Keys |-> [st |-> mem[k].st, val |-> mem[k].val]], snapq>>

Emit == PrintT(<<"CASE", ToJson(hist')>>)
=============================================================================
