SPECIFICATION TraceSpec
CONSTANTS
  Tab <- TabDef
  Checks <- ChecksDef
CONSTRAINT Progress
POSTCONDITION TraceAccepted
CHECK_DEADLOCK FALSE
