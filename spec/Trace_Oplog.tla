----------------------------- MODULE Trace_Oplog -----------------------------
(***************************************************************************)
(* C12 on real files: the log that was appended (through the real writer,  *)
(* possibly rotated into several files) and what the real query returned.  *)
(***************************************************************************)
EXTENDS Integers, Sequences, FiniteSets, TLC, Json, IOUtils

Rec == ndJsonDeserialize(IOEnv.TRACE)
Cfg == JsonDeserialize(IOEnv.CFG)
Devs == {Cfg.devs[i] : i \in DOMAIN Cfg.devs}

VARIABLES l, used
tvars == <<l, used>>
E == Rec[l]

(* reference (same definitions as NunOplog) *)
LastIdx(lg, k) == CHOOSE i \in DOMAIN lg : lg[i].k = k /\ \A j \in DOMAIN lg : lg[j].k = k => j <= i
Required(lg, s) == {lg[i].k : i \in {j \in DOMAIN lg : lg[j].t >= s}}
RefLabel(lg, k) == lg[LastIdx(lg, k)].op
NewestTime(lg) == IF lg = <<>> THEN 0 ELSE lg[Len(lg)].t
KeysOf(lg) == {lg[i].k : i \in DOMAIN lg}

QueryOK(lg, q) ==
  /\ q.cls = "ok"
  /\ \A k \in Required(lg, q.since) : k \in DOMAIN q.ret
  /\ \A k \in DOMAIN q.ret : k \in KeysOf(lg) /\ q.ret[k][2] = RefLabel(lg, k)

Sum(seq) == LET RECURSIVE S(_) S(i) == IF i = 0 THEN 0 ELSE seq[i] + S(i - 1) IN S(Len(seq))

Oplog ==
  /\ E.ev = "oplog"
  /\ \A i \in DOMAIN E.queries : QueryOK(E.log, E.queries[i])
  /\ E.last_op_time = NewestTime(E.log)
  \* rotation never loses a record (the logs here are far below ten files)
  /\ E.files.current + Sum(E.files.rotated) >= Len(E.log)
  /\ UNCHANGED used

TraceInit == l = 1 /\ used = {} /\ TLCSet(1, 0)
Reset == E.ev = "reset" /\ used' = {} /\ ((used # {}) => PrintT(<<"USED", Rec[l-1].run, used>>))
TraceNext == l <= Len(Rec) /\ l' = l + 1 /\ (Reset \/ Oplog)
TraceSpec == TraceInit /\ [][TraceNext]_tvars

Progress ==
  /\ (l > TLCGet(1)) => TLCSet(1, l)
  /\ (l = Len(Rec) + 1 /\ used # {}) => PrintT(<<"USED", Rec[l-1].run, used>>)
TraceAccepted ==
  IF TLCGet(1) = Len(Rec) + 1
  THEN PrintT(<<"ACCEPTED", Len(Rec)>>)
  ELSE PrintT(<<"REJECTED", TLCGet(1), Rec[TLCGet(1)].run, 0>>) /\ FALSE
=============================================================================
