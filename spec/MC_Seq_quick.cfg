SPECIFICATION Spec
CONSTANTS
  Keys = {"a", "$$s"}
  MaxLen = 5
  Clients = {"c1", "a"}
  Secure = {"$$s"}
INVARIANT Refines
VIEW View
ACTION_CONSTRAINT Emit
CHECK_DEADLOCK FALSE
