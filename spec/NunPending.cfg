SPECIFICATION Spec
CONSTANTS
  Ops = {11, 12}
  Nodes = {"n1", "n2", "n3"}
  MaxLen = 8
INVARIANTS ExactStrict CountersSane
VIEW View
ACTION_CONSTRAINT Emit
CHECK_DEADLOCK FALSE
