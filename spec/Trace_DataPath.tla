--------------------------- MODULE Trace_DataPath ---------------------------
(***************************************************************************)
(* Trace validation of cluster-simulator runs against NunCluster (the       *)
(* data path on an established cluster): from the quiescent state recorded  *)
(* after the set-up commands, every recorded step -- client command,        *)
(* replication-loop entry, line delivered on a connection, reply line --    *)
(* is replayed as the model's action of that name, and the projection of    *)
(* the real nodes recorded after the step (every key of the database with   *)
(* value and version, the replication queue of every node, the queued       *)
(* request and reply lines of every connection, the number of pending       *)
(* operations) must equal the model's state.                                *)
(***************************************************************************)
EXTENDS NunCluster, Json, IOUtils

Rec == ndJsonDeserialize(IOEnv.TRACE)
Cfg == JsonDeserialize(IOEnv.CFG)
CNodes == {Cfg.nodes[i] : i \in DOMAIN Cfg.nodes}
CP == Cfg.nodes[1]
COps == [i \in DOMAIN Cfg.keys |-> [k |-> Cfg.keys[i]]]      \* only the key universe is taken from it
CInit == <<>>
CStrategy == Cfg.strategy

VARIABLE l
tvars == <<store, replq, req, rsp, pend, next, clock, sent, ghost, sched, disk, snapq, l>>
E == Rec[l]

Elems(sq) == {sq[i] : i \in DOMAIN sq}

(* ---------------- the model state as the simulator records it ---------------- *)
Inner(m) == CASE m.kind = "replicate" -> "replicate d " \o m.k \o " " \o ToString(m.ver) \o " " \o m.v
              [] m.kind = "replicate-remove" -> "replicate-remove d " \o m.k
              [] m.kind = "replicate-increment" -> "replicate-increment d " \o m.k \o " " \o ToString(m.d)
              [] m.kind = "replicate-snapshot" -> "replicate-snapshot d false"
ReqLine(m) == IF "rp" \in DOMAIN m THEN "rp " \o Inner(m) ELSE Inner(m)
RspLine(a) == IF a.ack > 0 THEN "ack " \o a.from ELSE "noise"

KeysOf(J) == DOMAIN J
StoreMatches(st, J) ==      \* J: key -> <<value, version, state>> of database d on one node (local keys left out)
  /\ \A k \in Keys : IF st[k][2] = -1 THEN k \notin KeysOf(J)
                     ELSE k \in KeysOf(J) /\ J[k][1] = st[k][1] /\ J[k][2] = st[k][2]
                          /\ (J[k][3] # "Deleted") = st[k][3]
  /\ KeysOf(J) \subseteq Keys

LinkKey(p) == p[1] \o ">" \o p[2]
(* the state components are parameters: the action compares the *next* state with the recorded one *)
Matches(sto, rpq, rq, rs, pd, sq, J) ==
  /\ \A n \in Nodes :
       /\ StoreMatches(sto[n], J.nodes[n].data)
       /\ J.nodes[n].snapq = (n \in sq)
       /\ J.nodes[n].replq = [i \in DOMAIN rpq[n] |-> "rp " \o Inner(rpq[n][i])]
       /\ J.nodes[n].pending = (IF n = P THEN Cardinality({p[1] : p \in pd}) ELSE 0)
  /\ \A p \in Links :
       /\ LinkKey(p) \in DOMAIN J.links
       /\ J.links[LinkKey(p)].q = [i \in DOMAIN rq[p] |-> ReqLine(rq[p][i])]
       /\ J.links[LinkKey(p)].rsp = [i \in DOMAIN rs[p] |-> RspLine(rs[p][i])]
  \* connections the data path does not use stay empty
  /\ \A key \in DOMAIN J.links : (key \notin {LinkKey(p) : p \in Links}) =>
        (J.links[key].q = <<>> /\ J.links[key].rsp = <<>>)

(* ---------------- events ---------------- *)
TraceInit ==
  /\ store = [n \in Nodes |-> [k \in Keys |-> Absent]] /\ replq = [n \in Nodes |-> <<>>]
  /\ req = [p \in Links |-> <<>>] /\ rsp = [p \in Links |-> <<>>] /\ pend = {} /\ next = 1 /\ clock = 1
  /\ sent = [forward |-> 0, copy |-> 0, ack |-> 0] /\ ghost = {} /\ sched = <<>>
  /\ disk = [n \in Nodes |-> {}] /\ snapq = {}
  /\ l = 1 /\ TLCSet(1, 0)

(* the quiescent state after the set-up commands is where the model starts *)
Start ==
  /\ E.ev = "start"
  /\ store' = [n \in Nodes |-> [k \in Keys |->
                 IF k \in DOMAIN E.st.nodes[n].data
                 THEN <<E.st.nodes[n].data[k][1], E.st.nodes[n].data[k][2], E.st.nodes[n].data[k][3] # "Deleted">>
                 ELSE Absent]]
  /\ replq' = [n \in Nodes |-> <<>>] /\ req' = [p \in Links |-> <<>>] /\ rsp' = [p \in Links |-> <<>>]
  /\ pend' = {} /\ next' = 1 /\ clock' = 1 /\ sent' = [forward |-> 0, copy |-> 0, ack |-> 0]
  /\ ghost' = {} /\ sched' = <<>>
  \* nothing of the database has been written by a snapshot yet; a snapshot may be queued (create-db queues one)
  /\ disk' = [n \in Nodes |-> {}] /\ snapq' = {n \in Nodes : E.st.nodes[n].snapq}
  \* (nothing may be in flight at that point)
  /\ \A n \in Nodes : E.st.nodes[n].replq = <<>> /\ E.st.nodes[n].pending = 0
  /\ \A key \in DOMAIN E.st.links : E.st.links[key].q = <<>> /\ E.st.links[key].rsp = <<>>

StepEv ==
  /\ E.ev = "st"
  /\ CASE E.kind = "client" -> ClientOp(E.op) /\ UNCHANGED <<next, sched>>
       [] E.kind = "repl" -> Repl(E.a)
       [] E.kind = "deliver" -> Deliver(E.a, E.b)
       [] E.kind = "reply" -> Reply(E.a, E.b)
       [] OTHER -> FALSE
  /\ (Matches(store', replq', req', rsp', pend', snapq', E.st)) = TRUE

(* diagnosis of a rejected step (IOEnv.DEBUG set): the state the model reaches *)
Diag ==
  /\ "DEBUG" \in DOMAIN IOEnv /\ E.ev = "st"
  /\ CASE E.kind = "client" -> ClientOp(E.op) /\ UNCHANGED <<next, sched>>
       [] E.kind = "repl" -> Repl(E.a)
       [] E.kind = "deliver" -> Deliver(E.a, E.b)
       [] E.kind = "reply" -> Reply(E.a, E.b)
       [] OTHER -> FALSE
  /\ (Matches(store', replq', req', rsp', pend', snapq', E.st)) = FALSE
  /\ PrintT(<<"DIAG", l, E.kind, E.a, E.b, E.op>>)
  /\ PrintT(<<"DIAG-store", store'>>)
  /\ PrintT(<<"DIAG-replq", replq'>>)
  /\ PrintT(<<"DIAG-req", req', "rsp", rsp', "pend", pend'>>)
  /\ FALSE

Reset == E.ev = "reset" /\ UNCHANGED <<store, replq, req, rsp, pend, next, clock, sent, ghost, sched, disk, snapq>>

TraceNext == l <= Len(Rec) /\ l' = l + 1 /\ (Reset \/ Start \/ StepEv \/ Diag)
TraceSpec == TraceInit /\ [][TraceNext]_tvars

Progress == (l > TLCGet(1)) => TLCSet(1, l)
TraceAccepted ==
  IF TLCGet(1) = Len(Rec) + 1
  THEN PrintT(<<"ACCEPTED", Len(Rec)>>)
  ELSE PrintT(<<"REJECTED", TLCGet(1), Rec[TLCGet(1)].run, TLCGet(1)>>) /\ FALSE
=============================================================================
