SPECIFICATION Spec
CONSTANTS
  Keys = {"a", "b", "c"}
  MaxLen = 12
  Fixed = TRUE
INVARIANT Decodes
VIEW View
CHECK_DEADLOCK FALSE
