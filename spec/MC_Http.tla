------------------------------- MODULE MC_Http -------------------------------
(***************************************************************************)
(* Design-level check and body generator for C20: one request = a fresh    *)
(* session running 1..MaxLen commands.  The command classes are those of   *)
(* the property; the outcome class of a command depends on the session     *)
(* state (selected? administrator? user-token?).  Invariant Aligned states *)
(* the property on the implementation-shaped reply; the recorded deviation *)
(* (refusal that also pushes a line) is the ghost `stale'.                 *)
(***************************************************************************)
EXTENDS NunHttp, Json

CONSTANT MaxLen

VARIABLES st,        \* session state [sel, admin, user]
          outcomes,  \* abstract outcomes of the commands so far
          hist       \* command names

vars == <<st, outcomes, hist>>

Cmds == {"auth_ok", "auth_bad", "use_ok", "use_bad", "use_user", "get", "get_other", "get_safe",
         "set", "setsafe_ok", "setsafe_stale", "remove", "inc_ok", "inc_nan", "keys",
         "create_new", "create_dup", "get_secure", "watch"}

O(cls, msg, lines) == [cls |-> cls, msg |-> msg, lines |-> lines]
NoSel(c)  == O("error", "E:nosel:" \o c, <<"L:nosel:" \o c>>)    \* error + pushed line
Denied(c) == O("error", "E:denied:" \o c, <<"L:denied:" \o c>>)  \* error + pushed line
Err(c)    == O("error", "E:" \o c, <<>>)
Ok0(c)    == O("ok", "", <<>>)
Ok1(c)    == O("ok", "", <<"V:" \o c>>)
Ok2(c)    == O("ok", "", <<"N:changed:" \o c, "N:changed-version:" \o c>>)   \* two notifications to the own session

(* permission list of the user: r a*  (may read a1, nothing else) *)
Outcome(c) ==
  CASE c \in {"auth_ok", "auth_bad"} -> Ok1(c)
    [] c \in {"use_ok", "use_user"} -> Ok0(c)
    [] c = "use_bad" -> Err(c)
    [] c \in {"get", "get_safe"} -> IF ~st.sel THEN NoSel(c) ELSE Ok1(c)
    [] c = "get_other" -> IF ~st.sel THEN NoSel(c) ELSE IF st.user THEN Denied(c) ELSE Ok1(c)
    [] c = "watch" -> IF ~st.sel THEN NoSel(c) ELSE Ok0(c)
    \* a write to the key this same request watches notifies the request's own session (two lines)
    [] c \in {"set", "setsafe_ok", "remove", "inc_ok"} ->
          IF ~st.sel THEN NoSel(c) ELSE IF st.user THEN Denied(c) ELSE IF st.watch /\ c \in {"set", "setsafe_ok"} THEN Ok2(c) ELSE Ok0(c)
    [] c \in {"setsafe_stale", "inc_nan"} ->
          IF ~st.sel THEN NoSel(c) ELSE IF st.user THEN Denied(c) ELSE Err(c)
    [] c = "keys" -> IF ~st.sel THEN NoSel(c) ELSE Ok1(c)
    [] c = "create_new" -> IF st.admin THEN Ok1(c) ELSE Err(c)
    [] c = "create_dup" -> Err(c)
    [] c = "get_secure" -> IF st.admin /\ st.sel THEN Ok1(c) ELSE IF st.admin THEN NoSel(c) ELSE Err(c)

After(c) ==
  CASE c = "auth_ok" -> [st EXCEPT !.admin = TRUE]
    [] c = "use_ok" /\ ~st.user -> [st EXCEPT !.sel = TRUE]
    [] c = "use_user" -> [st EXCEPT !.sel = TRUE, !.user = TRUE]
    [] c = "watch" /\ st.sel -> [st EXCEPT !.watch = TRUE]
    [] OTHER -> st

Init == st = [sel |-> FALSE, admin |-> FALSE, user |-> FALSE, watch |-> FALSE] /\ outcomes = <<>> /\ hist = <<>>

Next ==
  /\ Len(hist) < MaxLen
  /\ \E c \in Cmds :
       /\ ~(c = "use_ok" /\ st.user)   \* a session does not mix the two identities
       /\ ~(c \in {"setsafe_stale", "remove"} /\ "remove" \in {hist[i] : i \in DOMAIN hist})
       /\ hist' = Append(hist, c)
       /\ outcomes' = Append(outcomes, Outcome(c))
       /\ st' = After(c)

Spec == Init /\ [][Next]_vars

Stale == HasRefusedPush(outcomes)
Aligned == Stale \/ ImplReply(outcomes) = RefReply(outcomes)
AlignedStrict == ImplReply(outcomes) = RefReply(outcomes)
OneEntryPerCommand == Len(ImplReply(outcomes)) = Len(outcomes)

(* residue of the queue is what matters for what comes next *)
RECURSIVE Residue(_, _, _)
Residue(os, i, q) ==
  IF i > Len(os) THEN Len(q)
  ELSE LET q2 == q \o os[i].lines IN
       IF Refused(os[i]) THEN Residue(os, i + 1, <<>>)
       ELSE Residue(os, i + 1, <<>>)

View == <<st, Residue(outcomes, 1, <<>>), IF hist = <<>> THEN "" ELSE hist[Len(hist)]>>
Emit == PrintT(<<"CASE", ToJson(hist')>>)
=============================================================================
