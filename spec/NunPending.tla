------------------------------ MODULE NunPending ------------------------------
(***************************************************************************)
(* C15.  Pending-operation accounting of the primary.                      *)
(*                                                                         *)
(* Reference: sent[op] = nodes the operation was sent to, acked[op] = those *)
(* of them that acknowledged; an operation is pending iff some node it was  *)
(* sent to has not acknowledged.  Acknowledgements from nodes it was not    *)
(* sent to, for unknown operations, or repeated ones change nothing.       *)
(*                                                                         *)
(* Implementation-shaped twin (replication_ops.rs / bo.rs): per operation   *)
(* replicate_count, ack_count and a map node -> acknowledged?; the entry is *)
(* removed when the two counters are equal after a counted ack.            *)
(***************************************************************************)
EXTENDS Integers, Sequences, FiniteSets, TLC, Json

CONSTANTS Ops, Nodes, MaxLen

VARIABLES sent, acked,     \* reference
          entry,           \* implementation: [Ops -> None | [rc, ac, m : [Nodes -> "none"|"sent"|"acked"]]]
          dup,             \* ghost: the same (op, node) was registered while still pending
          hist

vars == <<sent, acked, entry, dup, hist>>

None == [rc |-> -1, ac |-> -1, m |-> [n \in Nodes |-> "none"]]
Fresh == [rc |-> 0, ac |-> 0, m |-> [n \in Nodes |-> "none"]]

Init ==
  /\ sent = [o \in Ops |-> {}] /\ acked = [o \in Ops |-> {}]
  /\ entry = [o \in Ops |-> None]
  /\ dup = FALSE
  /\ hist = <<>>

PendingRef == {o \in Ops : \E n \in sent[o] : n \notin acked[o]}
PendingImpl == {o \in Ops : entry[o] # None}

Register(o, n) ==
  /\ hist' = Append(hist, [ev |-> "register", op |-> o, node |-> n])
  \* reference: a new round for this node if the operation is not pending any more
  /\ IF o \in PendingRef
     THEN \* (a copy sent again to a node that already acknowledged awaits a new acknowledgement)
          sent' = [sent EXCEPT ![o] = @ \cup {n}] /\ acked' = [acked EXCEPT ![o] = @ \ {n}]
     ELSE sent' = [sent EXCEPT ![o] = {n}] /\ acked' = [acked EXCEPT ![o] = {}]
  /\ dup' = (dup \/ (o \in PendingRef /\ n \in sent[o]))
  /\ LET e == IF entry[o] = None THEN Fresh ELSE entry[o] IN
     \* a node whose acknowledgement is outstanding is counted once (repaired code)
     entry' = [entry EXCEPT ![o] = [rc |-> IF e.m[n] = "sent" THEN e.rc ELSE e.rc + 1, ac |-> e.ac,
                                    m |-> [e.m EXCEPT ![n] = "sent"]]]

Ack(o, n) ==
  /\ hist' = Append(hist, [ev |-> "ack", op |-> o, node |-> n])
  /\ acked' = [acked EXCEPT ![o] = IF n \in sent[o] THEN @ \cup {n} ELSE @]
  /\ UNCHANGED <<sent, dup>>
  /\ IF entry[o] = None THEN UNCHANGED entry
     ELSE LET e == entry[o] IN
          IF e.m[n] = "sent"
          THEN LET e2 == [rc |-> e.rc, ac |-> e.ac + 1, m |-> [e.m EXCEPT ![n] = "acked"]] IN
               entry' = [entry EXCEPT ![o] = IF e2.rc = e2.ac THEN None ELSE e2]
          ELSE \* never sent to n: the map insert marks it acked (harmless), nothing is counted
               entry' = [entry EXCEPT ![o] = [e EXCEPT !.m = [e.m EXCEPT ![n] = "acked"]]]

(* a member leaves the cluster (leave / replicate-leave, its connection dying, a re-join replacing its entry): *)
(* remove_cluster_member touches the member map only -- an operation that another node has not acknowledged  *)
(* stays pending, whoever leaves                                                                             *)
Leave(n) ==
  /\ hist' = Append(hist, [ev |-> "leave", op |-> 0, node |-> n])
  /\ UNCHANGED <<sent, acked, entry, dup>>

Next ==
  /\ Len(hist) < MaxLen
  /\ \/ \E o \in Ops, n \in Nodes : Register(o, n) \/ Ack(o, n)
     \/ \E n \in Nodes : Leave(n)

Spec == Init /\ [][Next]_vars

(* the property; duplicate registration of a still-pending (op, node) is the recorded deviation *)
Exact == dup \/ PendingImpl = PendingRef
ExactStrict == PendingImpl = PendingRef
CountersSane == \A o \in Ops : entry[o] # None => (entry[o].ac <= entry[o].rc /\ entry[o].ac >= 0)

View == <<sent, acked, entry>>
Emit == PrintT(<<"CASE", ToJson(hist')>>)
=============================================================================
