SPECIFICATION Spec
CONSTANTS
  Keys = {"a", "ab"}
  MaxLen = 7
  Switch = 1
  MaxQueue = 2
INVARIANTS QueueBounded HeldMatches
VIEW View
ACTION_CONSTRAINT Emit
CHECK_DEADLOCK FALSE
