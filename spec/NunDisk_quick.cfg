SPECIFICATION Spec
CONSTANTS
  Keys = {"a", "bcd"}
  MaxLen = 8
INVARIANTS RestoreExact NotCorrupt PositionsValid
VIEW View
ACTION_CONSTRAINT Emit
CHECK_DEADLOCK FALSE
