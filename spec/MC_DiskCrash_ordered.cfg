SPECIFICATION Spec
CONSTANTS
  Cap = 40
  KeySet <- KeySetDef
  ValSet <- ValSetDef
  MaxOps = 2
  MaxSnaps = 2
  Variant = "ordered"
INVARIANTS RestoreExact AddrsValid CrashSafe
ACTION_CONSTRAINT EmitCut
CHECK_DEADLOCK FALSE
