SPECIFICATION Spec
CONSTANTS
  MaxN = 4
  Times = {1, 2, 3}
  Keys = {"d0_k0", "d0_k1", "d1_k0"}
  Kinds = {"update", "remove"}
INVARIANT QueryOK
CHECK_DEADLOCK FALSE
