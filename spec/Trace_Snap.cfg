SPECIFICATION TraceSpec
CONSTANT Cap = 250
INVARIANT Done
CHECK_DEADLOCK FALSE
