------------------------------ MODULE Trace_KV ------------------------------
(***************************************************************************)
(* Trace validation of sequential single-node runs of the real node        *)
(* against the reference NunKV.  One ndjson line = one event; the witness   *)
(* of every action is the logged outcome.  Known findings are separately   *)
(* named deviation steps, enabled only when listed in the run              *)
(* configuration; the set of deviations an accepting path needed is        *)
(* reported.                                                               *)
(***************************************************************************)
EXTENDS NunKV, Json, IOUtils

Rec == ndJsonDeserialize(IOEnv.TRACE)
Cfg == JsonDeserialize(IOEnv.CFG)
TabRaw == JsonDeserialize(IOEnv.TABLES)
SetOf(seq) == {seq[i] : i \in DOMAIN seq}
TabDef == [admin_user |-> TabRaw.admin_user, admin_pwd |-> TabRaw.admin_pwd,
           secure |-> SetOf(TabRaw.secure),
           intof |-> TabRaw.intof, canon |-> TabRaw.canon,
           match |-> [p \in DOMAIN TabRaw.match |-> SetOf(TabRaw.match[p])],
           grant |-> [g \in DOMAIN TabRaw.grant |->
                        [kd \in DOMAIN TabRaw.grant[g] |-> SetOf(TabRaw.grant[g][kd])]]]
ChecksDef == {Cfg.checks[i] : i \in DOMAIN Cfg.checks}
Devs == {Cfg.devs[i] : i \in DOMAIN Cfg.devs}

VARIABLES l,     \* next event
          used   \* deviations used so far in the current run

tvars == <<dbs, sess, subs, mx, skew, l, used>>

E == Rec[l]
Dev(x) == x \in Devs

TraceInit ==
  /\ l = 1 /\ used = {}
  /\ dbs = [x \in {} |-> 0] /\ sess = [x \in {} |-> 0]
  /\ subs = [x \in {} |-> 0] /\ mx = [x \in {} |-> 0] /\ skew = [x \in {} |-> 0]
  /\ TLCSet(1, 0) /\ TLCSet(2, {}) /\ TLCSet(3, <<>>)

Reset ==
  /\ E.ev = "reset"
  /\ dbs' = E.dbs
  /\ sess' = [x \in {} |-> 0]
  /\ subs' = [x \in {} |-> 0]
  /\ mx' = [d \in DOMAIN E.dbs |-> [k \in LiveKeys(E.dbs, d) |-> Ver(E.dbs, d, k)]]
  /\ used' = {}
  /\ skew' = [x \in {} |-> 0]
  /\ (used # {}) => PrintT(<<"USED", Rec[l-1].run, used>>)

(* A restart ends every session; what the store must look like afterwards is the   *)
(* business of Trace_Restore (C06), here it is adopted.                            *)
Restart ==
  /\ E.ev = "restart"
  /\ E.cls # "panic"
  /\ dbs' = E.dbs
  /\ sess' = [x \in {} |-> 0]
  /\ subs' = [x \in {} |-> 0]
  /\ mx' = [d \in DOMAIN E.dbs |-> [k \in LiveKeys(E.dbs, d) |-> Ver(E.dbs, d, k)]]
  /\ skew' = [x \in {} |-> 0]
  /\ UNCHANGED used

-----------------------------------------------------------------------------
(* Known-finding deviations.  Each one contradicts the reference step it replaces  *)
(* and is as narrow as the finding.                                                *)

(* C01: increment of a key that was removed after having been persisted is refused *)
(* ("Key is not numeric": the tombstone's value is not a number).                  *)
Dev_IncOnTombstoneRefused ==
  /\ Dev("Dev_IncOnTombstoneRefused")
  /\ E.ev = "cmd" /\ E.op = "increment" /\ Authorised(E.c, E)
  /\ Has(dbs, S(E.c).sel, E.k) /\ ~Live(dbs, S(E.c).sel, E.k)
  /\ Refused(E.cls) /\ Unchanged(E) /\ NoNotes(E)
  /\ dbs' = E.dbs /\ UNCHANGED <<sess, subs, mx>>
  /\ UNCHANGED skew
  /\ used' = used \cup {"Dev_IncOnTombstoneRefused"}

(* C02: a successful increment resets the version to 1 *)
Dev_IncResetsVersion ==
  /\ Dev("Dev_IncResetsVersion")
  /\ E.ev = "cmd" /\ E.op = "increment" /\ Authorised(E.c, E)
  /\ Success(E.cls)
  /\ LET d == S(E.c).sel IN
     /\ Live(dbs, d, E.k) /\ Live(E.dbs, d, E.k)
     /\ Ver(E.dbs, d, E.k) = 1 /\ OldMx(d, E.k) >= 1
     /\ UnchangedBut(E, d, {E.k})
  /\ dbs' = E.dbs /\ mx' = MxAfter(E) /\ UNCHANGED <<sess, subs>>
  /\ UNCHANGED skew
  /\ used' = used \cup {"Dev_IncResetsVersion"}

(* C17: selecting a database while one is already selected counts the session twice *)
(* / does not release the previous one; $connections then over-counts.              *)
Dev_UseDbCountsEverySelect ==
  /\ Dev("Dev_UseDbCountsEverySelect")
  /\ E.ev = "cmd" /\ E.op = "use-db" /\ Success(E.cls) /\ TokenOK(E)
  /\ S(E.c).sel # "-"
  /\ sess' = [x \in DOMAIN sess \cup {E.c} |->
                IF x = E.c THEN [S(E.c) EXCEPT !.sel = E.d, !.user = E.u] ELSE sess[x]]
  \* the previously selected database keeps counting this session
  /\ skew' = [d \in DOMAIN skew \cup {S(E.c).sel} |->
                IF d = S(E.c).sel THEN SkewOf(d) + 1 ELSE skew[d]]
  /\ \A d \in DOMAIN E.dbs : d # "$admin" =>
        E.dbs[d].conns = OpenOn(sess', d) + (IF d \in DOMAIN skew' THEN skew'[d] ELSE 0)
  /\ UnchangedBut(E, E.d, {"$connections"})
  /\ dbs' = E.dbs /\ mx' = MxAfter(E) /\ UNCHANGED subs
  /\ used' = used \cup {"Dev_UseDbCountsEverySelect"}

(* C08/C09: `resolve' is executed without any credential or permission check *)
Dev_ResolveBypassesAccess ==
  /\ Dev("Dev_ResolveBypassesAccess")
  /\ E.ev = "cmd" /\ E.op = "resolve" /\ ~Authorised(E.c, E)
  /\ ~(Refused(E.cls) /\ Unchanged(E) /\ NoSideEffects(E) /\ NoNotes(E))
  /\ dbs' = E.dbs /\ mx' = MxAfter(E) /\ UNCHANGED <<sess, subs>>
  /\ UNCHANGED skew
  /\ used' = used \cup {"Dev_ResolveBypassesAccess"}

(* C09: `election <anything but win/candidate>' is accepted without authentication and *)
(* queued for replication; the data is untouched.                                      *)
Dev_ElectionActiveUnauth ==
  /\ Dev("Dev_ElectionActiveUnauth")
  /\ E.ev = "cmd" /\ E.op = "election-other" /\ ~Authorised(E.c, E)
  /\ Success(E.cls) /\ Unchanged(E) /\ NoNotes(E)
  /\ E.side.repl = 1 /\ E.side.sup = 0 /\ E.side.snapq = 0
  /\ dbs' = E.dbs /\ UNCHANGED <<sess, subs, mx>>
  /\ UNCHANGED skew
  /\ used' = used \cup {"Dev_ElectionActiveUnauth"}

Deviation ==
  \/ Dev_ResolveBypassesAccess
  \/ Dev_ElectionActiveUnauth
  \/ Dev_IncOnTombstoneRefused
  \/ Dev_IncResetsVersion
  \/ Dev_UseDbCountsEverySelect

-----------------------------------------------------------------------------
Normal ==
  \/ Reset
  \/ Restart
  \/ E.ev = "cmd" /\ Cmd(E.c, E, E) /\ UNCHANGED used
  \/ E.ev = "tick" /\ Tick(E) /\ UNCHANGED <<used, skew>>
  \/ E.ev = "close" /\ Close(E.c, E) /\ UNCHANGED <<used, skew>>

TraceNext ==
  /\ l <= Len(Rec)
  /\ l' = l + 1
  /\ (Normal \/ Deviation)

TraceSpec == TraceInit /\ [][TraceNext]_tvars

(* furthest event matched, and the deviations of a path that consumed everything *)
Progress ==
  /\ (l > TLCGet(1)) => TLCSet(1, l)
  /\ (l = Len(Rec) + 1 /\ used # {}) => PrintT(<<"USED", Rec[l-1].run, used>>)

(* deviations are per run; remember them across resets for the report *)
TraceAccepted ==
  IF TLCGet(1) = Len(Rec) + 1
  THEN PrintT(<<"ACCEPTED", Len(Rec)>>)
  ELSE PrintT(<<"REJECTED", TLCGet(1), Rec[TLCGet(1)].run, Rec[TLCGet(1)].i>>) /\ FALSE
=============================================================================
