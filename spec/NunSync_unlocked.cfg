SPECIFICATION Spec
CONSTANTS
  Away = 2
  Live = 3
  Variant = "unlocked"
INVARIANTS NoLostWrite
PROPERTIES EventuallyEqual
CHECK_DEADLOCK FALSE
