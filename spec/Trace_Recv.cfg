SPECIFICATION TraceSpec
INVARIANT Done
CHECK_DEADLOCK FALSE
