#!/bin/sh
# Builds the conformance harness (path dependency on /repo, --cfg nun_verif) offline.
set -e
cd "$(dirname "$0")/harness"
[ -f Cargo.lock ] || cp /repo/Cargo.lock Cargo.lock
CARGO_NET_OFFLINE=true cargo build --offline 2>&1 | tail -3
